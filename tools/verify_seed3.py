#!/usr/bin/env python3
"""Like verify_seed.py but without changing any path (a path change forces a full rebuild): a private copy
/tmp/seedv/base3 of the prebuilt base is bind-mounted over /tmp/seedv/base2 inside a mount namespace, the patch
is applied there, ninja rebuilds incrementally, ctest + demo run, then the patch is reverted and rebuilt.
usage: verify_seed3.py <id>..."""
import json, os, subprocess, sys, time
ROOT = os.path.dirname(os.path.dirname(os.path.abspath(__file__)))
B2 = "/tmp/seedv/base2"
def sh(cmd, **kw):
    p = subprocess.run(cmd, shell=True, stdout=subprocess.PIPE, stderr=subprocess.STDOUT, text=True, **kw)
    return p.returncode, p.stdout
def ns(cmd, B3=None):
    B3 = B3 or CUR[0]
    return sh("unshare -m sh -c 'mount --bind %s %s && %s'" % (B3, B2, cmd.replace("'", "'\\''")))
CUR = [None]
for sid in sys.argv[1:]:
    CUR[0] = "/tmp/seedv/w-" + sid
    ns("cd %s && git checkout -- . " % B2)
    sdir = os.path.join(ROOT, "seeded", sid)
    res = {"id": sid, "at": time.strftime("%Y-%m-%d %H:%M"), "how": "tools/verify_seed3.py (per-seed private copy of the prebuilt base bind-mounted at the same path, incremental rebuild)"}
    rc, out = sh("cd %s/demo && OCCA_CACHE_DIR=/tmp/seedv/cache-%s-base bash run.sh %s/_b" % (sdir, sid, B2))
    res["demo_on_base_exit"] = rc; res["demo_on_base_tail"] = out[-300:]
    rc, out = ns("cd %s && git apply %s/patch.diff" % (B2, sdir)); res["patch_applies"] = rc == 0
    rc, out = ns("ninja -C %s/_b -j16" % B2); res["build_ok"] = rc == 0
    rc, out = ns("cd %s/_b && OCCA_CACHE_DIR=/tmp/seedv/cache-%s-t ctest -j8 --timeout 3000" % (B2, sid))
    if rc != 0:
        rc, out2 = ns("cd %s/_b && OCCA_CACHE_DIR=/tmp/seedv/cache-%s-t ctest --rerun-failed --timeout 6000" % (B2, sid)); out += out2
    line = [l for l in out.split("\n") if "tests passed" in l or "tests failed" in l]
    res["tests_pass_with_change"] = rc == 0; res["tests_line"] = line[-1] if line else out[-200:]
    rc, out = ns("cd %s/demo && OCCA_CACHE_DIR=/tmp/seedv/cache-%s-chg bash run.sh %s/_b" % (sdir, sid, B2))
    res["demo_on_changed_exit"] = rc; res["demo_on_changed_tail"] = out[-300:]
    ns("cd %s && git checkout -- . && ninja -C %s/_b -j16 > /dev/null" % (B2, B2))
    res["confirmed"] = bool(res["demo_on_base_exit"] == 0 and res["patch_applies"] and res["build_ok"] and res["tests_pass_with_change"] and res["demo_on_changed_exit"] != 0)
    json.dump(res, open(os.path.join(sdir, "verify.json"), "w"), indent=1)
    print(sid, "confirmed" if res["confirmed"] else "NOT CONFIRMED", json.dumps({k: v for k, v in res.items() if not k.endswith("tail")}), flush=True)
    sh("rm -rf /tmp/seedv/cache-%s-*" % sid)
