#!/usr/bin/env python3
"""Write seeded/<id>/meta.json from seeded/<id>/verify.json (my own confirmation run) and the detection
table below (what I ran against the change and what it reported)."""
import json, os
ROOT = os.path.dirname(os.path.dirname(os.path.abspath(__file__)))
T = json.load(open(os.path.join(ROOT, "seeded", "detection.json")))
for sid, d in T.items():
    sdir = os.path.join(ROOT, "seeded", sid)
    if not os.path.isdir(sdir):
        continue
    v = {}
    vp = os.path.join(sdir, "verify.json")
    if os.path.exists(vp):
        v = json.load(open(vp))
    meta = {
        "property": d.get("property", sid.split("-")[0]),
        "source": "fresh sub-agent given only the property text and a scratch tree (no access to /verif)",
        "breaks": d["breaks"],
        "needs_to_manifest": d["needs"],
        "confirmed_by_me": {k: v.get(k) for k in ("demo_on_base_exit", "patch_applies", "build_ok", "tests_pass_with_change", "tests_line", "demo_on_changed_exit", "confirmed", "at")} if v else "pending",
        "what_i_ran": d["ran"],
        "detected_by": d["detected_by"],
        "signature": d.get("signature"),
        "note": d.get("note", ""),
    }
    json.dump(meta, open(os.path.join(sdir, "meta.json"), "w"), indent=1)
    print(sid, meta["detected_by"])
