#!/usr/bin/env python3
"""Build the repository's own test suite (guard OFF) from $VERIF_REPO (default /repo) into
$VERIF_BUILD/repo-tests and run it.  Exit 0 iff all 61 baseline tests pass."""
import os, subprocess, sys, re
ROOT = os.path.dirname(os.path.dirname(os.path.abspath(__file__)))
REPO = os.environ.get("VERIF_REPO", "/repo")
BUILD = os.environ.get("VERIF_BUILD", os.path.join(ROOT, "build"))
bdir = os.path.join(BUILD, "repo-tests")
os.makedirs(bdir, exist_ok=True)
def run(cmd, **kw):
    p = subprocess.run(cmd, stdout=subprocess.PIPE, stderr=subprocess.STDOUT, text=True, **kw)
    return p.returncode, p.stdout
if not os.path.exists(os.path.join(bdir, "build.ninja")):
    rc, out = run(["cmake", "-G", "Ninja", "-S", REPO, "-B", bdir, "-DCMAKE_BUILD_TYPE=RelWithDebInfo",
                   "-DCMAKE_CXX_FLAGS=-Wno-error", "-DOCCA_ENABLE_TESTS=ON"])
    if rc: print(out[-3000:]); sys.exit(2)
rc, out = run(["ninja", "-C", bdir, "-j", "16"])
if rc: print(out[-5000:]); print("BUILD FAILED"); sys.exit(2)
env = dict(os.environ); env["OCCA_CACHE_DIR"] = os.path.join(bdir, "occa-cache")
rc, out = run(["ctest", "--test-dir", bdir, "-j8", "--timeout", "900"], env=env)
tail = "\n".join(out.strip().split("\n")[-12:])
print(tail)
m = re.search(r"(\d+)% tests passed, (\d+) tests failed out of (\d+)", out)
ok = bool(m) and m.group(2) == "0" and int(m.group(3)) >= 61
print("REPO-TESTS", "PASS" if ok else "FAIL")
sys.exit(0 if ok else 1)
