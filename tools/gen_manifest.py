#!/usr/bin/env python3
"""Generate MANIFEST.json from checks/*/meta.json (one per claimed property) so the manifest is always
valid and in sync.  Properties without a checks/<id>/meta.json are listed under not_applicable
with the reason from tools/not_claimed.json."""
import json, os, sys
ROOT = os.path.dirname(os.path.dirname(os.path.abspath(__file__)))
props = [json.loads(l) for l in open(os.path.join(ROOT, "properties.jsonl"))]
not_claimed = json.load(open(os.path.join(ROOT, "tools", "not_claimed.json")))
accepted = set(json.load(open(os.path.join(ROOT, "tools", "accepted.json"))))   # ids reviewed and accepted into the manifest
checks, na = [], []
for p in props:
    pid = p["id"]
    mp = os.path.join(ROOT, "checks", pid, "meta.json")
    if pid in accepted and os.path.exists(mp) and os.path.exists(os.path.join(ROOT, "checks", pid, "check.py")):
        m = json.load(open(mp))
        checks.append({
            "property_id": pid,
            "quick_cmd": "bin/vcheck %s --tier quick" % pid,
            "thorough_cmd": "bin/vcheck %s --tier thorough" % pid,
            "evidence_file": "evidence/%s.json" % pid,
            "replay_cmd_template": "bin/vcheck %s --replay {path}" % pid,
            "engine": m["engine"],
            "level_claimed": {"category": m["level"], "text": m["level_text"], "design_ref": m.get("design_ref", "DESIGN.md section 5, " + pid)},
            "level_note": m["level_note"],
            "technique": m["technique"],
        })
    else:
        na.append({"property_id": pid, "reason": not_claimed.get(pid, "check not built yet in this session (planned, see DESIGN.md section 5)")})
man = {
    "version": 1,
    "setup_cmd": "python3 tools/build.py all && make -s -C engines",
    "hooks": {
        "guard": "LIBOCCA_OCCA_VERIF",
        "enable": "tools/build.py configures every variant under /verif/build/<variant> with -DCMAKE_CXX_FLAGS containing -DLIBOCCA_OCCA_VERIF; harnesses are compiled with the same define",
        "baseline_off_cmd": "cmake --build /repo/_build -j16 && ctest --test-dir /repo/_build -j8 --timeout 900",
        "source_commits": json.load(open(os.path.join(ROOT, "tools", "hook_commits.json"))),
        "add_only": True,
    },
    "engines": json.load(open(os.path.join(ROOT, "tools", "engines.json"))),
    "checks": checks,
    "not_applicable": na,
    "notes": "Model-checking family: every check enumerates a bounded space exhaustively on the real code (see DESIGN.md). Exit 2 = harness error, never a verdict. known_findings.txt lists recorded findings and fix: commits.",
}
json.dump(man, open(os.path.join(ROOT, "MANIFEST.json"), "w"), indent=1)
print("checks:", len(checks), "not claimed:", len(na))
