#!/usr/bin/env python3
"""Build a libocca variant from /repo's *current working tree* into /verif/build/<variant>.

Incremental (cmake+ninja), serialised by a file lock so checks may run concurrently.
Usage: build.py <variant>... | all      (prints the build directory of each variant)
"""
import fcntl, os, subprocess, sys, time

ROOT = os.path.dirname(os.path.dirname(os.path.abspath(__file__)))
REPO = os.environ.get("VERIF_REPO", "/repo")
BUILD = os.environ.get("VERIF_BUILD", os.path.join(ROOT, "build"))
GUARD = "-DLIBOCCA_OCCA_VERIF"

VARIANTS = {
    # in-process harnesses: ASan + UBSan (UBSan recoverable: reports are grepped from stderr)
    "asan": dict(flags=f"-O1 -g1 -fno-omit-frame-pointer -fsanitize=address,undefined {GUARD} -Wno-error",
                 opts=[]),
    # process-level checks (thousands of process starts)
    "rel": dict(flags=f"-O1 -g1 {GUARD} -Wno-error", opts=[]),
    # sharable-device build, ASan
    "shr": dict(flags=f"-O1 -g1 -fno-omit-frame-pointer -fsanitize=address {GUARD} -Wno-error",
                opts=["-DENABLE_SHARABLE_DEVICE=ON"]),
    # sharable-device build, TSan (free-running pass)
    "shr-tsan": dict(flags=f"-O1 -g1 -fno-omit-frame-pointer -fsanitize=thread {GUARD} -Wno-error",
                     opts=["-DENABLE_SHARABLE_DEVICE=ON"]),
}

def run(cmd, log):
    p = subprocess.run(cmd, stdout=subprocess.PIPE, stderr=subprocess.STDOUT, text=True)
    with open(log, "a") as f:
        f.write("$ " + " ".join(cmd) + "\n" + p.stdout + "\n")
    return p.returncode, p.stdout

def build(variant):
    v = VARIANTS[variant]
    bdir = os.path.join(BUILD, variant)
    os.makedirs(bdir, exist_ok=True)
    log = os.path.join(bdir, "vp-build.log")
    with open(os.path.join(BUILD, f".lock-{variant}"), "w") as lk:
        fcntl.flock(lk, fcntl.LOCK_EX)
        open(log, "w").close()
        if not os.path.exists(os.path.join(bdir, "build.ninja")):
            cmd = ["cmake", "-G", "Ninja", "-S", REPO, "-B", bdir,
                   "-DCMAKE_BUILD_TYPE=None",
                   f"-DCMAKE_CXX_FLAGS={v['flags']}", f"-DCMAKE_C_FLAGS={v['flags']}",
                   "-DOCCA_ENABLE_TESTS=OFF", "-DOCCA_ENABLE_EXAMPLES=OFF",
                   "-DOCCA_ENABLE_CUDA=OFF", "-DOCCA_ENABLE_HIP=OFF", "-DOCCA_ENABLE_OPENCL=OFF",
                   "-DOCCA_ENABLE_METAL=OFF", "-DOCCA_ENABLE_DPCPP=OFF",
                   "-DCMAKE_INSTALL_PREFIX=" + os.path.join(bdir, "_inst")] + v["opts"]
            rc, out = run(cmd, log)
            if rc != 0:
                sys.stderr.write(out[-4000:])
                raise SystemExit(f"build.py: cmake configure failed for {variant} (see {log})")
        rc, out = run(["ninja", "-C", bdir, "-j", str(os.cpu_count() or 8)], log)
        if rc != 0:
            sys.stderr.write(out[-6000:])
            raise SystemExit(f"build.py: ninja failed for {variant} (see {log})")
    return bdir

def main(argv):
    names = argv[1:] or ["asan"]
    if names == ["all"]:
        names = list(VARIANTS)
    for n in names:
        t = time.time()
        d = build(n)
        print(f"{n}: {d} ({time.time()-t:.1f}s)")

if __name__ == "__main__":
    main(sys.argv)
