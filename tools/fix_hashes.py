#!/usr/bin/env python3
"""Rewrite the commit hashes of 'fixed:' lines in known_findings.txt so that they name the commit on
/repo's main branch with the same subject (agents committed on their own branches; cherry-picks get
new hashes).  Lines whose commit is already on main are left alone."""
import os, re, subprocess
ROOT = os.path.dirname(os.path.dirname(os.path.abspath(__file__)))
def git(*a):
    return subprocess.run(["git", "-C", "/repo"] + list(a), capture_output=True, text=True).stdout.strip()
main = {}
for ln in git("log", "--format=%h\t%s", "main").split("\n"):
    h, _, s = ln.partition("\t")
    main.setdefault(s, h)
on_main = set(git("log", "--format=%h", "main").split("\n"))
out, changed, missing = [], 0, []
for ln in open(os.path.join(ROOT, "known_findings.txt")):
    m = re.match(r"(fixed:\s+property=\S+\s+)([0-9a-f]{7,40})(\s.*)", ln.rstrip("\n"))
    if m:
        h = m.group(2)
        short = git("rev-parse", "--short", h) or h
        if short not in on_main:
            subj = git("log", "-1", "--format=%s", h)
            if subj in main:
                ln = m.group(1) + main[subj] + m.group(3) + "\n"
                changed += 1
            else:
                missing.append((h, subj))
    out.append(ln)
open(os.path.join(ROOT, "known_findings.txt"), "w").writelines(out)
print("rewritten:", changed, "not on main:", missing)
