#!/usr/bin/env python3
"""Apply one patch to $VERIF_REPO (default /repo) working tree, run the given checks (quick tier unless
--tier), report which ones raise a VIOLATION, then revert the patch (git checkout -- .).
  usage: mutation_audit.py <patch.diff> <id> [<id>...] [--tier thorough] [--tests]
--tests additionally builds and runs the repository's own suite on the patched tree (must pass)."""
import os, subprocess, sys
ROOT = os.path.dirname(os.path.dirname(os.path.abspath(__file__)))
REPO = os.environ.get("VERIF_REPO", "/repo")
args = sys.argv[1:]
tier = "quick"; tests = False
if "--tier" in args:
    i = args.index("--tier"); tier = args[i + 1]; del args[i:i + 2]
if "--tests" in args:
    args.remove("--tests"); tests = True
patch, ids = os.path.abspath(args[0]), args[1:]
st = subprocess.run(["git", "-C", REPO, "status", "--porcelain", "--untracked-files=no"], capture_output=True, text=True).stdout.strip()
if st:
    print("refusing: working tree of %s is not clean:\n%s" % (REPO, st)); sys.exit(2)
r = subprocess.run(["git", "-C", REPO, "apply", patch], capture_output=True, text=True)
if r.returncode:
    print("patch does not apply:", r.stderr); sys.exit(2)
res = {}
try:
    if tests:
        p = subprocess.run([sys.executable, os.path.join(ROOT, "tools", "repo_tests.py")], capture_output=True, text=True)
        print("repo tests on mutated tree:", "PASS" if p.returncode == 0 else "FAIL\n" + p.stdout[-1500:])
        res["_tests"] = p.returncode == 0
    for pid in ids:
        p = subprocess.run([os.path.join(ROOT, "bin", "vcheck"), pid, "--tier", tier], capture_output=True, text=True, cwd=ROOT)
        viol = [l for l in p.stdout.split("\n") if l.startswith("VIOLATION")]
        res[pid] = (p.returncode, len(viol))
        print("%s: exit=%d violations=%d" % (pid, p.returncode, len(viol)))
        for l in viol[:4]: print("   ", l[:260])
        if p.returncode not in (0, 1): print(p.stderr[-1500:])
finally:
    subprocess.run(["git", "-C", REPO, "checkout", "--", "."])
    # restore evidence written on the mutated tree is the caller's business (re-run the check)
detected = [pid for pid in ids if res.get(pid, (0, 0))[0] == 1]
print("DETECTED-BY:", ",".join(detected) if detected else "none")
sys.exit(0 if detected else 1)
