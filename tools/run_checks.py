#!/usr/bin/env python3
"""Run the given checks (default: all accepted) one after another; print one summary line each.
usage: run_checks.py [--tier quick|thorough] [ids...]"""
import json, os, subprocess, sys, time
ROOT = os.path.dirname(os.path.dirname(os.path.abspath(__file__)))
args = sys.argv[1:]
tier = "quick"
if "--tier" in args:
    i = args.index("--tier"); tier = args[i + 1]; del args[i:i + 2]
ids = args or json.load(open(os.path.join(ROOT, "tools", "accepted.json")))
os.makedirs(os.path.join(ROOT, "build", "logs"), exist_ok=True)
for pid in ids:
    t = time.time()
    p = subprocess.run([os.path.join(ROOT, "bin", "vcheck"), pid, "--tier", tier], cwd=ROOT, capture_output=True, text=True)
    open(os.path.join(ROOT, "build", "logs", "%s-%s.log" % (pid, tier)), "w").write(p.stdout + "\n--- stderr ---\n" + p.stderr)
    nv = sum(1 for l in p.stdout.split("\n") if l.startswith("VIOLATION"))
    nk = sum(1 for l in p.stdout.split("\n") if l.startswith("KNOWN-FINDING"))
    last = [l for l in p.stdout.strip().split("\n") if l.strip()][-1:] or [""]
    print("%s exit=%d violations=%d known=%d wall=%.0fs :: %s" % (pid, p.returncode, nv, nk, time.time() - t, last[0][:200]), flush=True)
