#!/usr/bin/env python3
"""Confirm a seeded change myself: in a scratch copy of a test-enabled base build of /repo main,
(1) the demo passes on the base build, (2) with the patch applied the library still builds and the
repository's 61 tests pass, (3) the demo fails.  Writes seeded/<id>/verify.json.
usage: verify_seed.py <id> [<id>...]     (base build: /tmp/seedv/base/_b, built beforehand)"""
import json, os, shutil, subprocess, sys, time
ROOT = os.path.dirname(os.path.dirname(os.path.abspath(__file__)))
BASE = os.environ.get("SEED_BASE", "/tmp/seedv/base")
def sh(cmd, **kw):
    p = subprocess.run(cmd, shell=isinstance(cmd, str), stdout=subprocess.PIPE, stderr=subprocess.STDOUT, text=True, **kw)
    return p.returncode, p.stdout
def ctest(bdir, cache):
    env = dict(os.environ, OCCA_CACHE_DIR=cache)
    rc, out = sh(["ctest", "--test-dir", bdir, "-j4", "--timeout", "3000"], env=env)
    if rc != 0:
        rc, out2 = sh(["ctest", "--test-dir", bdir, "--rerun-failed", "--timeout", "6000"], env=env)
        out += out2
    tail = [l for l in out.split("\n") if "tests passed" in l or "tests failed" in l]
    return rc == 0, tail[-1] if tail else out[-300:]
for sid in sys.argv[1:]:
    sdir = os.path.join(ROOT, "seeded", sid)
    work = "/tmp/seedv/" + sid
    shutil.rmtree(work, ignore_errors=True)
    res = {"id": sid, "at": time.strftime("%Y-%m-%d %H:%M")}
    env = dict(os.environ, OCCA_CACHE_DIR=work + "-cache-base")
    rc, out = sh(["bash", os.path.join(sdir, "demo", "run.sh"), BASE + "/_b"], env=env, cwd=os.path.join(sdir, "demo"))
    res["demo_on_base_exit"] = rc
    res["demo_on_base_tail"] = out[-400:]
    # changed tree: copy of the base worktree incl. its build dir (cmake cache is path-bound: re-point by rsync + reconfigure)
    sh("cp -a %s %s" % (BASE, work))
    sh("sed -i 's#%s#%s#g' %s/_b/CMakeCache.txt" % (BASE, work, work))
    rc, out = sh(["git", "-C", work, "apply", os.path.join(sdir, "patch.diff")])
    res["patch_applies"] = rc == 0
    rc, out = sh("cmake -S %s -B %s/_b > /dev/null 2>&1; ninja -C %s/_b -j8" % (work, work, work))
    res["build_ok"] = rc == 0
    ok, line = ctest(work + "/_b", work + "-cache")
    res["tests_pass_with_change"] = ok
    res["tests_line"] = line
    env = dict(os.environ, OCCA_CACHE_DIR=work + "-cache-demo")
    rc, out = sh(["bash", os.path.join(sdir, "demo", "run.sh"), work + "/_b"], env=env, cwd=os.path.join(sdir, "demo"))
    res["demo_on_changed_exit"] = rc
    res["demo_on_changed_tail"] = out[-400:]
    res["confirmed"] = bool(res["demo_on_base_exit"] == 0 and res["patch_applies"] and res["build_ok"] and ok and rc != 0)
    json.dump(res, open(os.path.join(sdir, "verify.json"), "w"), indent=1)
    print(sid, "confirmed" if res["confirmed"] else "NOT CONFIRMED", json.dumps({k: v for k, v in res.items() if not k.endswith("tail")}))
    for d in (work, work + "-cache", work + "-cache-base", work + "-cache-demo"):
        shutil.rmtree(d, ignore_errors=True)
