"""Shared infrastructure for all checks: builds, harness compilation, known findings,
violation reporting and evidence files.

Conventions (see DESIGN.md section 2 and 8):
  exit 0  property held on everything explored (KNOWN-FINDING lines allowed)
  exit 1  at least one VIOLATION line (a violation not listed in known_findings.txt)
  exit 2  harness error (vacuity guard, replay divergence, build failure) - never a verdict
"""
import argparse, hashlib, json, os, re, shutil, subprocess, sys, time

ROOT = os.path.dirname(os.path.dirname(os.path.abspath(__file__)))
REPO = os.environ.get("VERIF_REPO", "/repo")
BUILD = os.environ.get("VERIF_BUILD", os.path.join(ROOT, "build"))
EVID = os.path.join(ROOT, "evidence")
KNOWN = os.path.join(ROOT, "known_findings.txt")
NCPU = os.cpu_count() or 8

sys.path.insert(0, os.path.join(ROOT, "tools"))


class HarnessError(Exception):
    pass


def sh(cmd, **kw):
    return subprocess.run(cmd, stdout=subprocess.PIPE, stderr=subprocess.STDOUT, text=True, **kw)


def build_variant(variant):
    import build as _b
    return _b.build(variant)


SAN_FLAGS = {
    "asan": ["-fsanitize=address,undefined", "-fno-omit-frame-pointer"],
    "rel": [],
    "shr": ["-fsanitize=address", "-fno-omit-frame-pointer"],
    "shr-tsan": ["-fsanitize=thread", "-fno-omit-frame-pointer"],
}


def compile_harness(src, out, variant="asan", extra=(), opt="-O1", libs=()):
    """Compile a C++ harness against the libocca variant (always recompiled: templates and
    inline code from /repo headers are part of what is checked)."""
    bdir = os.path.join(BUILD, variant)
    os.makedirs(os.path.dirname(out), exist_ok=True)
    srcs = [src] if isinstance(src, str) else list(src)
    cmd = ["g++", "-std=c++17", opt, "-g1", "-DLIBOCCA_OCCA_VERIF", "-fno-access-control", "-w",
           "-I" + os.path.join(REPO, "include"), "-I" + os.path.join(bdir, "include"),
           "-I" + os.path.join(REPO, "src"), "-I" + os.path.join(ROOT, "engines")]
    cmd += SAN_FLAGS[variant] + list(extra) + srcs
    cmd += ["-L" + os.path.join(bdir, "lib"), "-locca", "-Wl,-rpath," + os.path.join(bdir, "lib"),
            "-lpthread", "-ldl"] + list(libs) + ["-o", out]
    p = sh(cmd)
    if p.returncode != 0:
        raise HarnessError("harness compile failed:\n" + " ".join(cmd) + "\n" + p.stdout[-6000:])
    return out


def san_env(scratch, extra=None):
    """Environment for processes under test: private cache dir, sanitizer options, fixed locale."""
    env = dict(os.environ)
    env.update({
        "OCCA_CACHE_DIR": os.path.join(scratch, "occa-cache"),
        "OCCA_VERBOSE": "0",
        "OCCA_COLOR_ENABLED": "0",
        "ASAN_OPTIONS": "detect_leaks=0:abort_on_error=0:exitcode=77:allocator_may_return_null=1:detect_stack_use_after_return=0",
        "UBSAN_OPTIONS": "print_stacktrace=0:halt_on_error=0",
        "TSAN_OPTIONS": "exitcode=66:halt_on_error=0",
        "LC_ALL": "C",
    })
    env.pop("OCCA_DIR", None)
    if extra:
        env.update(extra)
    return env


class Known:
    """known_findings.txt: lines
         known: property=<id> signature=<sig> :: <what fails>
         fixed: property=<id> <commit> <what failed>
       'fixed' lines suppress nothing.  A signature may end in '*' (prefix match)."""

    def __init__(self, pid):
        self.entries = []
        if os.path.exists(KNOWN):
            for ln in open(KNOWN):
                m = re.match(r"known:\s+property=(\S+)\s+signature=(\S+)\s+::\s*(.*)", ln.strip())
                if m and m.group(1) == pid:
                    self.entries.append((m.group(2), m.group(3)))

    def match(self, sig):
        for s, what in self.entries:
            if s == sig or (s.endswith("*") and sig.startswith(s[:-1])):
                return (s, what)
        return None


class Check:
    def __init__(self, pid, level, argv=None, description=""):
        ap = argparse.ArgumentParser(description=description)
        ap.add_argument("--tier", default=os.environ.get("VERIF_TIER", "quick"), choices=["quick", "thorough"])
        ap.add_argument("--replay", default=None)
        ap.add_argument("--budget", type=float, default=None, help="wall-clock budget in seconds")
        ap.add_argument("--keep", action="store_true", help="keep scratch directory")
        self.args = ap.parse_args(argv)
        self.pid = pid
        self.level = level
        self.tier = self.args.tier
        try:
            self.seed = int(os.environ.get("VERIF_SEED", "0"))
        except ValueError:
            self.seed = 0
        self.t0 = time.time()          # budgets count from here; reset after every build/compile step
        self.t_start = self.t0         # wall_s counts from here
        self.known = Known(pid)
        self.violations = []        # dicts: sig, detail, replay
        self.coverage = {}
        self.assumptions = []
        self.scratch = os.path.join(BUILD, "scratch", pid + ("-replay" if self.args.replay else ""))
        shutil.rmtree(self.scratch, ignore_errors=True)
        os.makedirs(self.scratch, exist_ok=True)
        self.bindir = os.path.join(BUILD, "harness", pid)
        os.makedirs(self.bindir, exist_ok=True)
        if not self.args.replay:
            shutil.rmtree(os.path.join(EVID, "replay", pid), ignore_errors=True)

    # -- time ---------------------------------------------------------------
    def elapsed(self):
        return time.time() - self.t_start

    def budget(self, quick, thorough):
        if self.args.budget is not None:
            return self.args.budget
        return quick if self.tier == "quick" else thorough

    # -- build --------------------------------------------------------------
    def build(self, variant="asan"):
        try:
            r = build_variant(variant)
            self.t0 = time.time()      # exploration budgets do not include (re)building libocca
            return r
        except SystemExit as e:
            self.harness_error("libocca build failed for variant %s: %s" % (variant, e))

    def compile(self, src, name, variant="asan", **kw):
        try:
            r = compile_harness(src, os.path.join(self.bindir, name), variant, **kw)
            self.t0 = time.time()      # ... nor compiling the harness
            return r
        except HarnessError as e:
            self.harness_error(str(e))

    # -- evidence helpers ---------------------------------------------------
    def set_exploration(self, evaluations, distinct_nontrivial, rule, samples, exhaustive=None, **extra):
        """Keys required for levels exploration / fault_enumeration (counts must be measured)."""
        self.coverage.update({"evaluations": int(evaluations), "distinct_nontrivial": int(distinct_nontrivial),
                              "rule": rule, "samples": list(samples)[:12]})
        if exhaustive is not None:
            self.coverage["exhaustive"] = bool(exhaustive)
        self.coverage.update(extra)

    def set_model_checking(self, states, transitions, traces_validated, samples, exhaustive=None, **extra):
        """Keys required for level model_checking."""
        self.coverage.update({"states": int(states), "transitions": int(transitions),
                              "traces_validated_against_impl": int(traces_validated), "samples": list(samples)[:12]})
        if exhaustive is not None:
            self.coverage["exhaustive"] = bool(exhaustive)
        self.coverage.update(extra)

    def vacuity(self, cond, what):
        """A guard that must hold for the exploration to be meaningful; failing it is a broken check (exit 2)."""
        if not cond:
            self.harness_error("vacuity guard failed: " + what)

    # -- verdicts -----------------------------------------------------------
    def violation(self, sig, detail, replay):
        """Record one violation. sig: stable signature (oracle clause + necessary feature);
        replay: JSON-serialisable object sufficient to reproduce it with --replay."""
        self.violations.append({"sig": sig, "detail": detail, "replay": replay})

    def harness_error(self, msg):
        sys.stdout.flush()
        print("HARNESS-ERROR property=%s %s" % (self.pid, msg), file=sys.stderr)
        self._write_evidence(extra={"harness_error": msg[:2000]}, nviol=0, ok=False)
        sys.exit(2)

    def _write_evidence(self, extra=None, nviol=0, ok=True):
        os.makedirs(EVID, exist_ok=True)
        cov = dict(self.coverage)
        if extra:
            cov.update(extra)
        ev = {
            "property_id": self.pid,
            "tier": self.tier,
            "seed": self.seed,
            "level": self.level,
            "coverage": cov,
            "assumptions": self.assumptions,
            "wall_s": round(self.elapsed(), 2),
            "violations": nviol,
        }
        tmp = os.path.join(EVID, ".%s.json.tmp" % self.pid)
        with open(tmp, "w") as f:
            json.dump(ev, f, indent=1, sort_keys=False, default=str)
            f.write("\n")
        os.replace(tmp, os.path.join(EVID, self.pid + ".json"))

    def finish(self):
        """Classify violations against known findings, write evidence, print verdict lines, exit."""
        by_sig = {}
        for v in self.violations:
            by_sig.setdefault(v["sig"], []).append(v)
        known_hits, new = {}, {}
        for sig, vs in by_sig.items():
            k = self.known.match(sig)
            if k:
                known_hits.setdefault(k, []).extend(vs)
            else:
                new[sig] = vs
        for (s, what), vs in sorted(known_hits.items()):
            print("KNOWN-FINDING: property=%s %s [signature=%s, %d occurrence(s) this run]" % (self.pid, what, s, len(vs)))
        rdir = os.path.join(EVID, "replay", self.pid)
        vlist = []
        if new:
            os.makedirs(rdir, exist_ok=True)
        for sig, vs in sorted(new.items()):
            v = min(vs, key=lambda x: len(json.dumps(x["replay"], default=str)))
            h = hashlib.sha1(sig.encode()).hexdigest()[:12]
            path = os.path.join(rdir, h + ".json")
            with open(path, "w") as f:
                json.dump({"property": self.pid, "signature": sig, "detail": v["detail"], "replay": v["replay"]}, f, indent=1, default=str)
            print("VIOLATION property=%s replay=%s  signature=%s occurrences=%d :: %s" % (
                self.pid, path, sig, len(vs), str(v["detail"])[:300].replace("\n", " | ")))
            vlist.append({"signature": sig, "occurrences": len(vs), "replay": path})
        extra = {
            "known_findings_hit": [{"signature": s, "what": w, "occurrences": len(vs)} for (s, w), vs in sorted(known_hits.items())],
            "violation_signatures": vlist,
        }
        self._write_evidence(extra=extra, nviol=len(new))
        if not self.args.keep:
            shutil.rmtree(self.scratch, ignore_errors=True)
        print("%s tier=%s %s wall=%.1fs %s" % (
            self.pid, self.tier, "VIOLATED" if new else "ok", self.elapsed(),
            json.dumps({k: v for k, v in self.coverage.items() if isinstance(v, (int, float, bool))})))
        sys.exit(1 if new else 0)


def load_replay(path):
    with open(path) as f:
        return json.load(f)


def run_main(fn):
    """Run a check's main(); an unexpected Python exception is a harness error (exit 2), never exit 1."""
    import traceback
    try:
        fn()
    except SystemExit:
        raise
    except BaseException:
        traceback.print_exc()
        sys.stdout.flush()
        print("HARNESS-ERROR unexpected exception in check (see traceback)", file=sys.stderr)
        sys.exit(2)
