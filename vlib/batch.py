"""Crash-attributing batch runner.

A *driver* is an executable that reads items (one per line) from a file given as argv[1] (further
argv allowed) and prints, for every item in order, any number of lines followed by exactly one
line starting with 'END <index>' (index = 0-based line number in the file).  Before touching the
item it may print 'BEGIN <index>'.  If the driver dies (signal, sanitizer abort, timeout) the item
after the last END is the culprit: it is reported as a crash observation, and the driver is
restarted behind it.  Nothing is sampled: every item is run exactly once.
"""
import os, signal, subprocess, time
from concurrent.futures import ThreadPoolExecutor

from .core import NCPU


class ItemResult:
    __slots__ = ("index", "lines", "crash", "stderr")

    def __init__(self, index):
        self.index = index
        self.lines = []
        self.crash = None     # None | "signal:<n>" | "exit:<n>" | "timeout"
        self.stderr = ""


def _run_chunk(cmd_prefix, items, lo, hi, workdir, env, tag, per_item_timeout, extra_args):
    """Run items[lo:hi]; returns list of ItemResult (one per item)."""
    results = []
    start = lo
    attempt = 0
    while start < hi:
        attempt += 1
        path = os.path.join(workdir, "chunk-%s-%d.in" % (tag, attempt))
        errp = os.path.join(workdir, "chunk-%s-%d.err" % (tag, attempt))
        with open(path, "w") as f:
            for it in items[start:hi]:
                f.write(it + "\n")
        n = hi - start
        timeout = max(20.0, per_item_timeout * n)
        with open(errp, "wb") as ef:
            p = subprocess.Popen(cmd_prefix + [path] + list(extra_args), stdout=subprocess.PIPE, stderr=ef,
                                 env=env, cwd=workdir, start_new_session=True)
            timed_out = False
            try:
                out, _ = p.communicate(timeout=timeout)
            except subprocess.TimeoutExpired:
                timed_out = True
                try:
                    os.killpg(p.pid, signal.SIGKILL)
                except ProcessLookupError:
                    pass
                out, _ = p.communicate()
        cur = None
        done = 0
        pending = []
        for ln in out.decode("utf-8", "replace").split("\n"):
            if ln.startswith("END "):
                r = ItemResult(start + done)
                r.lines = pending
                pending = []
                results.append(r)
                done += 1
            elif ln.startswith("BEGIN "):
                pending = []
            elif ln:
                pending.append(ln)
        rc = p.returncode
        if done >= n and not timed_out and rc == 0:
            _cleanup(path, errp)
            break
        if done >= n:
            # all items answered but the process ended abnormally (e.g. crash in teardown):
            # attribute to the last item
            r = results[-1]
            r.crash = "timeout" if timed_out else ("signal:%d" % -rc if rc < 0 else "exit:%d" % rc)
            r.stderr = _tail(errp)
            _cleanup(path, errp)
            break
        # culprit = item start+done
        r = ItemResult(start + done)
        r.lines = pending
        r.crash = "timeout" if timed_out else ("signal:%d" % -rc if rc < 0 else "exit:%d" % rc)
        r.stderr = _tail(errp)
        results.append(r)
        _cleanup(path, errp)
        start = start + done + 1
        if timed_out and per_item_timeout * 1 < 5 and done == 0 and attempt > 50:
            pass
    return results


def _tail(path, n=6000):
    try:
        with open(path, "rb") as f:
            data = f.read()
        return data[:n].decode("utf-8", "replace")
    except OSError:
        return ""


def _cleanup(*paths):
    for p in paths:
        try:
            os.unlink(p)
        except OSError:
            pass


def run_items(cmd_prefix, items, workdir, env, chunk=2000, workers=NCPU, per_item_timeout=0.5,
              extra_args=(), deadline=None):
    """Run every item through the driver. Returns (results_in_order, completed_all)."""
    os.makedirs(workdir, exist_ok=True)
    chunks = [(lo, min(lo + chunk, len(items))) for lo in range(0, len(items), chunk)]
    out = [None] * len(chunks)
    complete = True

    def work(ci):
        if deadline is not None and time.time() > deadline:
            return None
        lo, hi = chunks[ci]
        return _run_chunk(cmd_prefix, items, lo, hi, workdir, env, "c%d" % ci, per_item_timeout, extra_args)

    with ThreadPoolExecutor(max_workers=workers) as ex:
        for ci, res in enumerate(ex.map(work, range(len(chunks)))):
            out[ci] = res
    flat = []
    for res in out:
        if res is None:
            complete = False
            continue
        flat.extend(res)
    return flat, complete
