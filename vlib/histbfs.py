"""Python side of E1 histbfs: frontier, de-duplication on canonical state, crash attribution."""
import subprocess, time

from .batch import run_items
from .core import NCPU


class BfsResult:
    def __init__(self):
        self.states = 0
        self.transitions = 0
        self.depth_completed = -1
        self.per_depth = []          # (depth, new_states, transitions)
        self.violations = []         # (sig, detail, history_string)
        self.exhaustive = False      # frontier became empty (whole reachable space explored)
        self.budget_hit = False
        self.samples = []
        self.crashes = 0
        self.sig_counts = {}


def describe(exe, hist, env):
    try:
        p = subprocess.run([exe, "describe", hist or ";"], stdout=subprocess.PIPE, stderr=subprocess.DEVNULL,
                           env=env, text=True, timeout=20)
        return p.stdout.strip()
    except Exception:
        return hist


def bfs(check, exe, max_depth, deadline, env, workdir, chunk=None, workers=NCPU,
        per_item_timeout=2.0, on_state=None, max_states=None, crash_sig=None):
    """Explore all histories up to max_depth (layer by layer). Violating transitions are recorded
    and not expanded.  A layer that does not finish before `deadline` is discarded as a whole
    (depth_completed stays at the previous layer)."""
    res = BfsResult()
    frontier = [""]
    seen = {}
    root_key = None
    all_hist_sample = []
    depth = 0
    while frontier and depth < max_depth:
        if time.time() > deadline:
            res.budget_hit = True
            break
        csize = chunk or max(1, min(400, len(frontier) // (workers * 2) + 1))
        items = list(frontier)
        pending_resume = []
        layer_new = []
        layer_trans = 0
        layer_viol = []
        complete = True
        rounds = 0
        while items:
            rounds += 1
            results, ok = run_items([exe, "expand"], items, workdir, env, chunk=csize, workers=workers,
                                    per_item_timeout=per_item_timeout, deadline=deadline)
            if not ok:
                complete = False
                break
            retry = []
            for r in results:
                raw = items[r.index]
                hist = raw.split("|")[0]
                lastP = None
                for ln in r.lines:
                    t = ln[0]
                    if t == "S":
                        key = ln[2:]
                        if depth == 0 and root_key is None:
                            root_key = key
                            seen[key] = ""
                        elif hist in check_keys and check_keys[hist] != key:
                            check.harness_error("replay divergence: history %r reached canon %r, now %r" % (hist, check_keys[hist], key))
                    elif t == "P":
                        parts = ln.split(" ")
                        lastP = (int(parts[1]), parts[2])
                    elif t == "T":
                        _, op, key = ln.split(" ", 2)
                        layer_trans += 1
                        if key not in seen:
                            nh = (hist + ";" + op) if hist else op
                            seen[key] = nh
                            layer_new.append((nh, key))
                    elif t == "V":
                        head, detail = (ln.split("\t", 1) + [""])[:2]
                        _, op, sig = head.split(" ", 2)
                        layer_trans += 1
                        nh = (hist + ";" + op) if hist else op
                        layer_viol.append((sig, detail, nh))
                if r.crash:
                    res.crashes += 1
                    if lastP is None:
                        # died while replaying the prefix itself / enumerating ops
                        layer_viol.append(("crash:prefix-replay:" + r.crash, r.stderr[-1500:], hist))
                    else:
                        i, op = lastP
                        nh = (hist + ";" + op) if hist else op
                        kind = op.split(",")[0]
                        sig = (crash_sig(op, r.crash, r.stderr) if crash_sig else "crash:%s:op%s" % (_crash_class(r.crash, r.stderr), kind))
                        layer_viol.append((sig, r.crash + " :: " + _first_report(r.stderr), nh))
                        layer_trans += 1
                        retry.append(hist + "|skip=%d" % (i + 1))
            items = retry
            csize = 1 if retry else csize
        if not complete:
            res.budget_hit = True
            break
        # layer finished
        check_keys.clear()
        for nh, key in layer_new:
            check_keys[nh] = key
        res.transitions += layer_trans
        for v in layer_viol:
            res.violations.append(v)
            res.sig_counts[v[0]] = res.sig_counts.get(v[0], 0) + 1
        res.per_depth.append({"depth": depth + 1, "new_states": len(layer_new), "transitions": layer_trans,
                              "violating_transitions": len(layer_viol)})
        res.depth_completed = depth + 1
        frontier = [nh for nh, _ in layer_new]
        if frontier:
            all_hist_sample = [frontier[0], frontier[len(frontier) // 2], frontier[-1]]
        depth += 1
        if max_states and len(seen) > max_states:
            res.budget_hit = True
            break
    res.states = len(seen)
    if not frontier and not res.budget_hit:
        res.exhaustive = True
    res.samples = [describe(exe, h, env) for h in all_hist_sample]
    return res


check_keys = {}


def _crash_class(crash, stderr):
    if "AddressSanitizer" in stderr:
        for kw in ("heap-use-after-free", "heap-buffer-overflow", "attempting double-free", "stack-buffer-overflow",
                   "SEGV", "stack-overflow", "global-buffer-overflow", "alloc-dealloc-mismatch", "negative-size-param",
                   "stack-use-after-scope", "bad-free", "memcpy-param-overlap", "allocation-size-too-big", "FPE"):
            if kw in stderr:
                return "asan-" + kw.replace(" ", "-")
        return "asan"
    return crash.replace(":", "")


def _first_report(stderr):
    for ln in stderr.split("\n"):
        if "ERROR: AddressSanitizer" in ln or "runtime error" in ln or "terminate called" in ln or "what():" in ln:
            return ln.strip()[:300]
    return stderr.strip().split("\n")[-1][:300] if stderr.strip() else ""
