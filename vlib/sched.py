"""Process-level serialising scheduler + preemption-bounded explorer (E3 'sched' mode, C09).

Each OS process runs under `pfs --sched-fds`: it stops before every *operation* (system call on a path
under the shared cache root, spawn, wait) and proceeds only when granted.  Exactly one process runs
at any time, so an execution is fully determined by its sequence of choices.

Canonical order of the enabled list at a point: the process that ran last (if still alive) first,
then ascending ids.  Choice 0 is therefore "no preemption".
"""
import os, re, select, shutil, signal, subprocess, time


class SchedProc:
    def __init__(self, pfs, root, cmd, env, cwd):
        self.r_out, w_out = os.pipe()
        r_in, self.w_in = os.pipe()
        self.p = subprocess.Popen([pfs, "--root", root, "--sched-fds", "%d,%d" % (w_out, r_in), "--"] + cmd,
                                  env=env, cwd=cwd, stdout=subprocess.PIPE, stderr=subprocess.PIPE,
                                  pass_fds=(w_out, r_in), start_new_session=True)
        os.close(w_out)
        os.close(r_in)
        self.buf = b""
        self.pending = None      # dict(idx,name,flags,path,path2) of the op the process is stopped at
        self.exited = False
        self.exit_code = None
        self.hung = False

    def _readline(self, timeout):
        end = time.time() + timeout
        while b"\n" not in self.buf:
            left = end - time.time()
            if left <= 0:
                return None
            r, _, _ = select.select([self.r_out], [], [], left)
            if not r:
                return None
            chunk = os.read(self.r_out, 65536)
            if not chunk:
                return ""
            self.buf += chunk
        line, self.buf = self.buf.split(b"\n", 1)
        return line.decode("utf-8", "replace")

    def advance(self, timeout):
        """read until the next OP (stopped before an operation) or EXIT."""
        while True:
            ln = self._readline(timeout)
            if ln is None:
                self.hung = True
                return
            if ln == "":
                self.exited = True
                if self.exit_code is None:
                    self.exit_code = -1
                return
            p = ln.split(" ")
            if p[0] == "OP":
                self.pending = {"idx": int(p[1]), "name": p[2], "flags": int(p[3]), "path": p[4], "path2": p[5] if len(p) > 5 else "-"}
                return
            if p[0] == "EXIT":
                self.exited = True
                self.exit_code = int(p[1])
                self.pending = None
                return
            # DONE lines are consumed here as well

    def go(self):
        os.write(self.w_in, b"GO\n")

    def finish(self):
        try:
            out, err = self.p.communicate(timeout=30)
        except subprocess.TimeoutExpired:
            self.kill()
            out, err = self.p.communicate()
        for fd in (self.r_out, self.w_in):
            try:
                os.close(fd)
            except OSError:
                pass
        return out.decode("utf-8", "replace"), err.decode("utf-8", "replace")

    def kill(self):
        try:
            os.killpg(self.p.pid, signal.SIGKILL)
        except (ProcessLookupError, PermissionError):
            pass
        try:
            self.p.kill()
        except Exception:
            pass


def canon(path, root):
    if path.startswith(root):
        path = path[len(root):]
    return re.sub(r"(^|/)[0-9a-f]{16}\.", r"\1TMP.", path)


def is_private(name, cpaths):
    """operation that commutes with every operation of other processes: only touches
    process-private temp names, or is spawn/wait of the compiler child (which reads published,
    immutable sources and writes a private temp file).  cpaths: canonical paths."""
    if name in ("spawn", "wait"):
        return True
    return bool(cpaths) and all("TMP." in p for p in cpaths)


class Execution:
    def __init__(self):
        self.choices = []        # choice index taken at every point
        self.points = []         # per point: dict(enabled=[pids], running_enabled=bool, cand=bool)
        self.trace = []          # (pid, op name, canonical path)
        self.exit_codes = []
        self.outputs = []
        self.errs = []
        self.hung = False
        self.diverged = False


def run_execution(pfs, root, cmds, env, cwd, prefix, op_timeout=90, candidate=None):
    """Run all processes under the scheduler following `prefix` (list of choice indices), then
    choice 0 at every later point."""
    procs = [SchedProc(pfs, root, cmd, env, cwd) for cmd in cmds]
    x = Execution()
    try:
        for pr in procs:
            pr.advance(op_timeout)
        last = None
        step = 0
        while True:
            if any(pr.hung for pr in procs):
                x.hung = True
                break
            alive = [i for i, pr in enumerate(procs) if not pr.exited]
            if not alive:
                break
            running_enabled = last is not None and last in alive
            enabled = ([last] if running_enabled else []) + [i for i in alive if i != last]
            cur_op = procs[enabled[0]].pending
            cand = True
            if candidate is not None and running_enabled:
                cand = candidate(cur_op["name"], [canon(p, root) for p in (cur_op["path"], cur_op["path2"]) if p != "-"])
            choice = prefix[step] if step < len(prefix) else 0
            if choice >= len(enabled):
                x.diverged = True
                break
            x.points.append({"enabled": list(enabled), "running_enabled": running_enabled, "cand": cand})
            x.choices.append(choice)
            pid = enabled[choice]
            op = procs[pid].pending
            x.trace.append((pid, op["name"], canon(op["path"], root) + ("->" + canon(op["path2"], root) if op["path2"] != "-" else ""), op["flags"], tuple(q[len(root):] if q.startswith(root) else q for q in (op["path"], op["path2"]) if q != "-")))
            procs[pid].go()
            procs[pid].advance(op_timeout)
            last = pid
            step += 1
    finally:
        for pr in procs:
            if x.hung or x.diverged:
                pr.kill()
            out, err = pr.finish()
            x.outputs.append(out)
            x.errs.append(err)
            x.exit_codes.append(pr.exit_code if pr.exit_code is not None else pr.p.returncode)
    return x


def shared_temp_paths(x):
    """canonical forms of temp-named raw paths that more than one process touched in this execution
    (the reduction treats temp names as process-private; this is how that assumption is checked)."""
    owners = {}
    for t in x.trace:
        for raw in t[4]:
            if re.search(r"(^|/)[0-9a-f]{16}\.", raw):
                owners.setdefault(raw, set()).add(t[0])
    return set(re.sub(r"(^|/)[0-9a-f]{16}\.", r"\1TMP.", raw) for raw, o in owners.items() if len(o) > 1)


def preemptions_before(x, i):
    n = 0
    for j in range(i):
        if x.points[j]["running_enabled"] and x.choices[j] != 0:
            n += 1
    return n


def successors(x, prefix_len, bound, symmetric=True):
    """Alternative prefixes branching off execution x at points >= prefix_len (iterative context bounding)."""
    out = []
    for i in range(prefix_len, len(x.points)):
        p = x.points[i]
        cost = preemptions_before(x, i)
        if i == 0 and symmetric:
            continue      # identical processes: who starts is immaterial
        if p["running_enabled"]:
            if not p["cand"]:
                continue
            cost += 1
        if cost > bound:
            continue
        for alt in range(1, len(p["enabled"])):
            out.append(x.choices[:i] + [alt])
    return out
