"""E3 fsx helpers: kprobe (build+run kernels as one OS process) and pfs (ptrace op tracer / killer / scheduler)."""
import json, os, re, shutil, subprocess, sys

from .core import ROOT, BUILD, REPO, sh, HarnessError

FSX_SRC = os.path.join(ROOT, "engines", "fsx")


def build_tools(check, variant="rel"):
    """Compile pfs and kprobe (against the given libocca variant). Returns (pfs, kprobe)."""
    bdir = check.build(variant)
    out = os.path.join(BUILD, "fsx")
    os.makedirs(out, exist_ok=True)
    pfs = os.path.join(out, "pfs")
    p = sh(["gcc", "-O2", "-o", pfs, os.path.join(FSX_SRC, "pfs.c")])
    if p.returncode:
        check.harness_error("pfs compile failed: " + p.stdout[-2000:])
    kprobe = os.path.join(out, "kprobe-" + variant)
    flags = {"rel": [], "asan": ["-fsanitize=address,undefined", "-fno-omit-frame-pointer"]}[variant]
    p = sh(["g++", "-std=c++17", "-O1", "-g1", "-w", "-DLIBOCCA_OCCA_VERIF"] + flags +
           ["-I" + os.path.join(REPO, "include"), "-I" + os.path.join(bdir, "include"), "-I" + os.path.join(REPO, "src"),
            os.path.join(FSX_SRC, "kprobe.cpp"), "-L" + os.path.join(bdir, "lib"), "-locca",
            "-Wl,-rpath," + os.path.join(bdir, "lib"), "-o", kprobe])
    if p.returncode:
        check.harness_error("kprobe compile failed: " + p.stdout[-3000:])
    import time
    check.t0 = time.time()
    return pfs, kprobe


def base_env(cache_dir, extra=None):
    env = {k: v for k, v in os.environ.items() if not k.startswith("OCCA_") and k not in
           ("CXX", "CC", "CXXFLAGS", "CFLAGS", "LDFLAGS", "FC", "FCFLAGS")}
    env.update({"OCCA_CACHE_DIR": cache_dir, "OCCA_VERBOSE": "0", "OCCA_COLOR_ENABLED": "0", "LC_ALL": "C",
                "ASAN_OPTIONS": "detect_leaks=0:exitcode=77", "UBSAN_OPTIONS": "print_stacktrace=0",
                "OMP_NUM_THREADS": "2"})
    if extra:
        env.update(extra)
    return env


class ProbeResult:
    def __init__(self, rc, out, err, timed_out=False):
        self.rc, self.out, self.err, self.timed_out = rc, out, err, timed_out
        self.results = {}   # build index -> list of ints
        self.hashes = {}    # build index -> hash string
        self.excs = {}      # build index -> message
        self.argcheck = {}  # build index -> 1 if a call without arguments was rejected
        for ln in out.split("\n"):
            p = ln.split(" ")
            if p[0] == "RESULT":
                vals, h = [], None
                for t in p[2:]:
                    if t.startswith("H="):
                        h = t[2:]
                    elif t:
                        vals.append(int(t))
                self.results[int(p[1])] = vals
                self.hashes[int(p[1])] = h
            elif p[0] == "ARGCHECK":
                self.argcheck[int(p[1])] = int(p[2])
            elif p[0] == "HASH":
                self.hashes[int(p[1])] = p[2]
            elif p[0] == "EXC":
                self.excs[int(p[1])] = " ".join(p[2:])

    def summary(self):
        if self.timed_out:
            return "timeout"
        if self.rc < 0:
            return "signal:%d" % -self.rc
        s = "exit:%d" % self.rc
        for i in sorted(self.excs):
            s += " exc[%d]=%s" % (i, canon_msg(self.excs[i]))
        return s


def canon_msg(m):
    m = re.sub(r"[0-9a-f]{16}\.", "TMP.", m)
    m = re.sub(r"/[^ |\]]*?/cache/", "<cache>/", m)
    m = re.sub(r"[0-9a-f]{16}", "<h>", m)
    return m[:200]


def run_probe(kprobe, spec_path, env, timeout=60, prefix=None, cwd=None):
    cmd = (prefix or []) + [kprobe, spec_path]
    try:
        p = subprocess.run(cmd, stdout=subprocess.PIPE, stderr=subprocess.PIPE, env=env, timeout=timeout, text=True, cwd=cwd)
        return ProbeResult(p.returncode, p.stdout, p.stderr)
    except subprocess.TimeoutExpired as e:
        return ProbeResult(-9, (e.stdout or b"").decode() if isinstance(e.stdout, bytes) else (e.stdout or ""), "", timed_out=True)


def write_spec(path, mode, builds, device_props=None, settings=None):
    spec = {"mode": mode, "builds": builds}
    if device_props:
        spec["device_props"] = device_props
    if settings:
        spec["settings"] = settings
    with open(path, "w") as f:
        json.dump(spec, f)
    return path


def read_trace(path):
    ops = []
    for ln in open(path):
        if ln.startswith("#"):
            continue
        p = ln.rstrip("\n").split(" ")
        if len(p) < 6 or not p[0].isdigit():
            continue
        ops.append({"idx": int(p[0]), "name": p[1], "ret": p[2], "flags": p[3], "path": p[4], "path2": p[5]})
    return ops


def canon_path(p, cache_root):
    """cache-relative path with temp-name prefixes canonicalised."""
    if p.startswith(cache_root):
        p = p[len(cache_root):]
    return re.sub(r"(^|/)[0-9a-f]{16}\.", r"\1TMP.", p)


def list_cache(cache_root):
    """sorted list of (relative path, size) of all files below cache_root (temp names canonicalised)."""
    out = []
    for d, _, fs in os.walk(cache_root):
        for f in fs:
            full = os.path.join(d, f)
            try:
                out.append((canon_path(full, cache_root), os.path.getsize(full)))
            except OSError:
                pass
    return sorted(out)
