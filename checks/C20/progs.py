"""C20/C21 program generator: base OKL kernel + all subsets of size <= 2 of 16 features.

Every program is written from one template per feature; iterations are independent by construction:
every (outer, inner) iteration writes only its own cell of `out`, reads only the inputs `a`, `b`, values
another iteration of the same outer iteration published in @shared memory *before a @barrier*, and its own
@exclusive value; the only cross-iteration updates are commutative integer @atomic updates of `cnt`.

For each program the generator emits
  okl   the OKL source (what the translators see)
  ref   the sequential reading as plain C++: OKL attributes erased, loops run in source order,
        @exclusive = one value per inner iteration, @dim subscripts expanded by the documented formula,
        @atomic = plain update, @tile = the untiled loop
  args  the argument list with exact array sizes as functions of N.
Deterministic, seedless, simplest first.
"""
import itertools

FEATURES = ["nouter", "ninner", "sinner", "souter", "scalar", "restrict", "helper", "locals",
            "exclusive", "shared", "atomic", "maxinner", "nobarrier", "simd", "tile", "dim"]
FEATURE_TEXT = {
    "nouter": "nested @outer", "ninner": "nested @inner", "sinner": "sibling @inner", "souter": "sibling @outer",
    "scalar": "scalar arguments", "restrict": "pointer + @restrict", "helper": "helper function",
    "locals": "local declarations + if/else/while", "exclusive": "@exclusive", "shared": "@shared + @barrier",
    "atomic": "@atomic", "maxinner": "@max_inner_dims", "nobarrier": "@nobarrier", "simd": "@simd_length",
    "tile": "@tile", "dim": "@dim",
}
NVALUES = (0, 1, 3, 4)
M_VALUE = 5
W_VALUE = 2.5
HELPER = "helperfn"


class Arg:
    def __init__(self, ctype, name, kind, coef=0, fixed=0):
        # kind: 'int' | 'float' | 'in' (const int array) | 'out' (int array);  array length = coef * N + fixed
        self.ctype, self.name, self.kind, self.coef, self.fixed = ctype, name, kind, coef, fixed

    def length(self, n):
        return self.coef * n + self.fixed

    def is_array(self):
        return self.kind in ("in", "out")


class Program:
    def __init__(self, name, feats, okl, ref, args, nkernels, info):
        self.name, self.feats, self.okl, self.ref, self.args, self.nkernels, self.info = name, feats, okl, ref, args, nkernels, info

    def tag(self):
        return "+".join(self.feats) if self.feats else "base"

    def desc(self):
        return "base kernel" + ("".join(" + " + FEATURE_TEXT[f] for f in self.feats) if self.feats else "")

    def replay_obj(self):
        return {"name": self.name, "feats": list(self.feats), "variant": self.info.get("variant", "")}


def _lines(indent, items):
    return "".join("  " * indent + ln + "\n" for ln in items)


def build(name, feats, variant=""):
    """variant 'critical': the @atomic template additionally contains a general @atomic block (two statements),
    which OpenMP lowers to `omp critical` (CUDA/HIP reject it) - used by C21 only."""
    F = set(feats)
    IW = 12 if "ninner" in F else 4
    OWc = 2 if "nouter" in F else 1            # outer iterations of the main block = OWc * N
    cells = OWc * IW                            # per N
    two_phase = bool(F & {"exclusive", "shared", "sinner", "nobarrier"})
    phase0_store = bool(F & {"sinner", "nobarrier"})
    # sections of `out` (coefficients of N)
    sec, off = {}, 0
    sec["main"] = off; off += cells
    if phase0_store:
        sec["p0"] = off; off += cells
    if "souter" in F:
        sec["b1"] = off; off += 4
    if "tile" in F:
        sec["tile"] = off; off += 3
    out_coef = off

    args = [Arg("const int", "N", "int")]
    if "scalar" in F:
        args += [Arg("const int", "M", "int"), Arg("const float", "w", "float")]
    args.append(Arg("const int *", "a", "in", coef=cells))
    if "restrict" in F:
        args.append(Arg("const int *", "b", "in", coef=cells))
    args.append(Arg("int *", "out", "out", coef=out_coef))
    if "atomic" in F:
        args.append(Arg("int *", "cnt", "out", coef=0, fixed=6))

    def off_expr(key, idx):
        return idx if sec[key] == 0 else "N * %d + %s" % (sec[key], idx)

    def terms(il, ob, c, okl):
        """statements adding the body-level features to `v`"""
        s = []
        if "scalar" in F:
            s.append("v += M * 7 + (int) w;")
        if "restrict" in F:
            s.append("v += b[%s];" % c)
        if "helper" in F:
            s.append("v += %s(%s);" % (HELPER if okl else "ref_" + HELPER, il))
        if "locals" in F:
            s += ["int t = %s;" % il, "int acc = 0;", "while (t > 0) {", "  acc += t;", "  --t;", "}",
                  "if (acc & 1) {", "  acc += 7;", "} else {", "  acc -= 2;", "}", "v += acc;"]
        return s

    def atomics(il, ob, okl):
        if "atomic" not in F:
            return []
        at = "@atomic " if okl else ""
        s = ["%scnt[0] += %s + 1;" % (at, il),
             "%s{ cnt[1] += %s + 1; }" % (at, ob),
             "%scnt[2] -= 1;" % at,
             "%s++cnt[3];" % at]
        if variant == "critical":
            s.append("%s{ cnt[4] += %s; cnt[5] -= %s + 1; }" % (at, il, il))
        return s

    # ---- loop headers
    def outer_attrs(first):
        a = "@outer"
        if first and "maxinner" in F:
            a += " @max_inner_dims(%s)" % ("4, 3" if "ninner" in F else "4")
        if first and "simd" in F:
            a += " @simd_length(16)"
        return a

    def inner_i_header(okl, extra=""):
        if not okl:
            return "for (int i = 0; i < 4; ++i)"
        if "tile" in F:
            return "for (int i = 0; i < 4; ++i; @tile(2, @inner, @inner)%s)" % extra
        return "for (int i = 0; i < 4; ++i; @inner%s)" % extra

    def gen(okl):
        L = []     # (indent, text)

        def emit(ind, text):
            L.append("  " * ind + text)

        ind = 1
        # main block
        if okl:
            emit(ind, "for (int o = 0; o < N; ++o; %s) {" % outer_attrs(True))
        else:
            emit(ind, "for (int o = 0; o < N; ++o) {")
        ind += 1
        if "nouter" in F:
            emit(ind, "for (int o1 = 0; o1 < 2; ++o1%s) {" % ("; @outer" if okl else ""))
            ind += 1
        if "shared" in F:
            emit(ind, "%sint s[%d];" % ("@shared " if okl else "", IW))
        if "exclusive" in F:
            emit(ind, "@exclusive int e;" if okl else "int e[%d];" % IW)
        e_use = "e" if okl else "e[il]"

        def index_decls(ind):
            emit(ind, "const int ob = %s;" % ("o * 2 + o1" if "nouter" in F else "o"))
            emit(ind, "const int il = %s;" % ("i1 * 4 + i" if "ninner" in F else "i"))
            emit(ind, "const int c = ob * %d + il;" % IW)

        def open_inner(ind, first_phase):
            nb = " @nobarrier" if (okl and first_phase and "nobarrier" in F) else ""
            if "ninner" in F:
                emit(ind, "for (int i1 = 0; i1 < 3; ++i1%s) {" % (("; @inner" + nb) if okl else ""))
                emit(ind + 1, inner_i_header(okl) + " {")
                return ind + 2
            emit(ind, inner_i_header(okl, nb) + " {")
            return ind + 1

        def close_inner(ind):
            n = 2 if "ninner" in F else 1
            for _ in range(n):
                ind -= 1
                emit(ind, "}")
            return ind

        if two_phase:
            ind = open_inner(ind, True)
            index_decls(ind)
            if "shared" in F:
                emit(ind, "s[il] = a[c] * 2;")
            if "exclusive" in F:
                emit(ind, "%s = il * il + ob;" % e_use)
            if phase0_store:
                emit(ind, "out[%s] = a[c] - il;" % off_expr("p0", "c"))
            ind = close_inner(ind)
            if "shared" in F:
                emit(ind, "@barrier;" if okl else ";")
        ind = open_inner(ind, False)
        index_decls(ind)
        emit(ind, "int v = a[c] + 100 * ob + il;")
        for t in terms("il", "ob", "c", okl):
            emit(ind, t)
        if "exclusive" in F:
            emit(ind, "v += %s;" % e_use)
        if "shared" in F:
            emit(ind, "v += s[%d - il];" % (IW - 1))
        if "dim" in F:
            emit(ind, "out(il, ob) = v;" if okl else "out[(il) + %d * (ob)] = v;" % IW)
        else:
            emit(ind, "out[c] = v;")
        for t in atomics("il", "ob", okl):
            emit(ind, t)
        ind = close_inner(ind)
        if "nouter" in F:
            ind -= 1
            emit(ind, "}")
        ind -= 1
        emit(ind, "}")
        # sibling @outer block
        if "souter" in F:
            emit(ind, "for (int p = 0; p < N; ++p%s) {" % ("; @outer" if okl else ""))
            emit(ind + 1, "for (int q = 0; q < 4; ++q%s) {" % ("; @inner" if okl else ""))
            emit(ind + 2, "const int c1 = p * 4 + q;")
            emit(ind + 2, "int v = a[c1] * 3 + q;")
            for t in terms("q", "p", "c1", okl):
                emit(ind + 2, t)
            emit(ind + 2, "out[%s] = v;" % off_expr("b1", "c1"))
            for t in atomics("q", "p", okl):
                emit(ind + 2, t)
            emit(ind + 1, "}")
            emit(ind, "}")
        # @tile(4, @outer, @inner) block; 3N iterations, so the last tile is partial for N = 1 and 3
        if "tile" in F:
            emit(ind, "for (int g = 0; g < N * 3; ++g%s) {" % ("; @tile(4, @outer, @inner)" if okl else ""))
            emit(ind + 1, "const int gl = g & 3;")
            emit(ind + 1, "const int gb = g >> 2;")
            emit(ind + 1, "int v = a[g] * 5 + g;")
            for t in terms("gl", "gb", "g", okl):
                emit(ind + 1, t)
            emit(ind + 1, "out[%s] = v;" % off_expr("tile", "g"))
            for t in atomics("gl", "gb", okl):
                emit(ind + 1, t)
            emit(ind, "}")
        return "\n".join(L) + "\n"

    def params(okl):
        ps = []
        for a in args:
            if okl:
                t = a.ctype
                if a.name == "b":
                    t = "@restrict " + t
                decl = "%s%s%s" % (t, "" if t.endswith("*") else " ", a.name)
                if a.name == "out" and "dim" in F:
                    decl += " @dim(%d, N * %d)" % (IW, OWc)
                ps.append(decl)
            else:
                ps.append("%s%s%s" % (a.ctype, "" if a.ctype.endswith("*") else " ", a.name))
        return ", ".join(ps)

    helper_okl = "int %s(const int x) {\n  return 3 * x + 1;\n}\n" % HELPER if "helper" in F else ""
    helper_ref = "static int ref_%s(const int x) {\n  return 3 * x + 1;\n}\n" % HELPER if "helper" in F else ""
    okl = "%s@kernel void %s(%s) {\n%s}\n" % (helper_okl, name, params(True), gen(True))
    ref = "%sstatic void ref_%s(%s) {\n%s}\n" % (helper_ref, name, params(False), gen(False))
    nkernels = 1 + ("souter" in F) + ("tile" in F)
    return Program(name, tuple(feats), okl, ref, args, nkernels,
                   {"variant": variant, "IW": IW, "outer_per_N": OWc, "two_phase": two_phase,
                    "has_helper": "helper" in F})


def subsets(max_size):
    out = [()]
    for k in range(1, max_size + 1):
        out += list(itertools.combinations(FEATURES, k))
    return out


def programs(tier):
    """quick: base + 16 singletons; thorough: + all 120 pairs"""
    sets = subsets(1 if tier == "quick" else 2)
    return [build("p%d" % i, fs) for i, fs in enumerate(sets)]


def program_for(feats, name="r0", variant=""):
    return build(name, tuple(f for f in FEATURES if f in set(feats)), variant)


if __name__ == "__main__":
    import sys
    fs = [f for f in sys.argv[1:] if f in FEATURES]
    p = program_for(fs, variant=("critical" if "critical" in sys.argv else ""))
    print(p.okl)
    print(p.ref)
