"""C20 harness generation and execution: one executable per chunk of programs, all backends inside.

For a chunk of programs the executable contains
  main TU     driver.hpp and, per program in its own namespace: the reference (sequential reading), the translated
              *launcher* source(s), the Serial and the OpenMP translation - all included unchanged apart from
              preprocessor renames of the kernel/helper names (every backend's translation defines the same extern "C"
              names) - plus glue; compiled with ASan+UBSan and -fopenmp (OpenMP runtime = miniomp.cpp, deterministic
              virtual threads) against the ASan libocca
  5 device TUs  the CUDA/HIP/OpenCL/Metal/DPC++ translations of the chunk + the gpuemu stub of that language with
              work-group semantics (-DGPUEMU_WORKGROUP) + one Entry trampoline per device kernel   (ASan+UBSan)
and, for the race pass, a second executable with the same main object and the device TUs recompiled with
-fsanitize=thread (engines/gpuemu/race_runtime.cpp).
If a TU of a chunk does not compile, every program of the chunk is built on its own; a backend whose translation
does not compile then is left out of that executable and reported (an observation about the translation: the
stubs declare only documented API).
"""
import hashlib, os, re, subprocess, sys
from concurrent.futures import ThreadPoolExecutor

HERE = os.path.dirname(os.path.abspath(__file__))
ROOT = os.path.dirname(os.path.dirname(HERE))
sys.path.insert(0, ROOT)
sys.path.insert(0, os.path.join(ROOT, "engines", "gpuemu"))
import gpuemu                                   # noqa: E402
from vlib import batch                          # noqa: E402
from vlib.core import NCPU, sh                  # noqa: E402
import progs as pg                              # noqa: E402

KEPT = ("serial", "openmp")
LAUNCHED = ("cuda", "hip", "opencl", "metal", "dpcpp")
ALL_MODES = KEPT + LAUNCHED
VARIANT = "asan"          # harness executables: ASan+UBSan harness against the ASan libocca
XLATE_VARIANT = "rel"     # translation runs in its own process on the uninstrumented libocca (parser ~50x faster)


def family(mode):
    return "kept" if mode in KEPT else "launched"


def write(path, text):
    with open(path, "w") as f:
        f.write(text)
    return path


# ---------------------------------------------------------------------------------------------
# translation (the real translators, in-process in checks/C17/xlate.cpp, reused unchanged)

def compile_xlate(c):
    return c.compile(os.path.join(ROOT, "checks", "C17", "xlate.cpp"), "xlate", variant=XLATE_VARIANT, opt="-O0")


def translate_all(xlate, programs, modes, workdir, env):
    """-> dict (prog.name, mode) -> ('OK', dev_path, launcher_path|None) | (verdict, None, None)"""
    os.makedirs(workdir, exist_ok=True)
    jobs, keys = [], []
    for p in programs:
        okl = write(os.path.join(workdir, p.name + ".okl"), p.okl)
        for m in modes:
            dev = os.path.join(workdir, "%s_%s.xl" % (p.name, m))
            lau = os.path.join(workdir, "%s_%s.launcher" % (p.name, m)) if m in LAUNCHED else "-"
            jobs.append("T\t%s\t%s\t%s\t%s" % (m, okl, dev, lau))
            keys.append((p.name, m, dev, lau))
    res, complete = batch.run_items([xlate], jobs, os.path.join(workdir, "xl"), env,
                                    chunk=max(1, -(-len(jobs) // NCPU)), per_item_timeout=20.0)
    out = {}
    for (name, m, dev, lau), r in zip(keys, res):
        v = ("CRASH " + r.crash) if r.crash else (r.lines[0] if r.lines else "REJECT")
        out[(name, m)] = (v, dev, (lau if lau != "-" else None)) if v == "OK" else (v, None, None)
    return out


# ---------------------------------------------------------------------------------------------
# generated sources

def c_params(p, launched=False):
    ps = []
    for a in p.args:
        if a.is_array():
            ps.append("occa::modeMemory_t * %s" % a.name if launched else "%s%s" % (a.ctype, a.name))
        else:
            ps.append("%s & %s" % (a.ctype, a.name))
    return ", ".join(ps)


def data_expr(p, a):
    if a.kind == "int":
        return "d.%s" % a.name
    if a.kind == "float":
        return "d.w"
    idx = [x.name for x in p.args if x.is_array()].index(a.name)
    return "d.arr[%d]" % idx


def renames(p, suffix):
    names = [p.name] + ["_occa_%s_%d" % (p.name, k) for k in range(p.nkernels)]
    if p.info["has_helper"]:
        names.append(pg.HELPER)
    return names, "".join("#define %s %s_%s\n" % (n, n, suffix) for n in names)


def unrenames(names):
    return "".join("#undef %s\n" % n for n in names)


def kept_tu(progs, mode, xl):
    """separate TU for the Serial / OpenMP translations of a chunk (only used when the merged main TU fails)"""
    s = []
    for p in progs:
        names, defs = renames(p, mode)
        s.append("namespace P_%s {\n%s#include \"%s\"\n%s}\n" % (p.name, defs, xl[(p.name, mode)][1], unrenames(names)))
    return "".join(s)


def device_section(p, mode, xl_path):
    names, defs = renames(p, mode)
    s = ["namespace P_%s {" % p.name, defs, '#include "%s"' % xl_path]
    deref = []
    for i, a in enumerate(p.args):
        if a.kind == "int":
            deref.append("*(int*) args[%d]" % i)
        elif a.kind == "float":
            deref.append("*(float*) args[%d]" % i)
        elif a.kind == "in":
            deref.append("*(const int**) args[%d]" % i)
        else:
            deref.append("*(int**) args[%d]" % i)
    deref = ", ".join(deref)
    for k in range(p.nkernels):
        fn = "_occa_%s_%d_%s" % (p.name, k, mode)
        entry = "entry_%s_%s_%d" % (p.name, mode, k)
        if mode == "dpcpp":
            s.append("GPUEMU_SYCL_ENTRY(%s, %s(queue_, range_, %s))" % (entry, fn, deref))
        elif mode == "metal":
            s.append("GPUEMU_GRID_ENTRY(%s, %s(%s, gpuemu::metalGroupPosition(), gpuemu::metalThreadPosition()))" % (entry, fn, deref))
        else:
            s.append("GPUEMU_GRID_ENTRY(%s, %s(%s))" % (entry, fn, deref))
    s.append(unrenames(names) + "}")
    return "\n".join(s) + "\n"


def device_tu(progs, mode, xl):
    """device translations of all programs of the chunk that the translator of `mode` accepted, each in its own
    namespace (the kernels are extern "C" with distinct names; helper functions would collide otherwise)"""
    return "".join(device_section(p, mode, xl[(p.name, mode)][1]) for p in progs if xl[(p.name, mode)][0] == "OK")


def program_section(p, kept_modes, launched_modes, launcher_of, inline_kept):
    """everything of one program inside the main TU, in namespace P_<name>.
    launcher_of: mode -> (index, path) of the distinct launcher text used by that mode.
    inline_kept: mode -> path of a Serial/OpenMP translation to include here; kept modes not listed are expected as
    separate objects."""
    arrays = [a for a in p.args if a.is_array()]
    s = ["namespace P_%s {" % p.name, p.ref]
    specs = []
    for a in arrays:
        kind = 0 if a.kind == "in" else (2 if a.name == "cnt" else 1)
        specs.append('  {"%s", %d, %d, %d},' % (a.name, kind, a.coef, a.fixed))
    s.append("static const c20::ArraySpec specs[] = {\n%s\n};" % "\n".join(specs))
    call = ", ".join(data_expr(p, a) for a in p.args)
    s.append("static void run_reference(c20::Data &d) { ref_%s(%s); }" % (p.name, call))
    for m in kept_modes:
        if m in inline_kept:
            names, defs = renames(p, m)
            s.append(defs + '#include "%s"\n' % inline_kept[m] + unrenames(names))
        else:
            s.append('extern "C" void %s_%s(%s);' % (p.name, m, c_params(p)))
        s.append("static void run_%s(c20::Data &d) { %s_%s(%s); }" % (m, p.name, m, call))
    files = sorted(set(launcher_of[m] for m in launched_modes))
    for lf in files:
        tag = "launcher%d" % lf[0]
        names, defs = renames(p, tag)
        s.append(defs + '#include "%s"\n' % lf[1] + unrenames(names))
    for m in launched_modes:
        for k in range(p.nkernels):
            s.append('extern "C" void entry_%s_%s_%d(void **args, const size_t outer[3], const size_t inner[3]);' % (p.name, m, k))
        s.append("static void run_%s(c20::Data &d) {" % m)
        s.append("  static occa::modeKernel_t *dk[%d] = {%s};" % (
            p.nkernels, ", ".join('c20host().kernel("%s_%d", entry_%s_%s_%d)' % (p.name, k, p.name, m, k) for k in range(p.nkernels))))
        largs = []
        for i, a in enumerate(arrays):
            s.append("  occa::memory m%d = c20wrap(d.arr[%d], d.len[%d]);" % (i, i, i))
        for a in p.args:
            largs.append("m%d.getModeMemory()" % arrays.index(a) if a.is_array() else data_expr(p, a))
        s.append("  %s_launcher%d(dk, %s);" % (p.name, launcher_of[m][0], ", ".join(largs)))
        s.append("}")
    s.append("static const c20::Backend backends[] = {")
    for m in list(kept_modes) + list(launched_modes):
        s.append('  {"%s", run_%s, %s},' % (m, m, "true" if m in LAUNCHED else "false"))
    s.append("};")
    s.append("}")
    entry = '  {"%s", P_%s::backends, %d, P_%s::run_reference, P_%s::specs, %d},' % (
        p.name, p.name, len(kept_modes) + len(launched_modes), p.name, p.name, len(arrays))
    return "\n".join(s) + "\n", entry


def main_tu(sections):
    """sections: list of (text, table entry) from program_section"""
    s = ['#include "occa_launch.hpp"', '#include <occa/utils/exception.hpp>', '#include "gpuemu/workgroup.hpp"', '#include "driver.hpp"',
         "static gpuemu::Host& c20host() { static gpuemu::Host *h = new gpuemu::Host(); return *h; }",
         "static occa::memory c20wrap(int *p, size_t n) { return c20host().device.wrapMemory<int>(p, (occa::dim_t) n); }"]
    s += [text for text, _ in sections]
    s.append("static const c20::ProgramEntry programs[] = {\n%s\n};" % "\n".join(e for _, e in sections))
    s.append("""void c20::setItemOrder(bool descending) { gpuemu::wg::setDescendingOrder(descending); }
std::string c20::describeException() {
  try { throw; }
  catch (gpuemu::launch_error &e) { return e.what(); }
  catch (occa::exception &e) { return std::string("occa::exception: ") + e.what(); }
  catch (std::exception &e) { return std::string("std::exception: ") + e.what(); }
  catch (...) { return "unknown exception"; }
}
int main(int argc, char **argv) {
  return c20::driveChunk(argc, argv, programs, %d);
}""" % len(sections))
    return "\n".join(s) + "\n"


# ---------------------------------------------------------------------------------------------
# building

class BuildError(Exception):
    pass


def run_cmd(cmd, what):
    p = sh(cmd)
    if p.returncode != 0:
        raise BuildError("%s failed:\n%s\n%s" % (what, " ".join(cmd), p.stdout[-2500:]))


def kept_compile_cmd(src, obj, openmp=False):
    return gpuemu.base_flags(VARIANT, opt="-O0") + ["-I" + HERE] + (["-fopenmp"] if openmp else []) + ["-c", src, "-o", obj]


STUB_INCLUDE = {
    "cuda": '#include "gpuemu/cuda.h"', "hip": "#include <hip/hip_runtime.h>", "opencl": '#include "gpuemu/opencl_c.h"',
    "metal": "#include <metal_compute>\n#include <metal_stdlib>", "dpcpp": "#include <CL/sycl.hpp>",
}


def device_flags(race):
    """flags of a device TU.  Same sanitizers as gpuemu.device_cmd / race_device_cmd, but -O0 (cheapest for one tiny
    kernel per TU) and the language stub through a precompiled header."""
    g = gpuemu.HERE
    if race:
        return ["g++", "-std=c++17", "-O0", "-g1", "-w"] + gpuemu.RACE_FLAGS + ["-I" + g, "-I" + os.path.join(g, "include")]
    return (["g++", "-std=c++17", "-O0", "-g1", "-w"] + gpuemu.SAN[VARIANT] + gpuemu.WORKGROUP_FLAGS
            + ["-I" + g, "-I" + os.path.join(g, "include")])


class Builder:
    def __init__(self, workdir, env):
        self.wd, self.env = workdir, dict(env)
        os.makedirs(workdir, exist_ok=True)
        self.miniomp_o = os.path.join(workdir, "miniomp.o")
        self.host_extra = None

    def prepare(self):
        """objects and the precompiled header shared by all programs"""
        run_cmd(kept_compile_cmd(os.path.join(HERE, "miniomp.cpp"), self.miniomp_o), "miniomp compile")
        self.race_o = os.path.join(self.wd, "race_runtime.o")
        run_cmd(gpuemu.race_runtime_cmd(self.race_o), "race runtime compile")
        base = ["-I" + HERE, "-fopenmp", "-O0"]      # the main TU may contain the OpenMP translation
        jobs = [("host", None)] + [(m, r) for m in LAUNCHED for r in (False, True)]

        def one(job):
            m, race = job
            if m == "host":
                return gpuemu.host_pch(VARIANT, os.path.join(self.wd, "pch"), extra=base, also_include=["driver.hpp", "gpuemu/workgroup.hpp"])
            d = os.path.join(self.wd, "pch-%s-%s" % (m, "race" if race else "asan"))
            os.makedirs(d, exist_ok=True)
            hdr = write(os.path.join(d, "stub.hpp"), STUB_INCLUDE[m] + "\n")
            run_cmd(device_flags(race) + ["-x", "c++-header", hdr, "-o", hdr + ".gch"], "stub precompile %s" % m)
            return hdr

        with ThreadPoolExecutor(max_workers=len(jobs)) as ex:
            res = list(ex.map(one, jobs))
        self.host_extra = base + res[0]
        self.stub_pch = dict(((m, r), h) for (m, r), h in zip(jobs[1:], res[1:]))

    def device_cmd(self, mode, src, obj, race=False):
        return device_flags(race) + ["-include", self.stub_pch[(mode, race)], "-x", "c++", "-c", src, "-o", obj]

    def build_race_exe(self, tag, progs, infos):
        """second executable of a chunk for the race pass: the same main object, device TUs recompiled with
        -fsanitize=thread (no ASan), race_runtime.o.  -> path or None; failures are harness errors of the caller."""
        d = os.path.join(self.wd, tag)
        modes = [m for m in LAUNCHED if any(m in infos[p.name]["modes"] for p in progs)]
        def compile_race(m):
            obj = os.path.join(d, "%s_race.o" % m)
            run_cmd(self.device_cmd(m, os.path.join(d, "%s_tu.cpp" % m), obj, race=True), "race-pass compile of the %s device translations" % m)
            return obj

        if not modes:
            return None
        with ThreadPoolExecutor(max_workers=len(modes)) as ex:
            objs = list(ex.map(compile_race, modes))
        kept = [os.path.join(d, f) for f in ("serial.o", "openmp.o") if os.path.exists(os.path.join(d, f))]
        exe = os.path.join(d, "run_race.exe")
        run_cmd(gpuemu.link_cmd(VARIANT, [os.path.join(d, "main.o")] + objs + kept + [self.miniomp_o, self.race_o], exe), "race-pass link " + tag)
        return exe

    def build_chunk(self, tag, progs, xl, modes):
        """One executable for the programs `progs`.  xl: (name, mode) -> translation result.
        -> dict name -> info {exe, modes (linked), compile_failures {mode: text}, rejected {mode: verdict}}, or None when a TU
        of a chunk of several programs does not compile (the caller then builds every program on its own, which
        attributes the failure).  First attempt: Serial and OpenMP translations inside the main TU (two compiler
        runs less); if that TU does not compile they are compiled on their own."""
        single = len(progs) == 1
        infos = dict((p.name, {"exe": None, "modes": [], "compile_failures": {}, "rejected": {}, "chunk": tag}) for p in progs)
        d = os.path.join(self.wd, tag)
        os.makedirs(d, exist_ok=True)
        for p in progs:
            for m in modes:
                if xl[(p.name, m)][0] != "OK":
                    infos[p.name]["rejected"][m] = xl[(p.name, m)][0]
        objs = []
        launched_ok = []          # modes whose device TU compiled
        dev_modes = [m for m in modes if m not in KEPT and any(xl[(p.name, m)][0] == "OK" for p in progs)]

        def compile_device(m):
            obj = os.path.join(d, "%s.o" % m)
            try:
                src = write(os.path.join(d, "%s_tu.cpp" % m), device_tu(progs, m, xl))
                run_cmd(self.device_cmd(m, src, obj), "compile of the %s device translation" % m)
                return m, obj, None
            except BuildError as e:
                return m, None, str(e)

        with ThreadPoolExecutor(max_workers=max(1, len(dev_modes))) as ex:
            results = list(ex.map(compile_device, dev_modes))
        for m, obj, err in results:
            if err is None:
                launched_ok.append(m)
                objs.append(obj)
            elif not single:
                return None
            else:
                infos[progs[0].name]["compile_failures"][m] = err

        def sections(inline):
            out = []
            for p in progs:
                kept_ok = [m for m in KEPT if m in modes and xl[(p.name, m)][0] == "OK" and m not in infos[p.name]["compile_failures"]]
                lok = [m for m in launched_ok if xl[(p.name, m)][0] == "OK"]
                texts, launcher_of = [], {}
                for m in lok:
                    with open(xl[(p.name, m)][2]) as f:
                        key = hashlib.sha1(f.read().encode()).hexdigest()
                    found = [t for t in texts if t[2] == key]
                    if not found:
                        texts.append((len(texts), xl[(p.name, m)][2], key))
                        found = [texts[-1]]
                    launcher_of[m] = (found[0][0], found[0][1])
                infos[p.name]["modes"] = kept_ok + lok
                if kept_ok or lok:
                    out.append(program_section(p, kept_ok, lok, launcher_of,
                                               dict((m, xl[(p.name, m)][1]) for m in kept_ok) if inline else {}))
            return out

        mobj = os.path.join(d, "main.o")
        secs = sections(True)
        if not secs:
            return infos
        try:
            src = write(os.path.join(d, "main.cpp"), main_tu(secs))
            run_cmd(gpuemu.host_cmd(VARIANT, src, mobj, extra=self.host_extra), "compile of the main TU (reference + launcher + Serial/OpenMP)")
        except BuildError:
            if not single:
                return None
            p = progs[0]
            for m in KEPT:
                if m not in modes or xl[(p.name, m)][0] != "OK":
                    continue
                obj = os.path.join(d, "%s.o" % m)
                try:
                    src = write(os.path.join(d, "%s_tu.cpp" % m), kept_tu(progs, m, xl))
                    run_cmd(kept_compile_cmd(src, obj, openmp=(m == "openmp")), "compile of the %s translation" % m)
                    objs.append(obj)
                except BuildError as e:
                    infos[p.name]["compile_failures"][m] = str(e)
            secs = sections(False)
            src = write(os.path.join(d, "main.cpp"), main_tu(secs))
            try:
                run_cmd(gpuemu.host_cmd(VARIANT, src, mobj, extra=self.host_extra), "compile of the main TU (reference + launcher)")
            except BuildError as e:
                # the launcher is part of the translation of every launched mode
                infos[p.name]["compile_failures"]["launcher"] = str(e)
                infos[p.name]["modes"] = []
                return infos
        exe = os.path.join(d, "run.exe")
        run_cmd(gpuemu.link_cmd(VARIANT, [mobj] + objs + [self.miniomp_o], exe), "link " + tag)
        for p in progs:
            if infos[p.name]["modes"]:
                infos[p.name]["exe"] = exe
        return infos


RLINE = re.compile(r"^R (\S+) (\d+) (\S+) cells=(\d+) written=(\d+) \| ?(.*)$")


def sanitizer_kind(err):
    m = re.search(r"ERROR: AddressSanitizer: (\S+)", err)
    if m:
        kind = m.group(1)
        acc = re.search(r"\b(READ|WRITE) of size", err)
        return "asan:%s%s" % (kind, ("-" + acc.group(1).lower()) if acc else "")
    if "runtime error:" in err:
        return "ubsan"
    return None


def ub_reports(err):
    out = []
    for m in re.finditer(r"^(\S+?):(\d+):\d+: runtime error: (.*)$", err, re.M):
        out.append((os.path.basename(m.group(1)), re.sub(r"-?\d+", "#", m.group(3))[:80]))
    return sorted(set(out))


def run_all(exe, prog, modes, env, cwd, race=False, timeout=1800):
    """One process for all backends (`exe all`); whatever is missing afterwards (crash, sanitizer abort, timeout) is
    re-run backend by backend with run_backend, which attributes the failure to its N."""
    e = dict(env)
    e["OCCA_CACHE_DIR"] = os.path.join(cwd, "cache-%s-all%s" % (prog, "-race" if race else ""))
    e.pop("GPUEMU_ITEM_ORDER", None)
    try:
        p = subprocess.run([exe, prog, "all"], stdout=subprocess.PIPE, stderr=subprocess.PIPE, text=True, env=e, cwd=cwd, timeout=timeout)
        out, err = p.stdout, p.stderr
    except subprocess.TimeoutExpired as ex:
        out = ex.stdout.decode("utf-8", "replace") if isinstance(ex.stdout, bytes) else (ex.stdout or "")
        err = ""
    obs, have = [], {}
    for ln in out.split("\n"):
        m = RLINE.match(ln)
        if m:
            label, n = m.group(1), int(m.group(2))
            mode, _, order = label.partition("@")
            d = m.group(6)
            if order == "desc" and m.group(3) != "ok":
                d += " [work-items of a group run in descending order]"
            obs.append((mode, n, m.group(3), int(m.group(4)), int(m.group(5)), d))
            have.setdefault((mode, order or "asc"), set()).add(n)
        elif ln.startswith("M "):
            f = ln.split()
            obs.append((f[1].partition("@")[0], int(f[2]), "monitor", int(f[3].split("=")[1]), 0, ""))
    for fname, kind in ub_reports(err):
        mm = re.search(r"_(%s)\.(xl|launcher)" % "|".join(ALL_MODES), fname)
        obs.append((mm.group(1) if mm else "launcher", -1, "ubsan", 0, 0, "%s: %s" % (fname, kind)))
    for m in modes:
        if race and m not in LAUNCHED:
            continue
        for order in (("asc", "desc") if (m in LAUNCHED and not race) else ("asc",)):
            missing = [n for n in pg.NVALUES if n not in have.get((m, order), set())]
            if missing:
                obs = [o for o in obs if not (o[0] == m and o[2] == "monitor")] if race else obs
                obs += run_backend(exe, prog, m, env, cwd, nvalues=missing, order=order)
    return obs


def run_backend(exe, prog, mode, env, cwd, nvalues=pg.NVALUES, timeout=900, order="asc"):
    """-> list of observations (mode, N, status, cells, written, detail).  status additionally: 'crash', 'ubsan', 'timeout'.
    order: 'asc' | 'desc' = order in which gpuemu runs the work-items of a group inside a barrier phase."""
    obs = []
    pending = list(nvalues)
    first = True
    timed_out = set()
    while pending:
        args = [exe, prog, mode] if (first and tuple(pending) == tuple(pg.NVALUES)) else [exe, prog, mode, str(pending[0])]
        single = len(args) == 4
        first = False
        e = dict(env)
        e["OCCA_CACHE_DIR"] = os.path.join(cwd, "cache-%s-%s-%s" % (prog, mode, order))
        e["GPUEMU_ITEM_ORDER"] = order
        try:
            p = subprocess.run(args, stdout=subprocess.PIPE, stderr=subprocess.PIPE, text=True, env=e, cwd=cwd, timeout=timeout)
            out, err, rc = p.stdout, p.stderr, p.returncode
        except subprocess.TimeoutExpired as ex:
            out, err, rc = (ex.stdout or b"").decode("utf-8", "replace") if isinstance(ex.stdout, bytes) else (ex.stdout or ""), "timeout", -9
        done = []
        for ln in out.split("\n"):
            m = RLINE.match(ln)
            if m:
                n = int(m.group(2))
                obs.append((mode, n, m.group(3), int(m.group(4)), int(m.group(5)), m.group(6)))
                done.append(n)
        for ln in out.split("\n"):
            if ln.startswith("M "):
                f = ln.split()
                obs.append((mode, int(f[2]), "monitor", int(f[3].split("=")[1]), 0, ""))
        ubs = ub_reports(err)
        if ubs:
            obs.append((mode, done[-1] if done else pending[0], "ubsan", 0, 0, "; ".join("%s: %s" % u for u in ubs[:3])))
        remaining = [n for n in (pending[:1] if single else pending) if n not in done]
        if remaining and err == "timeout":
            # never a verdict: retried once on its own, then reported as harness problem by the caller
            n = remaining[0]
            if n in timed_out:
                obs.append((mode, n, "timeout", 0, 0, "no result within %d s (twice)" % timeout))
                done.append(n)
            else:
                timed_out.add(n)
        elif remaining:
            n = remaining[0]
            kind = sanitizer_kind(err) or ("exit:%s" % rc)
            tail = err.strip().split("\n")
            detail = " | ".join(x.strip() for x in tail[:6])[:600]
            obs.append((mode, n, "crash", 0, 0, kind + " :: " + detail))
            done.append(n)
        pending = [n for n in pending if n not in done]
    if order != "asc":
        obs = [(m, n, st, c, w, (d + " [work-items of a group run in descending order]") if st != "ok" else d) for (m, n, st, c, w, d) in obs]
    return obs
