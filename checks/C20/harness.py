"""C20 harness generation and execution: one executable per program, all backends inside.

For a program P the executable contains
  main TU     driver.hpp + the reference (sequential reading) + the translated *launcher* source(s), included
              unchanged apart from preprocessor renames of the kernel/helper names (every backend's translation
              defines the same extern "C" names) + glue;
  serial TU   the Serial translation            (ASan+UBSan)
  openmp TU   the OpenMP translation, -fopenmp  (ASan+UBSan; runtime = miniomp.cpp, deterministic virtual threads)
  5 device TUs  CUDA/HIP/OpenCL/Metal/DPC++ translation + the gpuemu stub of that language with work-group
              semantics (-DGPUEMU_WORKGROUP) + one Entry trampoline per device kernel   (ASan+UBSan)
A backend whose TU does not compile is left out of the executable and reported (an observation about the
translation: the stubs declare only documented API).
"""
import hashlib, os, re, subprocess, sys
from concurrent.futures import ThreadPoolExecutor

HERE = os.path.dirname(os.path.abspath(__file__))
ROOT = os.path.dirname(os.path.dirname(HERE))
sys.path.insert(0, ROOT)
sys.path.insert(0, os.path.join(ROOT, "engines", "gpuemu"))
import gpuemu                                   # noqa: E402
from vlib import batch                          # noqa: E402
from vlib.core import NCPU, sh                  # noqa: E402
import progs as pg                              # noqa: E402

KEPT = ("serial", "openmp")
LAUNCHED = ("cuda", "hip", "opencl", "metal", "dpcpp")
ALL_MODES = KEPT + LAUNCHED
VARIANT = "asan"          # harness executables: ASan+UBSan harness against the ASan libocca
XLATE_VARIANT = "rel"     # translation runs in its own process on the uninstrumented libocca (parser ~50x faster)


def family(mode):
    return "kept" if mode in KEPT else "launched"


def write(path, text):
    with open(path, "w") as f:
        f.write(text)
    return path


# ---------------------------------------------------------------------------------------------
# translation (the real translators, in-process in checks/C17/xlate.cpp, reused unchanged)

def compile_xlate(c):
    return c.compile(os.path.join(ROOT, "checks", "C17", "xlate.cpp"), "xlate", variant=XLATE_VARIANT, opt="-O0")


def translate_all(xlate, programs, modes, workdir, env):
    """-> dict (prog.name, mode) -> ('OK', dev_path, launcher_path|None) | (verdict, None, None)"""
    os.makedirs(workdir, exist_ok=True)
    jobs, keys = [], []
    for p in programs:
        okl = write(os.path.join(workdir, p.name + ".okl"), p.okl)
        for m in modes:
            dev = os.path.join(workdir, "%s_%s.xl" % (p.name, m))
            lau = os.path.join(workdir, "%s_%s.launcher" % (p.name, m)) if m in LAUNCHED else "-"
            jobs.append("T\t%s\t%s\t%s\t%s" % (m, okl, dev, lau))
            keys.append((p.name, m, dev, lau))
    res, complete = batch.run_items([xlate], jobs, os.path.join(workdir, "xl"), env,
                                    chunk=max(1, -(-len(jobs) // NCPU)), per_item_timeout=20.0)
    out = {}
    for (name, m, dev, lau), r in zip(keys, res):
        v = ("CRASH " + r.crash) if r.crash else (r.lines[0] if r.lines else "REJECT")
        out[(name, m)] = (v, dev, (lau if lau != "-" else None)) if v == "OK" else (v, None, None)
    return out


# ---------------------------------------------------------------------------------------------
# generated sources

def c_params(p, launched=False):
    ps = []
    for a in p.args:
        if a.is_array():
            ps.append("occa::modeMemory_t * %s" % a.name if launched else "%s%s" % (a.ctype, a.name))
        else:
            ps.append("%s & %s" % (a.ctype, a.name))
    return ", ".join(ps)


def data_expr(p, a):
    if a.kind == "int":
        return "d.%s" % a.name
    if a.kind == "float":
        return "d.w"
    idx = [x.name for x in p.args if x.is_array()].index(a.name)
    return "d.arr[%d]" % idx


def renames(p, suffix):
    names = [p.name] + ["_occa_%s_%d" % (p.name, k) for k in range(p.nkernels)]
    if p.info["has_helper"]:
        names.append(pg.HELPER)
    return names, "".join("#define %s %s_%s\n" % (n, n, suffix) for n in names)


def unrenames(names):
    return "".join("#undef %s\n" % n for n in names)


def kept_tu(p, mode, xl):
    names, defs = renames(p, mode)
    return defs + '#include "%s"\n' % xl


def device_tu(p, mode, xl):
    names, defs = renames(p, mode)
    s = [defs, '#include "%s"' % xl]
    deref = []
    for i, a in enumerate(p.args):
        if a.kind == "int":
            deref.append("*(int*) args[%d]" % i)
        elif a.kind == "float":
            deref.append("*(float*) args[%d]" % i)
        elif a.kind == "in":
            deref.append("*(const int**) args[%d]" % i)
        else:
            deref.append("*(int**) args[%d]" % i)
    deref = ", ".join(deref)
    for k in range(p.nkernels):
        fn = "_occa_%s_%d_%s" % (p.name, k, mode)
        entry = "entry_%s_%s_%d" % (p.name, mode, k)
        if mode == "dpcpp":
            s.append("GPUEMU_SYCL_ENTRY(%s, %s(queue_, range_, %s))" % (entry, fn, deref))
        elif mode == "metal":
            s.append("GPUEMU_GRID_ENTRY(%s, %s(%s, gpuemu::metalGroupPosition(), gpuemu::metalThreadPosition()))" % (entry, fn, deref))
        else:
            s.append("GPUEMU_GRID_ENTRY(%s, %s(%s))" % (entry, fn, deref))
    return "\n".join(s) + "\n"


def main_tu(p, kept_modes, launched_modes, launcher_of, inline_kept=None):
    """launcher_of: mode -> (index, path) of the distinct launcher text used by that mode.
    inline_kept: mode -> path of a Serial/OpenMP translation to include in this TU (fewer compiler runs);
    modes not listed there are expected as separate objects."""
    inline_kept = inline_kept or {}
    arrays = [a for a in p.args if a.is_array()]
    s = ['#include "occa_launch.hpp"', '#include <occa/utils/exception.hpp>', '#include "driver.hpp"', "", p.ref]
    specs = []
    for a in arrays:
        kind = 0 if a.kind == "in" else (2 if a.name == "cnt" else 1)
        specs.append('  {"%s", %d, %d, %d},' % (a.name, kind, a.coef, a.fixed))
    s.append("static const c20::ArraySpec specs[] = {\n%s\n};" % "\n".join(specs))
    call = ", ".join(data_expr(p, a) for a in p.args)
    s.append("static void run_reference(c20::Data &d) { ref_%s(%s); }" % (p.name, call))
    for m in kept_modes:
        if m in inline_kept:
            names, defs = renames(p, m)
            s.append(defs + '#include "%s"\n' % inline_kept[m] + unrenames(names))
        else:
            s.append('extern "C" void %s_%s(%s);' % (p.name, m, c_params(p)))
        s.append("static void run_%s(c20::Data &d) { %s_%s(%s); }" % (m, p.name, m, call))
    files = sorted(set(launcher_of[m] for m in launched_modes))
    for lf in files:
        tag = "launcher%d" % lf[0]
        names, defs = renames(p, tag)
        s.append(defs + '#include "%s"\n' % lf[1] + unrenames(names))
    if launched_modes:
        s.append("static gpuemu::Host& host() { static gpuemu::Host *h = new gpuemu::Host(); return *h; }")
        s.append("static occa::memory wrap(int *p, size_t n) { return host().device.wrapMemory<int>(p, (occa::dim_t) n); }")
    for m in launched_modes:
        for k in range(p.nkernels):
            s.append('extern "C" void entry_%s_%s_%d(void **args, const size_t outer[3], const size_t inner[3]);' % (p.name, m, k))
        s.append("static void run_%s(c20::Data &d) {" % m)
        s.append("  static occa::modeKernel_t *dk[%d] = {%s};" % (
            p.nkernels, ", ".join('host().kernel("%s_%d", entry_%s_%s_%d)' % (p.name, k, p.name, m, k) for k in range(p.nkernels))))
        largs = []
        for i, a in enumerate(arrays):
            s.append("  occa::memory m%d = wrap(d.arr[%d], d.len[%d]);" % (i, i, i))
        for a in p.args:
            largs.append("m%d.getModeMemory()" % arrays.index(a) if a.is_array() else data_expr(p, a))
        s.append("  %s_launcher%d(dk, %s);" % (p.name, launcher_of[m][0], ", ".join(largs)))
        s.append("}")
    s.append("static const c20::Backend backends[] = {")
    for m in list(kept_modes) + list(launched_modes):
        s.append('  {"%s", run_%s},' % (m, m))
    s.append("};")
    s.append("""std::string c20::describeException() {
  try { throw; }
  catch (gpuemu::launch_error &e) { return e.what(); }
  catch (occa::exception &e) { return std::string("occa::exception: ") + e.what(); }
  catch (std::exception &e) { return std::string("std::exception: ") + e.what(); }
  catch (...) { return "unknown exception"; }
}
int main(int argc, char **argv) {
  return c20::drive(argc, argv, backends, %d, run_reference, specs, %d);
}""" % (len(kept_modes) + len(launched_modes), len(arrays)))
    return "\n".join(s) + "\n"


# ---------------------------------------------------------------------------------------------
# building

class BuildError(Exception):
    pass


def run_cmd(cmd, what):
    p = sh(cmd)
    if p.returncode != 0:
        raise BuildError("%s failed:\n%s\n%s" % (what, " ".join(cmd), p.stdout[-2500:]))


def kept_compile_cmd(src, obj, openmp=False):
    return gpuemu.base_flags(VARIANT) + ["-I" + HERE] + (["-fopenmp"] if openmp else []) + ["-c", src, "-o", obj]


class Builder:
    def __init__(self, workdir, env):
        self.wd, self.env = workdir, dict(env)
        os.makedirs(workdir, exist_ok=True)
        self.miniomp_o = os.path.join(workdir, "miniomp.o")
        self.host_extra = None

    def prepare(self):
        """objects and the precompiled header shared by all programs"""
        run_cmd(kept_compile_cmd(os.path.join(HERE, "miniomp.cpp"), self.miniomp_o), "miniomp compile")
        base = ["-I" + HERE, "-fopenmp"]      # the main TU may contain the OpenMP translation
        self.host_extra = base + gpuemu.host_pch(VARIANT, os.path.join(self.wd, "pch"), extra=base, also_include=["driver.hpp"])

    def build_program(self, p, xl, modes):
        """xl: (name, mode) -> translation result.  Returns dict: exe, modes (linked), compile_failures {mode: text},
        rejected {mode: verdict}.  First attempt: Serial and OpenMP translations inside the main TU (one compiler
        run less each); if that TU does not compile, every translation is compiled on its own so that the
        failure is attributed to the right backend."""
        info = {"exe": None, "modes": [], "compile_failures": {}, "rejected": {}}
        d = os.path.join(self.wd, p.name)
        os.makedirs(d, exist_ok=True)
        objs = []
        kept_paths, launched_ok = {}, []
        launcher_texts = []          # distinct launcher sources: (index, path, sha1)
        launcher_of = {}
        for m in modes:
            v, dev, lau = xl[(p.name, m)]
            if v != "OK":
                info["rejected"][m] = v
                continue
            if m in KEPT:
                kept_paths[m] = dev
                continue
            obj = os.path.join(d, "%s.o" % m)
            try:
                src = write(os.path.join(d, "%s_tu.cpp" % m), device_tu(p, m, dev))
                run_cmd(gpuemu.device_cmd(m, src, obj, VARIANT, workgroup=True), "compile of the %s device translation" % m)
                with open(lau) as f:
                    text = f.read()
                key = hashlib.sha1(text.encode()).hexdigest()
                found = [t for t in launcher_texts if t[2] == key]
                if not found:
                    launcher_texts.append((len(launcher_texts), lau, key))
                    found = [launcher_texts[-1]]
                launcher_of[m] = (found[0][0], found[0][1])
                launched_ok.append(m)
                objs.append(obj)
            except BuildError as e:
                info["compile_failures"][m] = str(e)
        kept_ok = [m for m in KEPT if m in kept_paths]
        if not (kept_ok or launched_ok):
            return info
        mobj = os.path.join(d, "main.o")
        extra = self.host_extra
        merged = True
        try:
            src = write(os.path.join(d, "main.cpp"), main_tu(p, kept_ok, launched_ok, launcher_of, inline_kept=kept_paths))
            run_cmd(gpuemu.host_cmd(VARIANT, src, mobj, extra=extra), "compile of the main TU (reference + launcher + Serial/OpenMP)")
        except BuildError:
            merged = False
        if not merged:
            still = []
            for m in kept_ok:
                obj = os.path.join(d, "%s.o" % m)
                try:
                    src = write(os.path.join(d, "%s_tu.cpp" % m), kept_tu(p, m, kept_paths[m]))
                    run_cmd(kept_compile_cmd(src, obj, openmp=(m == "openmp")), "compile of the %s translation" % m)
                    still.append(m)
                    objs.append(obj)
                except BuildError as e:
                    info["compile_failures"][m] = str(e)
            kept_ok = still
            src = write(os.path.join(d, "main.cpp"), main_tu(p, kept_ok, launched_ok, launcher_of))
            try:
                run_cmd(gpuemu.host_cmd(VARIANT, src, mobj, extra=self.host_extra), "compile of the main TU (reference + launcher)")
            except BuildError as e:
                # the launcher is part of the translation of every launched mode
                info["compile_failures"]["launcher"] = str(e)
                return info
        exe = os.path.join(d, "run.exe")
        run_cmd(gpuemu.link_cmd(VARIANT, [mobj] + objs + [self.miniomp_o], exe), "link " + p.name)
        info["exe"] = exe
        info["modes"] = kept_ok + launched_ok
        return info


RLINE = re.compile(r"^R (\S+) (\d+) (\S+) cells=(\d+) written=(\d+) \| ?(.*)$")


def sanitizer_kind(err):
    m = re.search(r"ERROR: AddressSanitizer: (\S+)", err)
    if m:
        kind = m.group(1)
        acc = re.search(r"\b(READ|WRITE) of size", err)
        return "asan:%s%s" % (kind, ("-" + acc.group(1).lower()) if acc else "")
    if "runtime error:" in err:
        return "ubsan"
    return None


def ub_reports(err):
    out = []
    for m in re.finditer(r"^(\S+?):(\d+):\d+: runtime error: (.*)$", err, re.M):
        out.append((os.path.basename(m.group(1)), re.sub(r"-?\d+", "#", m.group(3))[:80]))
    return sorted(set(out))


def run_backend(exe, mode, env, cwd, nvalues=pg.NVALUES, timeout=120):
    """-> list of observations (mode, N, status, cells, written, detail).  status additionally: 'crash'."""
    obs = []
    pending = list(nvalues)
    first = True
    while pending:
        args = [exe, mode] if (first and tuple(pending) == tuple(pg.NVALUES)) else [exe, mode, str(pending[0])]
        single = len(args) == 3
        first = False
        e = dict(env)
        e["OCCA_CACHE_DIR"] = os.path.join(cwd, "cache-" + mode)
        try:
            p = subprocess.run(args, stdout=subprocess.PIPE, stderr=subprocess.PIPE, text=True, env=e, cwd=cwd, timeout=timeout)
            out, err, rc = p.stdout, p.stderr, p.returncode
        except subprocess.TimeoutExpired as ex:
            out, err, rc = (ex.stdout or b"").decode("utf-8", "replace") if isinstance(ex.stdout, bytes) else (ex.stdout or ""), "timeout", -9
        done = []
        for ln in out.split("\n"):
            m = RLINE.match(ln)
            if m:
                n = int(m.group(2))
                obs.append((mode, n, m.group(3), int(m.group(4)), int(m.group(5)), m.group(6)))
                done.append(n)
        ubs = ub_reports(err)
        if ubs:
            obs.append((mode, done[-1] if done else pending[0], "ubsan", 0, 0, "; ".join("%s: %s" % u for u in ubs[:3])))
        remaining = [n for n in (pending[:1] if single else pending) if n not in done]
        if remaining:
            n = remaining[0]
            kind = sanitizer_kind(err) or ("timeout" if err == "timeout" else "exit:%s" % rc)
            tail = err.strip().split("\n")
            detail = " | ".join(x.strip() for x in tail[:6])[:600]
            obs.append((mode, n, "crash", 0, 0, kind + " :: " + detail))
            done.append(n)
        pending = [n for n in pending if n not in done]
    return obs
