// Deterministic stand-in for libgomp for the C20 harness (same idea as checks/C17/miniomp.cpp, plus the
// entry points `#pragma omp critical` needs).  GOMP_parallel runs the outlined region once per *virtual*
// thread, one after another (highest id first); the region computes its static chunk from
// omp_get_num_threads()/omp_get_thread_num().  `#pragma omp atomic` is inlined by gcc (lock-prefixed
// instruction), `#pragma omp critical` calls GOMP_critical_start/end: nothing to do with one OS thread.
// Thread count: VERIF_OMP_THREADS (default 3).  Races and schedules are C21's subject (engine ompx).
#include <cstdlib>

static int vthreads = 1, vtid = 0;
static bool inParallel = false;

extern "C" int omp_get_num_threads() { return inParallel ? vthreads : 1; }
extern "C" int omp_get_thread_num() { return inParallel ? vtid : 0; }
extern "C" int omp_get_max_threads() { return vthreads; }
extern "C" void GOMP_critical_start() {}
extern "C" void GOMP_critical_end() {}

extern "C" void GOMP_parallel(void (*fn)(void*), void *data, unsigned num_threads, unsigned flags) {
  (void) flags;
  const char *e = std::getenv("VERIF_OMP_THREADS");
  int n = e ? std::atoi(e) : 3;
  if (num_threads) n = (int) num_threads;
  if (n < 1) n = 1;
  if (inParallel) { fn(data); return; }   // nested region: serialised, as libgomp does by default
  vthreads = n;
  struct Region {
    Region() { inParallel = true; }
    ~Region() { inParallel = false; vtid = 0; }
  } region;
  for (int t = n - 1; t >= 0; --t) {
    vtid = t;
    fn(data);
  }
}
