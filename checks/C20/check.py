#!/usr/bin/env python3
"""C20: translated kernels compute what the OKL kernel means, on every backend; no out-of-bounds access.

Programs = base kernel + every subset of size <= 2 (quick: <= 1) of 16 OKL features (progs.py), each with
independent iterations by construction.  Every program is translated by the 7 real translators; the Serial and
OpenMP translations are compiled and run natively, the CUDA/HIP/OpenCL/Metal/DPC++ translations run under
gpuemu (translated launcher on the real occa::kernel/occa::dim runtime, device source under the emulated
work-group model: fibers, barriers, group-shared memory) for N in {0,1,3,4}.  Oracle: all output arrays equal the
sequential reading (plain C++), inputs untouched, no ASan/UBSan report with exact-size heap arrays.
"""
import json, os, sys, threading, time
from concurrent.futures import ThreadPoolExecutor

sys.path.insert(0, os.path.dirname(os.path.dirname(os.path.dirname(os.path.abspath(__file__)))))
sys.path.insert(0, os.path.dirname(os.path.abspath(__file__)))
from vlib.core import Check, san_env, load_replay, NCPU
import progs as pg
import harness as hs
import gpuemu


def attribute(feats, clause, mode, single_fail):
    """the feature a violation is attributed to: a feature of the program whose single-feature program fails the same
    clause on the same backend, else the whole feature set"""
    for f in feats:
        if (clause, mode, f) in single_fail:
            return f
    if ("%s" % clause, mode, "base") in single_fail:
        return "base"
    return "+".join(feats) if feats else "base"


def clause_of(status, detail):
    if status == "differ":
        return "output-" + detail.split(" |")[0].strip()
    if status == "crash":
        return detail.split(" ::")[0].strip()
    if status == "ubsan":
        return "ub-in-translation"
    if status == "race":
        # "<where> <kind> <scope>; ..." - one canonical representative: the last in sorted order (write-write if present)
        f = max(x.strip() for x in detail.split("[")[0].split(";")).split()
        return "race:%s:%s" % (f[0], f[1])
    return status          # launch-error, exception


def judge(c, programs, built, observations):
    """-> list of (sig, detail, replay)"""
    raw = []      # (clause, mode, prog, N, detail)
    for p in programs:
        info = built[p.name]
        for m, text in sorted(info["compile_failures"].items()):
            err = [ln for ln in text.split("\n") if "error" in ln]
            raw.append(("does-not-compile", m, p, None, (err[0].strip()[:300] if err else text[-300:])))
        for m, v in sorted(info["rejected"].items()):
            if v.startswith("CRASH"):
                raw.append(("translator-crash", m, p, None, v))
        for (m, n, status, cells, written, detail) in observations.get(p.name, []):
            if status in ("ok", "monitor"):
                continue
            if status == "timeout":
                c.harness_error("%s [%s] N=%s: %s" % (p.desc(), m, n, detail))
            raw.append((clause_of(status, detail), m, p, n, detail))
    single_fail = set()
    for clause, m, p, n, detail in raw:
        if len(p.feats) <= 1:
            single_fail.add((clause, m, p.feats[0] if p.feats else "base"))
    out = []
    for clause, m, p, n, detail in raw:
        feat = attribute(p.feats, clause, m, single_fail)
        sig = "%s:%s:%s" % (clause, m, feat)
        what = "%s [%s]%s: %s" % (p.desc(), m, (" N=%d" % n) if (n is not None and n >= 0) else "", detail)
        r = p.replay_obj()
        r.update({"mode": m, "N": n})
        out.append((sig, what, r))
    return out


def race_pass(p):
    """programs that get the additional race pass: the base kernel and every program in which work-items communicate
    (@shared, @atomic) or keep per-item state across inner loops (@exclusive)"""
    return not p.feats or bool(set(p.feats) & {"shared", "atomic", "exclusive"})


def build_and_run(c, programs, modes, env, log, deadline, chunk_size=None):
    xlate = hs.compile_xlate(c)
    xl = hs.translate_all(xlate, programs, modes, os.path.join(c.scratch, "xl"), env)
    log("translated %d programs x %d modes" % (len(programs), len(modes)))
    b = hs.Builder(os.path.join(c.scratch, "build"), env)
    b.prepare()
    if chunk_size is None:
        # one executable per chunk of programs: about one chunk per core, at most 9 programs per chunk
        chunk_size = max(1, min(9, -(-len(programs) // NCPU)))
    chunks = [programs[i:i + chunk_size] for i in range(0, len(programs), chunk_size)]
    built, observations = {}, {}
    sem = threading.BoundedSemaphore(NCPU)
    complete = [True]

    def run_programs(tag, progs, infos):
        out = {}
        for p in progs:
            obs = []
            info = infos[p.name]
            if info["exe"]:
                with sem:
                    obs += hs.run_all(info["exe"], p.name, info["modes"], env, os.path.dirname(info["exe"]))
            out[p.name] = obs
        racers = [p for p in progs if race_pass(p) and infos[p.name]["exe"]]
        if racers:
            # race pass: device TUs recompiled with -fsanitize=thread, conflict monitor of engines/gpuemu/race_runtime.cpp
            with sem:
                rexe = b.build_race_exe(tag, progs, infos)
            for p in racers:
                if rexe:
                    with sem:
                        robs = hs.run_all(rexe, p.name, infos[p.name]["modes"], env, os.path.dirname(rexe), race=True)
                    # everything but races was already judged on the ASan executable
                    out[p.name] += [o for o in robs if o[2] in ("race", "monitor", "timeout")]
        return out

    def work(job):
        tag, progs = job
        if time.time() > deadline:
            complete[0] = False
            return dict((p.name, {"exe": None, "modes": [], "compile_failures": {}, "rejected": {}, "skipped": True}) for p in progs), {}
        with sem:
            infos = b.build_chunk(tag, progs, xl, modes)
        if infos is None:
            # a TU of the chunk does not compile: every program on its own (attributes the failure)
            infos, obs = {}, {}
            for p in progs:
                with sem:
                    one = b.build_chunk(tag + "-" + p.name, [p], xl, modes)
                infos.update(one)
                obs.update(run_programs(tag + "-" + p.name, [p], one))
            return infos, obs
        return infos, run_programs(tag, progs, infos)

    jobs = [("c%d" % i, ch) for i, ch in enumerate(chunks)]
    with ThreadPoolExecutor(max_workers=NCPU) as ex:
        for infos, obs in ex.map(work, jobs):
            built.update(infos)
            observations.update(obs)
    for p in programs:
        observations.setdefault(p.name, [])
    return xl, built, observations, complete[0]


def main():
    c = Check("C20", "exploration")
    c.build(hs.XLATE_VARIANT)
    c.build(hs.VARIANT)
    env = san_env(c.scratch)
    env["VERIF_OMP_THREADS"] = "3"

    def log(msg):
        print("[C20 %.0fs] %s" % (c.elapsed(), msg), flush=True)

    if c.args.replay:
        r = load_replay(c.args.replay)["replay"]
        p = pg.program_for(r["feats"], name="r0", variant=r.get("variant", ""))
        modes = [r["mode"]] if r["mode"] in hs.ALL_MODES else list(hs.ALL_MODES)
        xl, built, observations, _ = build_and_run(c, [p], modes, env, log, time.time() + 3600)
        print(p.okl)
        v, dev, lau = xl[(p.name, modes[0])]
        print("translate[%s]: %s" % (modes[0], v))
        if dev:
            print(open(dev).read())
        if lau:
            print(open(lau).read())
        viol = judge(c, [p], built, observations)
        for o in observations[p.name]:
            print("observation:", o)
        for sig, what, _ in viol:
            print("FAILS:", sig, "::", what)
        sys.exit(1 if viol else 0)

    modes = list(hs.ALL_MODES)
    programs = pg.programs(c.tier)
    # trusted base first (in the background): gpuemu launch model + work-group extension
    pre = ThreadPoolExecutor(max_workers=3)
    f_race = pre.submit(gpuemu.selftest_race, os.path.join(c.scratch, "gpuemu-race-selftest"), env)
    f_self = pre.submit(gpuemu.selftest, hs.VARIANT, os.path.join(c.scratch, "gpuemu-selftest"), env)
    f_wg = pre.submit(gpuemu.selftest_workgroup, hs.VARIANT, os.path.join(c.scratch, "gpuemu-wg-selftest"), env)
    deadline = c.t0 + c.budget(2400, 10800)     # generous: the sandbox is shared; see wall_s / CPU seconds
    xl, built, observations, complete = build_and_run(c, programs, modes, env, log, deadline)
    for f, what in ((f_self, "launch model"), (f_wg, "work-group extension"), (f_race, "race pass")):
        ok, text = f.result()
        if not ok:
            c.harness_error("gpuemu self-test (%s) failed - trusted base broken:\n%s" % (what, text))
    log("built and ran %d programs" % len(programs))

    for sig, what, replay in judge(c, programs, built, observations):
        c.violation(sig, what, replay)

    # ---- counters and vacuity guards
    accepted = dict((m, 0) for m in modes)
    rejected = dict((m, 0) for m in modes)
    judged = dict((m, 0) for m in modes)
    nontrivial = set()
    monitored = [0, 0]        # accesses seen by the race monitor, (program, backend, N) runs of the race pass
    evaluations = 0
    statuses = {}
    for p in programs:
        for m in modes:
            if xl[(p.name, m)][0] == "OK":
                accepted[m] += 1
            else:
                rejected[m] += 1
        seen = set()
        for (m, n, status, cells, written, detail) in observations.get(p.name, []):
            if status == "monitor":
                monitored[0] += cells
                monitored[1] += 1
                continue
            if status == "ubsan":
                continue
            evaluations += 1
            statuses[status] = statuses.get(status, 0) + 1
            seen.add(m)
            if status == "ok" and n > 0 and written > 0:
                nontrivial.add((p.name, m))
        for m in seen:
            judged[m] += 1
    nprog = len(programs)
    for m in modes:
        c.vacuity(accepted[m] >= nprog * 3 // 4, "translator %s accepted only %d of %d programs" % (m, accepted[m], nprog))
    if complete:
        for m in modes:
            # a backend whose translation does not compile is reported as a violation above; the guard only
            # protects against a harness that silently judges nothing
            c.vacuity(judged[m] + sum(1 for p in programs if m in built[p.name]["compile_failures"] or "launcher" in built[p.name]["compile_failures"])
                      >= accepted[m], "backend %s: %d programs judged of %d accepted" % (m, judged[m], accepted[m]))
    c.vacuity(len(nontrivial) >= nprog, "fewer non-trivial (program, backend) results than programs")
    c.vacuity(monitored[0] > 0 and monitored[1] >= 5 * 3, "the race pass monitored nothing")
    feats_seen = set(f for p in programs for f in p.feats)
    c.vacuity(feats_seen == set(pg.FEATURES), "not every feature occurs in a program")

    c.set_exploration(
        evaluations=evaluations,
        distinct_nontrivial=len(nontrivial),
        rule="base kernel + all subsets of size <= %d of the 16 features %s (%d programs, one template per feature, independent "
             "iterations by construction) x 7 backends x N in {0,1,3,4}; Serial/OpenMP translations compiled (ASan+UBSan) and "
             "run natively, CUDA/HIP/OpenCL/Metal/DPC++ translations run under gpuemu with work-group semantics; all output "
             "arrays == sequential reading (work-items of a group run in ascending and in descending order), inputs unchanged, no "
             "sanitizer report on exact-size heap arrays; race pass (base kernel and programs with @shared/@atomic/@exclusive): "
             "device code recompiled with -fsanitize=thread, no two work-items of a launch may touch the same byte (one writing, "
             "not both atomic) unless a barrier of their common group separates the accesses"
             % (1 if c.tier == "quick" else 2, ",".join(pg.FEATURES), nprog),
        samples=[programs[0].desc(), programs[len(programs) // 2].desc(), programs[-1].desc()],
        exhaustive=complete,
        programs=nprog,
        accepted_by_backend=accepted, rejected_by_backend=rejected, programs_judged_by_backend=judged,
        observations_by_status=statuses,
        race_pass_runs=monitored[1], race_pass_monitored_accesses=monitored[0],
        race_pass_programs=sum(1 for p in programs if race_pass(p)),
        translations_not_compiling=sum(len(built[p.name]["compile_failures"]) for p in programs),
        backends=modes, n_values=list(pg.NVALUES),
    )
    c.assumptions += [
        "GPU-style backends are judged under gpuemu (engines/gpuemu, trusted base, self-tested in this run on hand-written "
        "CUDA/HIP/OpenCL/Metal/SYCL kernels with barriers, group-shared memory and 3-D ids): work-items of a group are fibers "
        "that are only interleaved at barriers, groups run one after another; real drivers/device compilers are not covered",
        "race pass: engines/gpuemu/race_runtime.cpp (trusted base, self-tested in this run) - the conflict rule is that of the "
        "documented launch model (only work-group barriers order work-items), independent of the emulator's execution order",
        "the stub headers declare only documented device API (e.g. CUDA atomic functions with their documented signatures); a "
        "translation that does not compile against them is reported as does-not-compile",
        "OpenMP translation: g++ -fopenmp with a deterministic libgomp stand-in (3 virtual threads one after another); "
        "schedules and races are C21's subject",
        "a program a translator rejects is counted, not judged (C22)",
        "translation runs in a separate process on the uninstrumented libocca; the compiled translations, the emulator and "
        "the launcher runtime (libocca) are ASan+UBSan instrumented",
    ]
    c.finish()


if __name__ == "__main__":
    from vlib.core import run_main; run_main(main)
