// C20 harness support (generic part of the generated per-program main TU).
//
// One executable per chunk of programs.  `exe <program> all` runs every backend (the gpuemu ones once per work-item
// order) for N in {0,1,3,4}; `exe <program> <backend> [N]` one backend (for crash attribution and replay):
//   BEGIN <backend[@desc]> <N>
//   R <backend[@desc]> <N> ok|differ|launch-error|exception|race  <detail>      (race: only in the race-pass executable)
//   END <backend[@desc]> <N>
// Arrays are exact-size malloc blocks (ASan red zones on both sides; a zero-length array is a malloc(0)
// block, every access to it is reported).  Inputs are index patterns, outputs start as a sentinel, counters
// as 0.  The reference (sequential reading, plain C++) runs on its own copies.
#ifndef VERIF_C20_DRIVER_HPP
#define VERIF_C20_DRIVER_HPP

#include <cstdio>
#include <cstdlib>
#include <cstring>
#include <exception>
#include <string>
#include <vector>

// race pass (engines/gpuemu/race_runtime.cpp): present only in the executable whose device TUs are TSan-instrumented
extern "C" {
  void gpuemu_race_reset() __attribute__((weak));
  void gpuemu_race_add_range(const char *name, const void *ptr, size_t bytes) __attribute__((weak));
  const char* gpuemu_race_report() __attribute__((weak));
  size_t gpuemu_race_accesses() __attribute__((weak));
}

namespace c20 {
  const int SENTINEL = -777777;

  struct ArraySpec {
    const char *name;
    int kind;        // 0 = input (const), 1 = output starting as SENTINEL, 2 = counter starting as 0
    int coef, fixed; // length = coef * N + fixed
  };

  struct Data {
    int N, M;
    float w;
    std::vector<int*> arr;
    std::vector<size_t> len;
  };

  inline int inputValue(int which, int k) {
    return which == 0 ? (3 * k + 1 + (k % 5)) : (1000 + 7 * k - (k % 3));
  }

  inline void allocate(Data &d, int N, const ArraySpec *specs, int nspecs) {
    d.N = N;
    d.M = 5;
    d.w = 2.5f;
    int inputs = 0;
    for (int s = 0; s < nspecs; ++s) {
      const size_t n = (size_t) (specs[s].coef * N + specs[s].fixed);
      int *p = (int*) std::malloc(n * sizeof(int));
      for (size_t k = 0; k < n; ++k) {
        p[k] = specs[s].kind == 0 ? inputValue(inputs, (int) k) : (specs[s].kind == 1 ? SENTINEL : 0);
      }
      inputs += (specs[s].kind == 0);
      d.arr.push_back(p);
      d.len.push_back(n);
    }
  }

  inline void release(Data &d) {
    for (size_t i = 0; i < d.arr.size(); ++i) std::free(d.arr[i]);
    d.arr.clear();
    d.len.clear();
  }

  typedef void (*RunFn)(Data &d);

  struct Backend {
    const char *name;
    RunFn run;
    bool launched;     // runs under gpuemu: executed once per work-item order (ascending, descending)
  };

  // switches the order in which gpuemu runs the work-items of a group; defined in the generated TU
  void setItemOrder(bool descending);

  // returns true when equal; otherwise detail describes the first difference and the number of differing cells
  inline bool compare(const Data &got, const Data &want, const ArraySpec *specs, std::string &detail) {
    size_t bad = 0;
    std::string first;
    const char *cls = "";
    for (size_t a = 0; a < got.arr.size(); ++a) {
      for (size_t k = 0; k < got.len[a]; ++k) {
        if (got.arr[a][k] != want.arr[a][k]) {
          if (!bad) {
            char buf[200];
            std::snprintf(buf, sizeof(buf), "%s[%zu] = %d, sequential reading gives %d", specs[a].name, k, got.arr[a][k], want.arr[a][k]);
            first = buf;
            cls = specs[a].kind == 0 ? "input-modified" : (specs[a].kind == 2 ? "counter" : (got.arr[a][k] == SENTINEL ? "missing" : "value"));
          }
          ++bad;
        }
      }
    }
    if (!bad) return true;
    detail = std::string(cls) + " | " + first + " (" + std::to_string(bad) + " cell(s) differ)";
    return false;
  }

  inline std::string oneLine(const std::string &s) {
    std::string r = s;
    for (size_t i = 0; i < r.size(); ++i) if (r[i] == '\n' || r[i] == '\r') r[i] = ' ';
    return r.substr(0, 400);
  }

  // describes exceptions of the emulator / the OCCA runtime; defined in the generated TU (needs their headers)
  std::string describeException();

  struct ProgramEntry {
    const char *name;
    const Backend *backends;
    int nbackends;
    RunFn reference;
    const ArraySpec *specs;
    int nspecs;
  };

  inline int drive(int argc, char **argv, const Backend *backends, int nbackends, RunFn reference,
                   const ArraySpec *specs, int nspecs);

  // exe <program> <backend|all> [N]
  inline int driveChunk(int argc, char **argv, const ProgramEntry *programs, int nprograms) {
    if (argc < 3) {
      std::fprintf(stderr, "usage: exe <program> <backend|all> [N]\n");
      return 2;
    }
    for (int i = 0; i < nprograms; ++i) {
      if (!std::strcmp(programs[i].name, argv[1])) {
        return drive(argc - 1, argv + 1, programs[i].backends, programs[i].nbackends, programs[i].reference,
                     programs[i].specs, programs[i].nspecs);
      }
    }
    std::printf("NOPROGRAM %s\n", argv[1]);
    return 3;
  }

  inline int drive(int argc, char **argv, const Backend *backends, int nbackends, RunFn reference,
                   const ArraySpec *specs, int nspecs) {
    if (argc < 2) {
      std::fprintf(stderr, "usage: exe <program> <backend|all> [N]\n");
      return 2;
    }
    // exe all            every backend (launched ones in both work-item orders), every N
    // exe <backend> [N]   one backend; work-item order from the environment (GPUEMU_ITEM_ORDER)
    const bool all = !std::strcmp(argv[1], "all");
    std::vector<int> ns;
    if (argc > 2) ns.push_back(std::atoi(argv[2]));
    else { ns.push_back(0); ns.push_back(1); ns.push_back(3); ns.push_back(4); }
    bool found = false;
    for (int bi = 0; bi < nbackends; ++bi) {
      const Backend *b = &backends[bi];
      if (!all && std::strcmp(b->name, argv[1])) continue;
      found = true;
      for (int order = 0; order < ((all && b->launched && !gpuemu_race_report) ? 2 : 1); ++order) {
        if (all) setItemOrder(order == 1);
        const std::string label = std::string(b->name) + ((all && order == 1) ? "@desc" : "");
        for (size_t t = 0; t < ns.size(); ++t) {
          const int N = ns[t];
          if (all && gpuemu_race_report && !b->launched) continue;      // the race pass only concerns device code
          std::printf("BEGIN %s %d\n", label.c_str(), N);
          std::fflush(stdout);
          Data want, got;
          allocate(want, N, specs, nspecs);
          allocate(got, N, specs, nspecs);
          reference(want);
          size_t written = 0, cells = 0;
          for (int s = 0; s < nspecs; ++s) {
            if (specs[s].kind == 0) continue;
            for (size_t k = 0; k < want.len[s]; ++k) {
              ++cells;
              written += (want.arr[s][k] != (specs[s].kind == 1 ? SENTINEL : 0));
            }
          }
          std::string status = "ok", detail;
          if (gpuemu_race_reset) {
            gpuemu_race_reset();
            for (int s = 0; s < nspecs; ++s) gpuemu_race_add_range(specs[s].name, got.arr[s], got.len[s] * sizeof(int));
          }
          try {
            b->run(got);
            if (!compare(got, want, specs, detail)) status = "differ";
          } catch (...) {
            detail = describeException();
            status = detail.compare(0, 6, "gpuemu") == 0 ? "launch-error" : "exception";
          }
          if (gpuemu_race_report) {
            const std::string races = gpuemu_race_report();
            std::printf("M %s %d monitored_accesses=%zu\n", label.c_str(), N, gpuemu_race_accesses());
            if (!races.empty() && status == "ok") {
              status = "race";
              detail = races;
            }
          }
          std::printf("R %s %d %s cells=%zu written=%zu | %s\n", label.c_str(), N, status.c_str(), cells, written, oneLine(detail).c_str());
          release(want);
          release(got);
          std::printf("END %s %d\n", label.c_str(), N);
          std::fflush(stdout);
        }
      }
    }
    if (!found) {
      std::printf("NOBACKEND %s\n", argv[1]);
      return 3;
    }
    std::printf("DONE\n");
    return 0;
  }
}

#endif
