// C20 harness support (generic part of the generated per-program main TU).
//
// One executable per program.  `exe <backend> [N]` runs the backend for N in {0,1,3,4} (or the given N):
//   BEGIN <N>
//   R <backend> <N> ok|differ|launch-error|exception  <detail>
//   END <N>
// Arrays are exact-size malloc blocks (ASan red zones on both sides; a zero-length array is a malloc(0)
// block, every access to it is reported).  Inputs are index patterns, outputs start as a sentinel, counters
// as 0.  The reference (sequential reading, plain C++) runs on its own copies.
#ifndef VERIF_C20_DRIVER_HPP
#define VERIF_C20_DRIVER_HPP

#include <cstdio>
#include <cstdlib>
#include <cstring>
#include <exception>
#include <string>
#include <vector>

namespace c20 {
  const int SENTINEL = -777777;

  struct ArraySpec {
    const char *name;
    int kind;        // 0 = input (const), 1 = output starting as SENTINEL, 2 = counter starting as 0
    int coef, fixed; // length = coef * N + fixed
  };

  struct Data {
    int N, M;
    float w;
    std::vector<int*> arr;
    std::vector<size_t> len;
  };

  inline int inputValue(int which, int k) {
    return which == 0 ? (3 * k + 1 + (k % 5)) : (1000 + 7 * k - (k % 3));
  }

  inline void allocate(Data &d, int N, const ArraySpec *specs, int nspecs) {
    d.N = N;
    d.M = 5;
    d.w = 2.5f;
    int inputs = 0;
    for (int s = 0; s < nspecs; ++s) {
      const size_t n = (size_t) (specs[s].coef * N + specs[s].fixed);
      int *p = (int*) std::malloc(n * sizeof(int));
      for (size_t k = 0; k < n; ++k) {
        p[k] = specs[s].kind == 0 ? inputValue(inputs, (int) k) : (specs[s].kind == 1 ? SENTINEL : 0);
      }
      inputs += (specs[s].kind == 0);
      d.arr.push_back(p);
      d.len.push_back(n);
    }
  }

  inline void release(Data &d) {
    for (size_t i = 0; i < d.arr.size(); ++i) std::free(d.arr[i]);
    d.arr.clear();
    d.len.clear();
  }

  typedef void (*RunFn)(Data &d);

  struct Backend {
    const char *name;
    RunFn run;
  };

  // returns true when equal; otherwise detail describes the first difference and the number of differing cells
  inline bool compare(const Data &got, const Data &want, const ArraySpec *specs, std::string &detail) {
    size_t bad = 0;
    std::string first;
    const char *cls = "";
    for (size_t a = 0; a < got.arr.size(); ++a) {
      for (size_t k = 0; k < got.len[a]; ++k) {
        if (got.arr[a][k] != want.arr[a][k]) {
          if (!bad) {
            char buf[200];
            std::snprintf(buf, sizeof(buf), "%s[%zu] = %d, sequential reading gives %d", specs[a].name, k, got.arr[a][k], want.arr[a][k]);
            first = buf;
            cls = specs[a].kind == 0 ? "input-modified" : (specs[a].kind == 2 ? "counter" : (got.arr[a][k] == SENTINEL ? "missing" : "value"));
          }
          ++bad;
        }
      }
    }
    if (!bad) return true;
    detail = std::string(cls) + " | " + first + " (" + std::to_string(bad) + " cell(s) differ)";
    return false;
  }

  inline std::string oneLine(const std::string &s) {
    std::string r = s;
    for (size_t i = 0; i < r.size(); ++i) if (r[i] == '\n' || r[i] == '\r') r[i] = ' ';
    return r.substr(0, 400);
  }

  // describes exceptions of the emulator / the OCCA runtime; defined in the generated TU (needs their headers)
  std::string describeException();

  inline int drive(int argc, char **argv, const Backend *backends, int nbackends, RunFn reference,
                   const ArraySpec *specs, int nspecs) {
    if (argc < 2) {
      std::fprintf(stderr, "usage: exe <backend> [N]\n");
      return 2;
    }
    const Backend *b = 0;
    for (int i = 0; i < nbackends; ++i) if (!std::strcmp(backends[i].name, argv[1])) b = &backends[i];
    if (!b) {
      std::printf("NOBACKEND %s\n", argv[1]);
      return 3;
    }
    std::vector<int> ns;
    if (argc > 2) ns.push_back(std::atoi(argv[2]));
    else { ns.push_back(0); ns.push_back(1); ns.push_back(3); ns.push_back(4); }
    for (size_t t = 0; t < ns.size(); ++t) {
      const int N = ns[t];
      std::printf("BEGIN %d\n", N);
      std::fflush(stdout);
      Data want, got;
      allocate(want, N, specs, nspecs);
      allocate(got, N, specs, nspecs);
      reference(want);
      size_t written = 0, cells = 0;
      for (int s = 0; s < nspecs; ++s) {
        if (specs[s].kind == 0) continue;
        for (size_t k = 0; k < want.len[s]; ++k) {
          ++cells;
          written += (want.arr[s][k] != (specs[s].kind == 1 ? SENTINEL : 0));
        }
      }
      std::string status = "ok", detail;
      try {
        b->run(got);
        if (!compare(got, want, specs, detail)) status = "differ";
      } catch (...) {
        detail = describeException();
        status = detail.compare(0, 6, "gpuemu") == 0 ? "launch-error" : "exception";
      }
      std::printf("R %s %d %s cells=%zu written=%zu | %s\n", b->name, N, status.c_str(), cells, written, oneLine(detail).c_str());
      release(want);
      release(got);
      std::printf("END %d\n", N);
      std::fflush(stdout);
    }
    return 0;
  }
}

#endif
