#!/usr/bin/env python3
"""C08: a crash at any point of a kernel build never poisons the cache (E3 fsx, kill-point enumeration)."""
import json, os, shutil, sys, time
from itertools import zip_longest
from concurrent.futures import ThreadPoolExecutor
sys.path.insert(0, os.path.dirname(os.path.dirname(os.path.dirname(os.path.abspath(__file__)))))
from vlib.core import Check, load_replay, NCPU
from vlib import fsx
import threading
RETRY_LOCK = threading.Lock()

KERNEL_FILE = '''#include "a.h"
@kernel void k(int *out) {
  for (int o = 0; o < 2; ++o; @outer) {
    for (int i = 0; i < 2; ++i; @inner) {
      out[2 * o + i] = VA + 10 * o + i;
    }
  }
}
'''
HEADER = "#define VA 7\n"
KERNEL_STRING = "@kernel void k(int *out) { for (int o = 0; o < 2; ++o; @outer) { for (int i = 0; i < 2; ++i; @inner) { out[2 * o + i] = 100 + 10 * o + i; } } }"
EXPECT = {"file": [7, 8, 17, 18], "string": [100, 101, 110, 111]}

MUTATING = ("write", "writev", "rename", "mkdir", "rmdir", "unlink", "truncate", "ftruncate", "spawn", "wait", "fsync")


def is_mutating(op):
    if op["name"] in MUTATING:
        return True
    if op["name"] == "open":
        fl = int(op["flags"])
        return bool(fl & (os.O_WRONLY | os.O_RDWR | os.O_CREAT | os.O_TRUNC))
    if op["name"] == "close":
        return False
    return False


def main():
    c = Check("C08", "fault_enumeration")
    pfs, kprobe = fsx.build_tools(c, "rel")
    src = os.path.join(c.scratch, "src")
    os.makedirs(src)
    open(os.path.join(src, "k.okl"), "w").write(KERNEL_FILE)
    open(os.path.join(src, "a.h"), "w").write(HEADER)

    def spec_for(kind, mode, name):
        b = {"kernel": "k", "nout": 4, "argcheck": True}
        if kind == "file":
            b["file"] = os.path.join(src, "k.okl")
        else:
            b["string"] = KERNEL_STRING
        return fsx.write_spec(os.path.join(c.scratch, name + ".json"), mode, [b])

    def good(kind, pr):
        # correct output AND the loaded kernel still validates its argument list (an entry with a binary but
        # without its build file is an incomplete entry treated as complete)
        return pr.rc == 0 and pr.results.get(0) == EXPECT[kind] and not pr.timed_out and pr.argcheck.get(0) == 1

    # --- replay one kill point -------------------------------------------------
    def kill_run(scn, spec, pre, k, torn, grp, tag):
        """returns (killed, follow-up ProbeResult, third ProbeResult, description)"""
        cache = os.path.join(c.scratch, "run-" + tag)
        shutil.rmtree(cache, ignore_errors=True)
        if pre:
            shutil.copytree(pre, cache)
        else:
            os.makedirs(cache)
        env = fsx.base_env(cache)
        args = [pfs, "--root", cache, "--wait-orphans"] + (["--group"] if grp else []) + (["--torn", str(k)] if torn else ["--kill-before", str(k)]) + ["--"]
        r1 = fsx.run_probe(kprobe, spec, env, timeout=300, prefix=args, cwd=src)
        if r1.timed_out:
            # load-induced: re-run this deterministic kill point alone with a longer limit
            with RETRY_LOCK:
                shutil.rmtree(cache, ignore_errors=True)
                if pre:
                    shutil.copytree(pre, cache)
                else:
                    os.makedirs(cache)
                r1 = fsx.run_probe(kprobe, spec, env, timeout=1200, prefix=args, cwd=src)
        killed = (r1.rc == 137)
        listing = fsx.list_cache(cache)
        r2 = fsx.run_probe(kprobe, spec, env, timeout=600, cwd=src)
        r3 = fsx.run_probe(kprobe, spec, env, timeout=600, cwd=src) if r2.rc == 0 else None
        if not c.args.keep:
            shutil.rmtree(cache, ignore_errors=True)
        return killed, r1, r2, r3, listing

    if c.args.replay:
        r = load_replay(c.args.replay)["replay"]
        spec = spec_for(r["kind"], r["mode"], "replay")
        pre = None
        if r["pre"] == "vendor":
            pre = make_vendor_pre(c, kprobe, r["mode"])
        killed, r1, r2, r3, listing = kill_run(None, spec, pre, r["k"], r["torn"], r["group"], "replay")
        print("killed:", killed, "| crashed run:", r1.summary(), "| cache after kill:", listing)
        print("follow-up:", r2.summary(), r2.results, "| third:", r3.summary() if r3 else None)
        bad = not good(r["kind"], r2) or (r3 is not None and not good(r["kind"], r3))
        print("replay:", "VIOLATION" if bad else "ok")
        sys.exit(1 if bad else 0)

    deadline = c.t0 + c.budget(300, 1800)
    scenarios = []
    modes = ["Serial", "OpenMP"]
    for mode in modes:
        for kind in ("file", "string"):
            for pre in ("empty", "vendor"):
                scenarios.append((kind, mode, pre))
    if c.tier == "quick":
        # quick: 5 of the 8 scenarios, kills before mutating ops only (exact reduction, see level_note)
        scenarios = [s for s in scenarios if s[1] == "Serial" or s == ("file", "OpenMP", "empty")]

    evaluations = 0
    outcomes = {}
    kill_points_total = 0
    samples = []
    ops_total = 0
    incomplete = []
    jobs = []
    pre_dirs = {}
    ref_ops = {}
    for (kind, mode, pre) in scenarios:
        name = "%s-%s-%s" % (kind, mode, pre)
        spec = spec_for(kind, mode, name)
        if pre == "vendor":
            if mode not in pre_dirs:
                pre_dirs[mode] = make_vendor_pre(c, kprobe, mode)
            predir = pre_dirs[mode]
        else:
            predir = None
        # reference (traced, uninterrupted) run
        cache = os.path.join(c.scratch, "ref-" + name)
        if predir:
            shutil.copytree(predir, cache)
        else:
            os.makedirs(cache)
        tr = os.path.join(c.scratch, "trace-" + name + ".txt")
        r = fsx.run_probe(kprobe, spec, fsx.base_env(cache), timeout=120, prefix=[pfs, "--root", cache, "--trace", tr, "--"], cwd=src)
        if not good(kind, r):
            c.violation("uninterrupted-build-fails:%s:%s" % (kind, mode), r.summary() + " " + str(r.results), {"kind": kind, "mode": mode, "pre": pre, "k": 10 ** 9, "torn": False, "group": False})
            continue
        ops = fsx.read_trace(tr)
        ref_ops[name] = ops
        ops_total += len(ops)
        if c.tier == "quick":
            ks = [o["idx"] for o in ops if is_mutating(o)]
        else:
            ks = [o["idx"] for o in ops]
        ks.append(len(ops))   # after the last operation (process killed at exit)
        for k in ks:
            jobs.append((name, kind, mode, pre, spec, predir, k, False, False))
        for o in ops:
            if o["name"] == "write" and int(o["ret"]) > 1:
                jobs.append((name, kind, mode, pre, spec, predir, o["idx"], True, False))
        # the compiler child is killed together with its parent (partial temp output) - group kill at 'wait'
        for o in ops:
            if o["name"] == "wait":
                jobs.append((name, kind, mode, pre, spec, predir, o["idx"], False, True))
        shutil.rmtree(cache, ignore_errors=True)

    # round-robin over scenarios so that a budget cut removes kill points evenly, not whole scenarios
    byscn = {}
    for j in jobs:
        byscn.setdefault(j[0], []).append(j)
    jobs = [j for group in zip_longest(*byscn.values()) for j in group if j is not None]

    def work(ji):
        if time.time() > deadline:
            return None
        name, kind, mode, pre, spec, predir, k, torn, grp = jobs[ji]
        return kill_run(name, spec, predir, k, torn, grp, "j%d" % ji)

    done = 0
    with ThreadPoolExecutor(max_workers=NCPU) as ex:
        for ji, res in enumerate(ex.map(work, range(len(jobs)))):
            name, kind, mode, pre, spec, predir, k, torn, grp = jobs[ji]
            if res is None:
                incomplete.append(ji)
                continue
            done += 1
            killed, r1, r2, r3, listing = res
            evaluations += 1
            ops = ref_ops[name]
            opdesc = ("%s %s" % (ops[k]["name"], fsx.canon_path(ops[k]["path"], "")[-60:])) if k < len(ops) else "exit"
            opname = ops[k]["name"] if k < len(ops) else "exit"
            base = os.path.basename(fsx.canon_path(ops[k]["path"], "")) if k < len(ops) and ops[k]["path"] != "-" else "-"
            how = "torn" if torn else ("group-kill" if grp else "kill-before")
            if not killed and k < len(ops):
                # the run diverged from the reference trace (fewer ops): not a verdict about libocca
                c.harness_error("kill point %d of %s was not reached (run exited %s): trace is not deterministic" % (k, name, r1.summary()))
            cls = "ok"
            rep = {"kind": kind, "mode": mode, "pre": pre, "k": k, "torn": torn, "group": grp, "op": opdesc}
            if not good(kind, r2):
                cls = "recovery-failed"
                c.violation("recovery-failed:%s:%s:%s" % (how, opname, base),
                            "%s: killed (%s) at op %d [%s]; follow-up build: %s results=%s rejects-wrong-argument-count=%s; cache after kill: %s" % (name, how, k, opdesc, r2.summary(), r2.results.get(0), r2.argcheck.get(0), listing[:12]), rep)
            elif r3 is not None and not good(kind, r3):
                cls = "third-run-failed"
                c.violation("later-build-failed:%s:%s:%s" % (how, opname, base),
                            "%s: killed (%s) at op %d [%s]; follow-up ok, next build: %s" % (name, how, k, opdesc, r3.summary()), rep)
            key = (cls, tuple(sorted(set(p for p, _ in listing))))
            outcomes[key] = outcomes.get(key, 0) + 1
            if len(samples) < 6 and ji % max(1, len(jobs) // 6) == 0:
                samples.append({"scenario": name, "kill": how, "op_index": k, "op": opdesc, "files_after_kill": [p for p, _ in listing][:10], "follow_up": r2.summary()})
    exhaustive = not incomplete
    c.vacuity(len(outcomes) >= 5 or not exhaustive, "fewer than 5 distinct (verdict, cache-state) outcomes: kill points do not bite")
    c.set_exploration(
        evaluations=evaluations, distinct_nontrivial=len(outcomes),
        rule="one evaluation = (scenario, kill point): the building process is SIGKILLed immediately before its k-th file-system operation (ptrace, root process), or after half of a write (torn), or together with its compiler child; then a fresh process builds+runs the same kernel on the same cache, then a third. Distinct = distinct (verdict, set of files left in the cache by the kill).",
        samples=samples, exhaustive=exhaustive,
        scenarios=len(scenarios), kill_points=len(jobs), kill_points_done=done, ops_in_reference_traces=ops_total,
        tier_rule=("kills before every state-changing operation + after the last op (a kill before a non-mutating op leaves the same file-system state as the kill before the next mutating op)" if c.tier == "quick" else "kills before every traced operation (validates the quick-tier reduction)"),
        explanation="crash = process death (page cache survives); power loss is out of scope")
    c.assumptions += ["crash model = SIGKILL of the building process (and optionally its compiler child); no power-loss reordering",
                      "operations = system calls of the root process on paths under the cache dir + spawn/wait (ptrace)",
                      "follow-up runs are untraced fresh processes with the same environment"]
    c.finish()


def make_vendor_pre(c, kprobe, mode):
    """cache state in which only the compiler-vendor detection is complete."""
    d = os.path.join(c.scratch, "pre-vendor-" + mode)
    if os.path.exists(d):
        return d
    os.makedirs(d)
    spec = fsx.write_spec(os.path.join(c.scratch, "pre-%s.json" % mode), mode,
                          [{"string": "@kernel void z(int *out) { for (int o = 0; o < 1; ++o; @outer) { for (int i = 0; i < 1; ++i; @inner) { out[0] = 1; } } }", "kernel": "z", "nout": 1}])
    r = fsx.run_probe(kprobe, spec, fsx.base_env(d), timeout=120)
    if r.rc != 0:
        c.harness_error("cannot prepare vendor-complete cache: " + r.summary() + r.err[-500:])
    # keep only the vendor-detection directory (the one containing 'output')
    root = os.path.join(d, "cache")
    for h in os.listdir(root):
        if not os.path.exists(os.path.join(root, h, "output")):
            shutil.rmtree(os.path.join(root, h))
    return d


from vlib.core import run_main
run_main(main)
