// C29: C API values keep their value and type through conversions.
//
// Batch driver (vlib.batch protocol), uses ONLY the C API on the side under test (plus occa::c::kernelArg, the
// kernel-argument conversion named by the property) and a boring reference on the other side (the C value itself,
// a small tree struct, a std::map / std::vector model for histories).
// Items:
//   V <ctor> <hexbits>        one scalar constructor at one value (bits = two's complement / IEEE bits)
//   S <hex bytes>             one C string
//   N                         null
//   T <tree>                  nested JSON value, prefix notation (see parseTree), built through the API and through text
//   H <op>.<op>...            history of set/get/use/free operations (see runHistory)
//   P <kind> <hex text>       a whole document given to occaJsonParse (bare scalars and null included)
//   W                         warm-up: builds the echo kernels (fills the cache before the parallel run)
// Result lines:  F <signature>\t<detail>   violation of an oracle clause
//                R <text>                  outcome summary (for distinct-outcome counting)
#include <cmath>
#include <cstdio>
#include <cstdlib>
#include <cstring>
#include <cstdint>
#include <fstream>
#include <map>
#include <sstream>
#include <string>
#include <vector>

#include <occa.h>
#include <occa.hpp>
#include <occa/internal/c/types.hpp>

static std::string CUR;     // item text, for details
static int NFAIL = 0;
static bool QUIET = false;  // repeated executions of an item (leak measurement) print nothing
static void fail(const std::string &sig, const std::string &detail) {
  ++NFAIL;
  if (QUIET) return;
  std::string d = detail;
  for (char &ch : d) if (ch == '\n' || ch == '\t') ch = ' ';
  printf("F %s\t%s\n", sig.c_str(), d.c_str());
}
struct SSBuilder {
  std::ostringstream os;
  template <class T> SSBuilder& operator << (const T &v) { os << v; return *this; }
  SSBuilder& operator << (std::ios_base& (*f)(std::ios_base&)) { os << f; return *this; }
  std::string str() const { return os.str(); }
};
#define SS(x) ((SSBuilder() << x).str())

//---[ scalar constructors ]-------------------------------------------------------------------------------------
enum Kind { KBOOL, KSINT, KUINT, KFLOAT, KDOUBLE };
struct Ctor {
  const char *name; Kind kind; int width; const int *tag; const char *kernel;
};
static const Ctor CTORS[] = {
  {"Bool",   KBOOL,   1, &OCCA_BOOL,   "echo_bool"},
  {"Int8",   KSINT,   1, &OCCA_INT8,   "echo_char"},
  {"UInt8",  KUINT,   1, &OCCA_UINT8,  "echo_uchar"},
  {"Int16",  KSINT,   2, &OCCA_INT16,  "echo_short"},
  {"UInt16", KUINT,   2, &OCCA_UINT16, "echo_ushort"},
  {"Int32",  KSINT,   4, &OCCA_INT32,  "echo_int"},
  {"UInt32", KUINT,   4, &OCCA_UINT32, "echo_uint"},
  {"Int64",  KSINT,   8, &OCCA_INT64,  "echo_long"},
  {"UInt64", KUINT,   8, &OCCA_UINT64, "echo_ulong"},
  {"Char",   KSINT,   1, &OCCA_INT8,   "echo_char"},
  {"UChar",  KUINT,   1, &OCCA_UINT8,  "echo_uchar"},
  {"Short",  KSINT,   2, &OCCA_INT16,  "echo_short"},
  {"UShort", KUINT,   2, &OCCA_UINT16, "echo_ushort"},
  {"Int",    KSINT,   4, &OCCA_INT32,  "echo_int"},
  {"UInt",   KUINT,   4, &OCCA_UINT32, "echo_uint"},
  {"Long",   KSINT,   8, &OCCA_INT64,  "echo_long"},
  {"ULong",  KUINT,   8, &OCCA_UINT64, "echo_ulong"},
  {"Float",  KFLOAT,  4, &OCCA_FLOAT,  "echo_float"},
  {"Double", KDOUBLE, 8, &OCCA_DOUBLE, "echo_double"},
};
static const int NCTORS = sizeof(CTORS) / sizeof(CTORS[0]);

static uint64_t maskBits(uint64_t bits, int width) {
  return width == 8 ? bits : (bits & ((1ULL << (8 * width)) - 1));
}

static occaType construct(int c, uint64_t bits) {
  float f; double d;
  uint32_t b32 = (uint32_t) bits;
  memcpy(&f, &b32, 4);
  memcpy(&d, &bits, 8);
  switch (c) {
  case 0:  return occaBool(bits != 0);
  case 1:  return occaInt8((int8_t) bits);
  case 2:  return occaUInt8((uint8_t) bits);
  case 3:  return occaInt16((int16_t) bits);
  case 4:  return occaUInt16((uint16_t) bits);
  case 5:  return occaInt32((int32_t) bits);
  case 6:  return occaUInt32((uint32_t) bits);
  case 7:  return occaInt64((int64_t) bits);
  case 8:  return occaUInt64((uint64_t) bits);
  case 9:  return occaChar((char) (int8_t) bits);
  case 10: return occaUChar((unsigned char) bits);
  case 11: return occaShort((short) bits);
  case 12: return occaUShort((unsigned short) bits);
  case 13: return occaInt((int) bits);
  case 14: return occaUInt((unsigned int) bits);
  case 15: return occaLong((long) bits);
  case 16: return occaULong((unsigned long) bits);
  case 17: return occaFloat(f);
  case 18: return occaDouble(d);
  }
  return occaUndefined;
}

// raw bits stored in the union for a given tag (width bytes), or ~0 with ok=false for a non-scalar tag
static uint64_t readBits(const occaType &t, int &width, bool &ok) {
  ok = true;
  if (t.type == OCCA_BOOL || t.type == OCCA_INT8 || t.type == OCCA_UINT8) { width = 1; return t.value.uint8_; }
  if (t.type == OCCA_INT16 || t.type == OCCA_UINT16) { width = 2; return t.value.uint16_; }
  if (t.type == OCCA_INT32 || t.type == OCCA_UINT32) { width = 4; return t.value.uint32_; }
  if (t.type == OCCA_INT64 || t.type == OCCA_UINT64) { width = 8; return t.value.uint64_; }
  if (t.type == OCCA_FLOAT) { width = 4; uint32_t b; memcpy(&b, &t.value.float_, 4); return b; }
  if (t.type == OCCA_DOUBLE) { width = 8; uint64_t b; memcpy(&b, &t.value.double_, 8); return b; }
  ok = false; width = 0;
  return ~0ULL;
}

static std::string tagName(int tag) {
  if (tag == OCCA_BOOL) return "bool";
  if (tag == OCCA_INT8) return "int8";   if (tag == OCCA_UINT8) return "uint8";
  if (tag == OCCA_INT16) return "int16"; if (tag == OCCA_UINT16) return "uint16";
  if (tag == OCCA_INT32) return "int32"; if (tag == OCCA_UINT32) return "uint32";
  if (tag == OCCA_INT64) return "int64"; if (tag == OCCA_UINT64) return "uint64";
  if (tag == OCCA_FLOAT) return "float"; if (tag == OCCA_DOUBLE) return "double";
  if (tag == OCCA_JSON) return "json";   if (tag == OCCA_NULL) return "null";
  if (tag == OCCA_STRING) return "string"; if (tag == OCCA_UNDEFINED) return "undefined";
  if (tag == OCCA_PTR) return "ptr";
  return SS("tag" << tag);
}

// clause "same value and same C type": tag, byte count and stored bits
static bool checkScalar(const occaType &t, int tag, int width, uint64_t bits, const std::string &path, const std::string &tn) {
  if (occaIsUndefined(t)) {
    fail("undefined-result:" + path + ":" + tn, SS(CUR << " :: " << path << " returned an undefined occaType"));
    return false;
  }
  if (t.type != tag) {
    fail("type-tag:" + path + ":" + tn, SS(CUR << " :: " << path << " has type " << tagName(t.type) << ", expected " << tagName(tag)));
    return false;
  }
  int w; bool ok;
  uint64_t got = readBits(t, w, ok);
  bool good = true;
  if ((int) t.bytes != width) {
    fail("bytes:" + path + ":" + tn, SS(CUR << " :: " << path << " has bytes=" << t.bytes << ", expected " << width));
    good = false;
  }
  if (maskBits(got, width) != maskBits(bits, width)) {
    fail("value:" + path + ":" + tn, SS(CUR << " :: " << path << " holds bits 0x" << std::hex << maskBits(got, width) << ", expected 0x" << maskBits(bits, width)));
    good = false;
  }
  return good;
}

// numeric value of (kind,width,bits) as long double (exact for every C scalar here)
static long double numeric(Kind k, int width, uint64_t bits) {
  switch (k) {
  case KBOOL: return bits ? 1.0L : 0.0L;
  case KUINT: return (long double) maskBits(bits, width);
  case KSINT: {
    int64_t v = (width == 1) ? (int64_t)(int8_t) bits : (width == 2) ? (int64_t)(int16_t) bits : (width == 4) ? (int64_t)(int32_t) bits : (int64_t) bits;
    return (long double) v;
  }
  case KFLOAT: { float f; uint32_t b = (uint32_t) bits; memcpy(&f, &b, 4); return (long double) f; }
  case KDOUBLE: { double d; memcpy(&d, &bits, 8); return (long double) d; }
  }
  return 0;
}

struct Target { const char *name; Kind kind; int width; const int *tag; };
static const Target TARGETS[] = {
  {"int8", KSINT, 1, &OCCA_INT8}, {"uint8", KUINT, 1, &OCCA_UINT8}, {"int16", KSINT, 2, &OCCA_INT16}, {"uint16", KUINT, 2, &OCCA_UINT16},
  {"int32", KSINT, 4, &OCCA_INT32}, {"uint32", KUINT, 4, &OCCA_UINT32}, {"int64", KSINT, 8, &OCCA_INT64}, {"uint64", KUINT, 8, &OCCA_UINT64},
  {"float", KFLOAT, 4, &OCCA_FLOAT}, {"double", KDOUBLE, 8, &OCCA_DOUBLE},
};

// is x exactly representable in the target? if so give its bits
static bool representable(long double x, const Target &t, uint64_t &bits) {
  if (t.kind == KFLOAT) { float f = (float) x; if ((long double) f != x) return false; uint32_t b; memcpy(&b, &f, 4); bits = b; return true; }
  if (t.kind == KDOUBLE) { double d = (double) x; if ((long double) d != x) return false; memcpy(&bits, &d, 8); return true; }
  if (x != floorl(x)) return false;
  if (t.kind == KSINT) {
    long double lo = -ldexpl(1.0L, 8 * t.width - 1), hi = ldexpl(1.0L, 8 * t.width - 1) - 1;
    if (x < lo || x > hi) return false;
    bits = maskBits((uint64_t)(int64_t) x, t.width);
    return true;
  }
  long double hi = ldexpl(1.0L, 8 * t.width) - 1;
  if (x < 0 || x > hi) return false;
  bits = maskBits((uint64_t) x, t.width);
  return true;
}

//---[ echo kernels ]--------------------------------------------------------------------------------------------
static const char *KERNEL_SRC =
  "#define ECHO(NAME, T) @kernel void NAME(const T v, T *out) { for (int i = 0; i < 1; ++i; @tile(1, @outer, @inner)) { out[i] = v; } }\n"
  "ECHO(echo_char, char)\nECHO(echo_uchar, unsigned char)\nECHO(echo_short, short)\nECHO(echo_ushort, unsigned short)\n"
  "ECHO(echo_int, int)\nECHO(echo_uint, unsigned int)\nECHO(echo_long, long)\nECHO(echo_ulong, unsigned long)\n"
  "ECHO(echo_float, float)\nECHO(echo_double, double)\nECHO(echo_bool, bool)\n"
  "@kernel void echo_null(const int *p, int *out) { for (int i = 0; i < 1; ++i; @tile(1, @outer, @inner)) { out[i] = (p == 0) ? 1 : 2; } }\n";

static occaDevice DEV;
static bool DEV_READY = false;
static std::map<std::string, occaKernel> KERNELS;

static occaDevice device() {
  if (!DEV_READY) {
    DEV = occaCreateDeviceFromString("{mode: 'Serial'}");
    DEV_READY = true;
  }
  return DEV;
}

static occaKernel kernelFor(const std::string &name) {
  std::map<std::string, occaKernel>::iterator it = KERNELS.find(name);
  if (it != KERNELS.end()) return it->second;
  occaJson props = occaJsonParse("{compiler_flags: '-O0 -g0'}");
  occaKernel k = occaDeviceBuildKernelFromString(device(), KERNEL_SRC, name.c_str(), props);
  occaFree(&props);
  KERNELS[name] = k;
  return k;
}

// runs the echo kernel through one of three C entry points; returns the 8 bytes the kernel wrote
static uint64_t runEcho(const std::string &kname, occaType arg, int route) {
  occaKernel k = kernelFor(kname);
  uint64_t init = 0xa5a5a5a5a5a5a5a5ULL, out = 0;
  occaMemory m = occaDeviceMalloc(device(), 8, &init, occaDefault);
  if (route == 0) {
    occaType args[2] = {arg, m};
    occaKernelRunWithArgs(k, 2, args);
  } else if (route == 1) {
    occaKernelRunN(k, 2, arg, m);
  } else {
    occaKernelClearArgs(k);
    occaKernelPushArg(k, arg);
    occaKernelPushArg(k, m);
    occaKernelRunFromArgs(k);
  }
  occaCopyMemToPtr(&out, m, 8, 0, occaDefault);
  occaFree(&m);
  return out;
}

//---[ V items ]-------------------------------------------------------------------------------------------------
static void checkNumberHandle(occaType g, const Ctor &C, uint64_t bits, const std::string &path) {
  const std::string tn = C.name;
  const int tag = *C.tag;
  if (g.type != OCCA_JSON) {
    fail("type-tag:" + path + ":" + tn, SS(CUR << " :: " << path << " returned type " << tagName(g.type) << ", expected a json handle"));
    return;
  }
  const bool isB = occaJsonIsBoolean(g), isN = occaJsonIsNumber(g), isS = occaJsonIsString(g), isA = occaJsonIsArray(g), isO = occaJsonIsObject(g);
  if (isS || isA || isO) {
    fail("predicate:" + path + ":" + tn, SS(CUR << " :: " << path << " isString/isArray/isObject = " << isS << isA << isO << " for a scalar"));
  }
  if (C.kind == KBOOL) {
    if (!isB) fail("predicate:" + path + ":" + tn, SS(CUR << " :: " << path << " occaJsonIsBoolean is false for a stored bool"));
    else if (occaJsonGetBoolean(g) != (bits != 0)) fail("value:" + path + ":" + tn, SS(CUR << " :: " << path << " occaJsonGetBoolean = " << occaJsonGetBoolean(g)));
    return;
  }
  if (!isN) { fail("predicate:" + path + ":" + tn, SS(CUR << " :: " << path << " occaJsonIsNumber is false for a stored " << tn)); return; }
  if (isB) fail("predicate:" + path + ":" + tn, SS(CUR << " :: " << path << " occaJsonIsBoolean is true for a stored " << tn));
  // same type requested: same tag, size and value
  occaType n = occaJsonGetNumber(g, tag);
  checkScalar(n, tag, C.width, bits, path + ">GetNumber", tn);
  // the value read as every type that represents it exactly
  const long double x = numeric(C.kind, C.width, bits);
  for (const Target &t : TARGETS) {
    uint64_t tb;
    if (!representable(x, t, tb)) continue;
    occaType m = occaJsonGetNumber(g, *t.tag);
    checkScalar(m, *t.tag, t.width, tb, path + ">GetNumber-as-" + t.name, tn);
  }
}

static void runV(int c, uint64_t bits) {
  const Ctor &C = CTORS[c];
  const std::string tn = C.name;
  const int tag = *C.tag;
  bits = (C.kind == KBOOL) ? (bits ? 1 : 0) : maskBits(bits, C.width);
  // P1 constructor
  occaType t = construct(c, bits);
  checkScalar(t, tag, C.width, bits, "ctor", tn);
  if (t.needsFree) fail("needs-free:ctor:" + tn, CUR + " :: scalar occaType has needsFree set");
  // P2 object set/get
  {
    occaJson obj = occaCreateJson();
    occaJsonObjectSet(obj, "k", t);
    if (!occaJsonObjectHas(obj, "k")) fail("lost:object-set:" + tn, CUR + " :: key missing after occaJsonObjectSet");
    occaType g = occaJsonObjectGet(obj, "k", occaUndefined);
    checkNumberHandle(g, C, bits, "object-set>get");
    // freeing the borrowed handle must not disturb the stored value
    occaFree(&g);
    if (!occaIsUndefined(g)) fail("free:borrowed-still-defined:" + tn, CUR + " :: handle still defined after occaFree");
    occaType g2 = occaJsonObjectGet(obj, "k", occaUndefined);
    checkNumberHandle(g2, C, bits, "object-set>get>free>get");
    // nested: object inside object, array inside object
    occaJson outer = occaCreateJson();
    occaJsonObjectSet(outer, "in", obj);
    occaFree(&obj);                       // the copy inside outer must survive
    if (!occaIsUndefined(obj)) fail("free:owned-still-defined:" + tn, CUR + " :: owned json still defined after occaFree");
    occaType in = occaJsonObjectGet(outer, "in", occaUndefined);
    if (in.type != OCCA_JSON || !occaJsonIsObject(in)) fail("predicate:nested-object:" + tn, CUR + " :: nested object not an object");
    else checkNumberHandle(occaJsonObjectGet(in, "k", occaUndefined), C, bits, "object-in-object>get");
    occaFree(&outer);
  }
  // P3 array push / insert / get
  {
    occaJson arr = occaCreateJson();
    occaJsonArrayPush(arr, t);
    if (occaJsonArraySize(arr) != 1) fail("size:array-push:" + tn, SS(CUR << " :: size " << occaJsonArraySize(arr) << " after one push"));
    else {
      checkNumberHandle(occaJsonArrayGet(arr, 0), C, bits, "array-push>get");
      occaJsonArrayInsert(arr, 0, occaString("front"));
      if (occaJsonArraySize(arr) != 2) fail("size:array-insert:" + tn, CUR + " :: size != 2 after insert");
      else {
        checkNumberHandle(occaJsonArrayGet(arr, 1), C, bits, "array-insert>get");
        occaJsonArrayInsert(arr, 1, t);
        checkNumberHandle(occaJsonArrayGet(arr, 1), C, bits, "array-insert-value>get");
        checkNumberHandle(occaJsonArrayGet(arr, 2), C, bits, "array-insert-value>get");
      }
      occaJson outer = occaCreateJson();
      occaJsonObjectSet(outer, "arr", arr);
      occaType in = occaJsonObjectGet(outer, "arr", occaUndefined);
      if (in.type != OCCA_JSON || !occaJsonIsArray(in)) fail("predicate:nested-array:" + tn, CUR + " :: nested array not an array");
      else checkNumberHandle(occaJsonArrayGet(in, occaJsonArraySize(in) - 1), C, bits, "array-in-object>get");
      occaFree(&outer);
    }
    occaFree(&arr);
  }
  // P4 kernel-argument conversion
  std::string kout = "rejected";
  try {
    occa::kernelArg a = occa::c::kernelArg(t);
    if (a.size() != 1) fail("kernelarg:count:" + tn, SS(CUR << " :: conversion produced " << a.size() << " arguments"));
    else {
      const occa::kernelArgData &d = a[0];
      if ((int) d.size() != C.width) fail("kernelarg:bytes:" + tn, SS(CUR << " :: kernel argument has " << d.size() << " bytes, expected " << C.width));
      uint64_t got = 0;
      memcpy(&got, d.ptr(), C.width);
      if (got != bits) fail("kernelarg:value:" + tn, SS(CUR << " :: kernel argument bytes 0x" << std::hex << got << ", expected 0x" << bits));
      if (d.getModeMemory() || d.value.isPointer()) fail("kernelarg:kind:" + tn, CUR + " :: scalar became a pointer/memory argument");
    }
    kout = "converted";
    if (C.kernel) {
      for (int route = 0; route < 3; ++route) {
        uint64_t out = runEcho(C.kernel, t, route);
        uint64_t expect = (0xa5a5a5a5a5a5a5a5ULL & ~(C.width == 8 ? ~0ULL : ((1ULL << (8 * C.width)) - 1))) | bits;
        if (out != expect) {
          const char *rn[] = {"RunWithArgs", "RunN", "PushArg"};
          fail(SS("kernel-echo:value:" << tn), SS(CUR << " :: kernel " << C.kernel << " via occaKernel" << rn[route] << " wrote 0x" << std::hex << out << ", expected 0x" << expect));
        }
      }
      kout = "echoed";
    }
  } catch (occa::exception &e) {
    kout = "rejected";
    fail("kernelarg:exception:" + tn, CUR + " :: " + e.message);
  }
  if (!QUIET) printf("R V %s %d kernel=%s\n", C.name, NFAIL, kout.c_str());
}

//---[ strings / null ]------------------------------------------------------------------------------------------
static std::string unhex(const std::string &h) {
  std::string s;
  if (h == "-") return s;
  for (size_t i = 0; i + 1 < h.size(); i += 2) s += (char) strtol(h.substr(i, 2).c_str(), NULL, 16);
  return s;
}

static void checkStringHandle(occaType g, const std::string &s, const std::string &path) {
  if (g.type != OCCA_JSON) { fail("type-tag:" + path + ":string", SS(CUR << " :: " << path << " returned type " << tagName(g.type))); return; }
  if (!occaJsonIsString(g) || occaJsonIsNumber(g) || occaJsonIsBoolean(g) || occaJsonIsArray(g) || occaJsonIsObject(g)) {
    fail("predicate:" + path + ":string", CUR + " :: " + path + " predicates wrong for a stored string");
    return;
  }
  const char *p = occaJsonGetString(g);
  if (!p || s != p) fail("value:" + path + ":string", CUR + " :: " + path + " occaJsonGetString = [" + (p ? p : "(null)") + "]");
}

static void runS(const std::string &s) {
  occaType t = occaString(s.c_str());
  if (t.type != OCCA_STRING) fail("type-tag:ctor:string", CUR + " :: occaString type tag");
  if (t.bytes != s.size()) fail("bytes:ctor:string", SS(CUR << " :: occaString bytes=" << t.bytes));
  if (t.value.ptr != s.c_str()) fail("value:ctor:string", CUR + " :: occaString pointer differs");
  occaJson obj = occaCreateJson();
  occaJsonObjectSet(obj, "k", t);
  occaJsonObjectSet(obj, "other", occaInt32(5));
  checkStringHandle(occaJsonObjectGet(obj, "k", occaUndefined), s, "object-set>get");
  // the string itself used as a key
  if (s.size() && s.find('/') == std::string::npos && s.find('\\') == std::string::npos) {
    occaJsonObjectSet(obj, s.c_str(), t);
    if (!occaJsonObjectHas(obj, s.c_str())) fail("lost:object-set-key:string", CUR + " :: key not found after set");
    else checkStringHandle(occaJsonObjectGet(obj, s.c_str(), occaUndefined), s, "object-set-key>get");
  }
  occaJson arr = occaCreateJson();
  occaJsonArrayPush(arr, t);
  occaJsonArrayPush(arr, t);
  if (occaJsonArraySize(arr) != 2) fail("size:array-push:string", CUR + " :: size after two pushes");
  else checkStringHandle(occaJsonArrayGet(arr, 1), s, "array-push>get");
  occaJsonObjectSet(obj, "arr", arr);
  occaFree(&arr);
  occaType in = occaJsonObjectGet(obj, "arr", occaUndefined);
  if (in.type == OCCA_JSON && occaJsonIsArray(in) && occaJsonArraySize(in) == 2) checkStringHandle(occaJsonArrayGet(in, 0), s, "array-in-object>get");
  else fail("predicate:nested-array:string", CUR + " :: nested array lost");
  occaFree(&obj);
  if (!QUIET) printf("R S len=%zu %d\n", s.size(), NFAIL);
}

static void runN() {
  occaType t = occaNull;
  if (t.type != OCCA_NULL || occaIsUndefined(t)) fail("type-tag:ctor:null", CUR + " :: occaNull tag");
  occaJson obj = occaCreateJson();
  occaJsonObjectSet(obj, "k", t);
  if (!occaJsonObjectHas(obj, "k")) fail("lost:object-set:null", CUR + " :: key missing after setting null");
  occaType g = occaJsonObjectGet(obj, "k", occaUndefined);
  if (g.type != OCCA_NULL || occaIsUndefined(g)) fail("type-tag:object-set>get:null", SS(CUR << " :: got type " << tagName(g.type) << " undefined=" << occaIsUndefined(g)));
  occaJson arr = occaCreateJson();
  occaJsonArrayPush(arr, t);
  if (occaJsonArraySize(arr) != 1) fail("size:array-push:null", SS(CUR << " :: size " << occaJsonArraySize(arr) << " after pushing null"));
  else {
    occaType e = occaJsonArrayGet(arr, 0);
    if (e.type != OCCA_NULL) fail("type-tag:array-push>get:null", SS(CUR << " :: got type " << tagName(e.type)));
  }
  // a NULL pointer is accepted as JSON null as well
  occaJsonObjectSet(obj, "p", occaPtr(NULL));
  g = occaJsonObjectGet(obj, "p", occaUndefined);
  if (g.type != OCCA_NULL) fail("type-tag:object-set>get:null-ptr", SS(CUR << " :: got type " << tagName(g.type)));
  occaFree(&arr);
  occaFree(&obj);
  // kernel argument: a pointer parameter receives NULL
  try {
    for (int route = 0; route < 3; ++route) {
      uint64_t out = runEcho("echo_null", occaNull, route);
      if ((uint32_t) out != 1) fail("kernel-echo:value:null", SS(CUR << " :: echo_null wrote " << (uint32_t) out << " (1 = pointer was NULL)"));
    }
  } catch (occa::exception &e) {
    fail("kernelarg:exception:null", CUR + " :: " + e.message);
  }
  if (!QUIET) printf("R N %d\n", NFAIL);
}

//---[ trees ]---------------------------------------------------------------------------------------------------
struct Node {
  char kind = 'z';      // i d b s z o a
  int32_t i = 0; double d = 0; bool b = false; std::string s;
  std::vector<std::pair<std::string, Node> > kids;
};

static bool parseTree(std::istringstream &in, Node &n) {
  std::string tok;
  if (!(in >> tok)) return false;
  n.kind = tok[0];
  const std::string rest = tok.size() > 2 ? tok.substr(2) : "";
  switch (n.kind) {
  case 'i': n.i = (int32_t) strtol(rest.c_str(), NULL, 10); return true;
  case 'd': { uint64_t b = strtoull(rest.c_str(), NULL, 16); memcpy(&n.d, &b, 8); return true; }
  case 'b': n.b = rest == "1"; return true;
  case 's': n.s = unhex(rest); return true;
  case 'z': return true;
  case 'o': case 'a': {
    const int cnt = atoi(tok.substr(1).c_str());
    for (int k = 0; k < cnt; ++k) {
      std::string key;
      if (n.kind == 'o') { if (!(in >> key)) return false; key = unhex(key); }
      Node c;
      if (!parseTree(in, c)) return false;
      n.kids.push_back(std::make_pair(key, c));
    }
    return true;
  }}
  return false;
}

// builds the value through the C API; *owned tells whether the result must be freed
static occaType buildTree(const Node &n, bool &owned) {
  owned = false;
  switch (n.kind) {
  case 'i': return occaInt32(n.i);
  case 'd': return occaDouble(n.d);
  case 'b': return occaBool(n.b);
  case 's': return occaString(n.s.c_str());
  case 'z': return occaNull;
  }
  occaJson j = occaCreateJson();
  owned = true;
  if (n.kind == 'o') occaJsonCastToObject(j); else occaJsonCastToArray(j);
  for (size_t k = 0; k < n.kids.size(); ++k) {
    bool co;
    occaType c = buildTree(n.kids[k].second, co);
    if (n.kind == 'o') occaJsonObjectSet(j, n.kids[k].first.c_str(), c);
    else occaJsonArrayPush(j, c);
    if (co) occaFree(&c);
  }
  return j;
}

static std::string jsonText(const Node &n) {
  switch (n.kind) {
  case 'i': return SS(n.i);
  case 'd': { char buf[64]; snprintf(buf, sizeof(buf), "%.17g", n.d); std::string s = buf; if (s.find_first_of(".e") == std::string::npos) s += ".0"; return s; }
  case 'b': return n.b ? "true" : "false";
  case 'z': return "null";
  case 's': {
    std::string o = "\"";
    for (char ch : n.s) { if (ch == '"' || ch == '\\') o += '\\'; o += ch; }
    return o + "\"";
  }}
  std::string o = n.kind == 'o' ? "{" : "[";
  for (size_t k = 0; k < n.kids.size(); ++k) {
    if (k) o += ", ";
    if (n.kind == 'o') { Node key; key.kind = 's'; key.s = n.kids[k].first; o += jsonText(key) + ": "; }
    o += jsonText(n.kids[k].second);
  }
  return o + (n.kind == 'o' ? "}" : "]");
}

// compares what the C API shows at handle h with the tree; route = how the value got there
static void walk(occaType h, const Node &n, const std::string &route, const std::string &at) {
  const std::string where = route + ":" + std::string(1, n.kind);
  if (n.kind == 'z') {
    if (h.type != OCCA_NULL) fail("type-tag:" + where, SS(CUR << " :: at " << at << " got type " << tagName(h.type) << ", expected null"));
    return;
  }
  if (h.type != OCCA_JSON) { fail("type-tag:" + where, SS(CUR << " :: at " << at << " got type " << tagName(h.type) << ", expected a json handle")); return; }
  const bool isB = occaJsonIsBoolean(h), isN = occaJsonIsNumber(h), isS = occaJsonIsString(h), isA = occaJsonIsArray(h), isO = occaJsonIsObject(h);
  const std::string preds = SS("bool/number/string/array/object=" << isB << isN << isS << isA << isO);
  switch (n.kind) {
  case 'i': {
    if (!isN || isB || isS || isA || isO) { fail("predicate:" + where, CUR + " :: at " + at + " " + preds); return; }
    occaType v = occaJsonGetNumber(h, OCCA_INT32);
    if (v.type != OCCA_INT32 || v.value.int32_ != n.i) fail("value:" + where, SS(CUR << " :: at " << at << " int32 read back as " << tagName(v.type) << " " << v.value.int32_));
    return;
  }
  case 'd': {
    if (!isN || isB || isS || isA || isO) { fail("predicate:" + where, CUR + " :: at " + at + " " + preds); return; }
    occaType v = occaJsonGetNumber(h, OCCA_DOUBLE);
    if (v.type != OCCA_DOUBLE || memcmp(&v.value.double_, &n.d, 8)) fail("value:" + where, SS(CUR << " :: at " << at << " double read back as " << tagName(v.type) << " " << v.value.double_));
    return;
  }
  case 'b': {
    if (!isB || isS || isA || isO) { fail("predicate:" + where, CUR + " :: at " + at + " " + preds); return; }
    if (occaJsonGetBoolean(h) != n.b) fail("value:" + where, CUR + " :: at " + at + " bool differs");
    return;
  }
  case 's': {
    if (!isS || isB || isN || isA || isO) { fail("predicate:" + where, CUR + " :: at " + at + " " + preds); return; }
    const char *p = occaJsonGetString(h);
    if (!p || n.s != p) fail("value:" + where, CUR + " :: at " + at + " string differs");
    return;
  }
  case 'o': {
    if (!isO || isB || isN || isS || isA) { fail("predicate:" + where, CUR + " :: at " + at + " " + preds); return; }
    // later duplicates of a key overwrite earlier ones (map semantics)
    std::map<std::string, const Node*> last;
    for (size_t k = 0; k < n.kids.size(); ++k) last[n.kids[k].first] = &n.kids[k].second;
    for (std::map<std::string, const Node*>::iterator it = last.begin(); it != last.end(); ++it) {
      if (!occaJsonObjectHas(h, it->first.c_str())) { fail("lost:" + where, CUR + " :: at " + at + " key " + it->first + " missing"); continue; }
      walk(occaJsonObjectGet(h, it->first.c_str(), occaUndefined), *it->second, route, at + "/" + it->first);
    }
    if (occaJsonObjectHas(h, "nokey")) fail("extra:" + where, CUR + " :: at " + at + " has a key that was never set");
    occaType miss = occaJsonObjectGet(h, "nokey", occaInt32(77));
    if (miss.type != OCCA_INT32 || miss.value.int32_ != 77) fail("default:" + where, CUR + " :: at " + at + " default value not returned for a missing key");
    return;
  }
  case 'a': {
    if (!isA || isB || isN || isS || isO) { fail("predicate:" + where, CUR + " :: at " + at + " " + preds); return; }
    if (occaJsonArraySize(h) != (int) n.kids.size()) { fail("size:" + where, SS(CUR << " :: at " << at << " size " << occaJsonArraySize(h) << ", expected " << n.kids.size())); return; }
    for (size_t k = 0; k < n.kids.size(); ++k) walk(occaJsonArrayGet(h, (int) k), n.kids[k].second, route, SS(at << "[" << k << "]"));
    return;
  }}
}

static void runT(const std::string &text) {
  std::istringstream in(text);
  Node n;
  if (!parseTree(in, n)) { printf("HARNESS bad tree\n"); return; }
  // route 1: built through the API
  bool owned;
  occaType v = buildTree(n, owned);
  if (owned) walk(v, n, "built", "$");          // a scalar occaType is not a json handle: it is judged after it was stored
  // route 2: stored under a key of another object / pushed into another array, read back
  occaJson outer = occaCreateJson();
  occaJsonObjectSet(outer, "k", v);
  occaJsonObjectSet(outer, "z", occaInt32(1));
  occaJson oarr = occaCreateJson();
  occaJsonArrayPush(oarr, occaInt32(1));
  occaJsonArrayPush(oarr, v);
  if (owned) occaFree(&v);
  walk(occaJsonObjectGet(outer, "k", occaUndefined), n, "object-set>get", "$.k");
  if (occaJsonArraySize(oarr) != 2) fail(SS("size:array-push:" << n.kind), SS(CUR << " :: outer array size " << occaJsonArraySize(oarr) << " after pushing 2 values"));
  else walk(occaJsonArrayGet(oarr, 1), n, "array-push>get", "$[1]");
  occaFree(&outer);
  occaFree(&oarr);
  // route 3: parsed from text (only for containers: a bare scalar is not a document here)
  if (n.kind == 'o' || n.kind == 'a') {
    const std::string txt = jsonText(n);
    occaJson p = occaJsonParse(txt.c_str());
    walk(p, n, "parsed", "$");
    occaFree(&p);
  }
  if (!QUIET) printf("R T %c%zu %d\n", n.kind, n.kids.size(), NFAIL);
}

//---[ histories ]-----------------------------------------------------------------------------------------------
// values: 0 int32 7 | 1 double 0.5 | 2 string "s" | 3 null | 4 object {"c": 3}
enum SlotState { NONE, UNDEF, LIVE, STALE, NULLV, FREED, DEAD };
struct Slot { SlotState st; int val; occaType h; };

static occaType histValue(int v, bool &owned) {
  owned = false;
  switch (v) {
  case 0: return occaInt32(7);
  case 1: return occaDouble(0.5);
  case 2: return occaString("s");
  case 3: return occaNull;
  }
  owned = true;
  return occaJsonParse("{\"c\": 3}");
}

static void checkHistValue(occaType h, int v, const std::string &what) {
  Node n;
  switch (v) {
  case 0: n.kind = 'i'; n.i = 7; break;
  case 1: n.kind = 'd'; n.d = 0.5; break;
  case 2: n.kind = 's'; n.s = "s"; break;
  case 3: n.kind = 'z'; break;
  default: { n.kind = 'o'; Node c; c.kind = 'i'; c.i = 3; n.kids.push_back(std::make_pair(std::string("c"), c)); }
  }
  walk(h, n, what, "$");
}

static void touch(occaType h) {
  // memory-safety only: exercise every accessor that is legal on any json handle
  if (occaIsUndefined(h) || h.type != OCCA_JSON) return;
  volatile int s = occaJsonIsBoolean(h) + occaJsonIsNumber(h) + occaJsonIsString(h) + occaJsonIsArray(h) + occaJsonIsObject(h);
  (void) s;
  if (occaJsonIsString(h)) { volatile size_t l = strlen(occaJsonGetString(h)); (void) l; }
  if (occaJsonIsNumber(h)) { volatile int64_t x = occaJsonGetNumber(h, OCCA_INT64).value.int64_; (void) x; }
  if (occaJsonIsObject(h)) { volatile bool b = occaJsonObjectHas(h, "c"); (void) b; }
}

static void runH(const std::string &hist) {
  std::vector<std::string> ops;
  { std::string cur; for (char ch : hist) { if (ch == '.') { ops.push_back(cur); cur.clear(); } else cur += ch; } if (cur.size()) ops.push_back(cur); }
  occaJson root = occaCreateJson();
  occaJson arr = occaCreateJson();
  occaJsonCastToObject(root);
  occaJsonCastToArray(arr);
  std::map<std::string, int> model;
  std::vector<int> amodel;
  Slot slots[3] = {{NONE, 0, occaUndefined}, {NONE, 0, occaUndefined}, {NONE, 0, occaUndefined}};
  const char *KEYS[2] = {"a", "b"};
  std::string outcome;

  for (size_t oi = 0; oi <= ops.size(); ++oi) {
    const bool final = (oi == ops.size());
    const std::string op = final ? "" : ops[oi];
    const std::string step = SS("step" << oi << "(" << op << ")");
    if (!final) {
      const char o = op[0];
      const int ki = (op.size() > 1) ? (op[1] == 'a' ? 0 : op[1] == 'b' ? 1 : 2) : 0;
      if (o == 's') {
        const int v = op[2] - '0';
        bool owned; occaType val = histValue(v, owned);
        occaJsonObjectSet(root, KEYS[ki], val);
        if (owned) occaFree(&val);
        model[KEYS[ki]] = v;
        if (slots[ki].st == LIVE) slots[ki].st = STALE;       // the value the handle referred to was replaced
      } else if (o == 'g') {
        occaType h = occaJsonObjectGet(root, KEYS[ki], occaUndefined);
        slots[ki].h = h;
        if (!model.count(KEYS[ki])) {
          slots[ki].st = UNDEF;
          if (!occaIsUndefined(h)) fail("history:get-missing-key", CUR + " :: " + step + " returned a defined value for a key that was never set");
        } else if (model[KEYS[ki]] == 3) {
          slots[ki].st = NULLV; slots[ki].val = 3;
        } else {
          slots[ki].st = LIVE; slots[ki].val = model[KEYS[ki]];
        }
      } else if (o == 'p') {
        const int v = (op[1] == '0') ? 0 : 2;
        bool owned; occaType val = histValue(v, owned);
        occaJsonArrayPush(arr, val);
        amodel.push_back(v);
      } else if (o == 'e') {
        if (amodel.size()) {
          slots[2].h = occaJsonArrayGet(arr, 0);
          slots[2].st = LIVE; slots[2].val = amodel[0];
        }
      } else if (o == 'f') {
        Slot &s = slots[ki];
        if (s.st != NONE && s.st != DEAD) {
          occaFree(&s.h);
          if (!occaIsUndefined(s.h)) fail("history:free-leaves-handle-defined", CUR + " :: " + step + " handle still defined after occaFree");
          if (s.st != UNDEF) s.st = FREED;
        }
      } else if (o == 'R') {
        occaFree(&root);
        if (!occaIsUndefined(root)) fail("history:free-leaves-handle-defined", CUR + " :: " + step + " root still defined after occaFree");
        occaFree(&root);                                        // second free through the same variable is a no-op
        root = occaCreateJson();
        occaJsonCastToObject(root);
        model.clear();
        for (int k = 0; k < 2; ++k) if (slots[k].st == LIVE || slots[k].st == STALE) slots[k].st = DEAD;
      }
      // 'u' handled below together with the final sweep
    }
    // use: explicit op on one slot, or all slots at the end
    for (int k = 0; k < 3; ++k) {
      const bool useIt = final || (op.size() > 1 && op[0] == 'u' && ((op[1] == 'a' && k == 0) || (op[1] == 'b' && k == 1) || (op[1] == 'c' && k == 2)));
      if (!useIt) continue;
      Slot &s = slots[k];
      const std::string what = std::string("history:") + (k == 2 ? "array-element-handle" : "object-entry-handle");
      switch (s.st) {
      case LIVE:  checkHistValue(s.h, s.val, what); break;
      case STALE: touch(s.h); break;
      case NULLV: if (s.h.type != OCCA_NULL) fail(what + ":null", CUR + " :: " + step + " null handle changed type"); break;
      case UNDEF: case FREED: if (!occaIsUndefined(s.h)) fail(what + ":undefined", CUR + " :: " + step + " handle should be undefined"); break;
      default: break;
      }
    }
    // after every operation: the containers hold exactly the model (fresh handles)
    for (int k = 0; k < 2; ++k) {
      const bool has = occaJsonObjectHas(root, KEYS[k]);
      if (has != (model.count(KEYS[k]) > 0)) { fail("history:object-content", SS(CUR << " :: " << step << " has(" << KEYS[k] << ") = " << has)); continue; }
      if (has) checkHistValue(occaJsonObjectGet(root, KEYS[k], occaUndefined), model[KEYS[k]], "history:object-content");
    }
    if (occaJsonArraySize(arr) != (int) amodel.size()) fail("history:array-content", SS(CUR << " :: " << step << " array size " << occaJsonArraySize(arr) << ", expected " << amodel.size()));
    else for (size_t k = 0; k < amodel.size(); ++k) checkHistValue(occaJsonArrayGet(arr, (int) k), amodel[k], "history:array-content");
  }
  for (int k = 0; k < 3; ++k) outcome += SS(slots[k].st);
  occaFree(&root);
  occaFree(&arr);
  if (!QUIET) printf("R H %s m%zu a%zu %d\n", outcome.c_str(), model.size(), amodel.size(), NFAIL);
}

//---[ parsed documents ]---------------------------------------------------------------------------------------
// P <kind> <hex text>: occaJsonParse of a document that is a bare scalar / null / container; kind = z b i d s o a
static void runP(char kind, const std::string &text) {
  occaJson p = occaJsonParse(text.c_str());
  const std::string where = std::string("parsed-document:") + kind;
  if (kind == 'z') {
    if (p.type != OCCA_NULL || occaIsUndefined(p)) fail("type-tag:" + where, SS(CUR << " :: parsing [" << text << "] gave type " << tagName(p.type)));
  } else if (p.type != OCCA_JSON) {
    fail("type-tag:" + where, SS(CUR << " :: parsing [" << text << "] gave type " << tagName(p.type)));
  } else {
    const bool isB = occaJsonIsBoolean(p), isN = occaJsonIsNumber(p), isS = occaJsonIsString(p), isA = occaJsonIsArray(p), isO = occaJsonIsObject(p);
    const bool ok = (kind == 'b') ? (isB && !isS && !isA && !isO)
                  : (kind == 'i' || kind == 'd') ? (isN && !isB && !isS && !isA && !isO)
                  : (kind == 's') ? (isS && !isB && !isN && !isA && !isO)
                  : (kind == 'o') ? (isO && !isB && !isN && !isS && !isA)
                  : (isA && !isB && !isN && !isS && !isO);
    if (!ok) fail("predicate:" + where, SS(CUR << " :: parsing [" << text << "] bool/number/string/array/object=" << isB << isN << isS << isA << isO));
  }
  occaFree(&p);
  if (!occaIsUndefined(p)) fail("free:owned-still-defined:" + where, CUR + " :: still defined after occaFree");
  if (!QUIET) printf("R P %c %d\n", kind, NFAIL);
}

static bool runItem(const std::string &it) {
  if (it[0] == 'V') {
    int c; char hex[64];
    if (sscanf(it.c_str(), "V %d %63s", &c, hex) != 2 || c < 0 || c >= NCTORS) return false;
    runV(c, strtoull(hex, NULL, 16));
  } else if (it[0] == 'S') {
    runS(unhex(it.substr(2)));
  } else if (it[0] == 'N') {
    runN();
  } else if (it[0] == 'T') {
    runT(it.substr(2));
  } else if (it[0] == 'P') {
    runP(it[2], unhex(it.substr(4)));
  } else if (it[0] == 'H') {
    runH(it.size() > 2 ? it.substr(2) : "");
  } else {
    return false;
  }
  return true;
}

extern "C" size_t __sanitizer_get_current_allocated_bytes();

//---[ main ]----------------------------------------------------------------------------------------------------
int main(int argc, char **argv) {
  if (argc < 2) return 2;
  std::ifstream in(argv[1]);
  std::string line;
  std::vector<std::string> items;
  while (std::getline(in, line)) items.push_back(line);
  for (size_t i = 0; i < items.size(); ++i) {
    printf("BEGIN %zu\n", i);
    CUR = items[i];
    NFAIL = 0;
    const std::string &it = items[i];
    try {
      if (it[0] == 'W') {
        const char *names[] = {"echo_bool", "echo_char", "echo_uchar", "echo_short", "echo_ushort", "echo_int", "echo_uint", "echo_long", "echo_ulong", "echo_float", "echo_double", "echo_null"};
        for (const char *n : names) kernelFor(n);
        printf("R W built\n");
      } else if (!runItem(it)) {
        printf("HARNESS bad item\n");
      } else if (NFAIL == 0) {
        // leak oracle: everything an item creates is released by its occaFree calls.  The item is executed again (to
        // fill lazily initialised state) and a third time between two readings of ASan's live-byte counter
        QUIET = true;
        runItem(it);
        const size_t before = __sanitizer_get_current_allocated_bytes();
        runItem(it);
        const size_t after = __sanitizer_get_current_allocated_bytes();
        QUIET = false;
        NFAIL = 0;
        if (after != before) {
          const char *what = it[0] == 'V' ? "scalar" : it[0] == 'S' ? "string" : it[0] == 'N' ? "null" : it[0] == 'T' ? "tree" : it[0] == 'P' ? "parsed-document" : "history";
          fail(std::string("leak:") + what + (it[0] == 'P' ? std::string(":") + it[2] : std::string()),
               SS(CUR << " :: live heap bytes " << before << " -> " << after << " across one more execution of the item (everything was passed to occaFree)"));
        }
      }
    } catch (occa::exception &e) {
      QUIET = false;
      fail(std::string("exception:") + it[0], CUR + " :: occa::exception " + e.message);
    }
    printf("END %zu\n", i);
    fflush(stdout);
  }
  return 0;
}
