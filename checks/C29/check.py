#!/usr/bin/env python3
"""C29: C API values keep their value and type through conversions (E2 bounded-exhaustive, histories included).

Alphabet / bound
  V  every scalar occaType constructor (occaBool, occaInt8 .. occaUInt64, occaChar .. occaULong, occaFloat, occaDouble)
     at {0, 1, -1, 2, min, min+1, max-1, max, sign bit, alternating bits} / for floating types {+-0, +-1, 0.5, 0.1, largest,
     smallest normal, smallest denormal, first integer that is not representable, +-inf}
  S  C strings: empty, one char, quotes, backslash, slash, newline, UTF-8, JSON look-alikes, 300 chars
  N  null (occaNull, occaPtr(NULL))
  P  whole documents given to occaJsonParse: null, true, false, numbers, strings, empty and nested containers
  T  every JSON tree of depth <= 2 over leaves {int32 1, -1, double 0.5, true, "a", null}, objects and arrays with <= 2
     entries (depth 2: children from an 8-element sub-alphabet), built through the API, stored in another object/array
     and (containers) parsed from text
  H  every history of length <= 3 (quick) / 4 (thorough) over 22 operations on one JSON object with keys a,b and one
     JSON array: set(key, int|double|string|null|object), get(key) -> handle slot, use(slot), occaFree(slot),
     push(int|string), get(array[0]) -> slot, free+recreate the object
Paths
  constructor -> occaType fields; -> occaJsonObjectSet/ArrayPush/ArrayInsert -> ObjectGet/ArrayGet -> type predicates ->
  occaJsonGetNumber/GetBoolean/GetString; nested one level deeper; -> occa::c::kernelArg (kernel-argument conversion) and
  through a Serial kernel that echoes its argument into memory (occaKernelRunWithArgs, occaKernelRunN, occaKernelPushArg)
Oracle (the property sentence)
  - same value (bit pattern) and same C type tag / byte count after every path; a JSON number is read back with
    occaJsonGetNumber(handle, <tag of the constructor>) - that is how the C API hands numbers out - and additionally as every
    other scalar type that represents the value exactly; exactly the right type predicate holds
  - handles stay valid until occaFree: every handle the model considers live is used after every later operation (ASan
    reports are attributed to the history); a handle whose entry was overwritten is only exercised for memory safety;
    occaFree of a borrowed handle must not disturb the container; after occaFree the handle is undefined
  - nothing is left behind after occaFree: every item is executed three times, ASan's live-byte counter must not move across
    the third execution (all handles the item created were passed to occaFree)
"""
import itertools, os, re, struct, sys, time
sys.path.insert(0, os.path.dirname(os.path.dirname(os.path.dirname(os.path.abspath(__file__)))))
from vlib.core import Check, san_env, load_replay, sh
from vlib.batch import run_items

HERE = os.path.dirname(os.path.abspath(__file__))

CTORS = [("Bool", "b", 1), ("Int8", "s", 1), ("UInt8", "u", 1), ("Int16", "s", 2), ("UInt16", "u", 2), ("Int32", "s", 4),
         ("UInt32", "u", 4), ("Int64", "s", 8), ("UInt64", "u", 8), ("Char", "s", 1), ("UChar", "u", 1), ("Short", "s", 2),
         ("UShort", "u", 2), ("Int", "s", 4), ("UInt", "u", 4), ("Long", "s", 8), ("ULong", "u", 8), ("Float", "f", 4),
         ("Double", "d", 8)]


def fast_env(scratch, extra=None):
    env = san_env(scratch, extra)
    env["ASAN_OPTIONS"] += ":quarantine_size_mb=8"
    return env


def f32(x):
    return struct.unpack("<I", struct.pack("<f", x))[0]


def f64(x):
    return struct.unpack("<Q", struct.pack("<d", x))[0]


def scalar_values(kind, width):
    bits = 8 * width
    mask = (1 << bits) - 1
    if kind == "b":
        return [0, 1]
    if kind == "s":
        vals = [0, 1, -1, 2, -2, -(1 << (bits - 1)), -(1 << (bits - 1)) + 1, (1 << (bits - 1)) - 1, (1 << (bits - 1)) - 2,
                0x5555555555555555 & mask, 100]
        return sorted(set(v & mask for v in vals))
    if kind == "u":
        vals = [0, 1, 2, mask, mask - 1, 1 << (bits - 1), (1 << (bits - 1)) - 1, 0x5555555555555555 & mask, 0xAAAAAAAAAAAAAAAA & mask, 200]
        return sorted(set(v & mask for v in vals))
    if kind == "f":
        fl = [0.0, -0.0, 1.0, -1.0, 0.5, 0.1, 2.0, 16777216.0, 16777218.0, 3.4028234663852886e38, -3.4028234663852886e38,
              1.1754943508222875e-38, 1.401298464324817e-45, 1e-10, 123456.78, float("inf"), float("-inf")]
        return sorted(set(f32(x) for x in fl))
    fl = [0.0, -0.0, 1.0, -1.0, 0.5, 0.1, 2.0, 9007199254740992.0, 9007199254740994.0, 1.7976931348623157e308, -1.7976931348623157e308,
          2.2250738585072014e-308, 5e-324, 1e300, -1e-300, 123456.789, 16777217.0, 4294967296.0, 3.4028234663852886e38, float("inf"), float("-inf")]
    return sorted(set(f64(x) for x in fl))


def hx(s):
    b = s.encode("utf-8") if isinstance(s, str) else s
    return "".join("%02x" % c for c in b) or "-"


STRINGS = ["", "a", '"', 'a"b', "'", "\\", "a\\", "a/b", "a\nb", "\t", "é", "x" * 300, " ", "null", "true", "1", "{}", "[1]", "a b", "\x01", "\x7f"]

LEAVES = ["i:1", "i:-1", "d:%x" % f64(0.5), "b:1", "s:61", "z"]
KEYS = [hx("a"), hx("b")]


def trees():
    out = list(LEAVES)
    d1 = ["o0", "a0"]
    for x in LEAVES:
        d1 += ["o1 %s %s" % (KEYS[0], x), "a1 %s" % x]
    for x in LEAVES:
        for y in LEAVES:
            d1 += ["o2 %s %s %s %s" % (KEYS[0], x, KEYS[1], y), "a2 %s %s" % (x, y)]
    d1.append("o2 %s i:1 %s i:-1" % (KEYS[0], KEYS[0]))          # duplicate key: the later value wins
    out += d1
    sub = ["i:1", "s:61", "z", "o0", "a0", "o1 %s d:%x" % (KEYS[1], f64(0.5)), "a2 b:1 z", "o2 %s s:61 %s i:-1" % (KEYS[0], KEYS[1])]
    for x in sub:
        out += ["o1 %s %s" % (KEYS[0], x), "a1 %s" % x]
    for x in sub:
        for y in sub:
            out += ["o2 %s %s %s %s" % (KEYS[0], x, KEYS[1], y), "a2 %s %s" % (x, y)]
    # keys that need escaping / path characters
    for k in ['"', "a b", "é", "k.1"]:
        out.append("o1 %s i:1" % hx(k))
    seen, res = set(), []
    for t in out:
        if t not in seen:
            seen.add(t)
            res.append(t)
    return res


PARSED = [("z", "null"), ("b", "true"), ("b", "false"), ("i", "1"), ("i", "-1"), ("d", "0.5"), ("s", '"a"'), ("s", '""'), ("o", "{}"),
          ("a", "[]"), ("o", '{"a": null}'), ("a", "[null]"), ("a", "[1, [2]]"), ("o", '{"a": {"b": "c"}}')]

OPS = (["s%s%d" % (k, v) for k in "ab" for v in range(5)] + ["ga", "gb", "ua", "ub", "uc", "fa", "fb", "fc", "p0", "p1", "e", "R"])


def histories(depth):
    out = [""]
    for d in range(1, depth + 1):
        for h in itertools.product(OPS, repeat=d):
            out.append(".".join(h))
    return out


def array_handle_after_push(hist):
    """Model-side predicate: a handle obtained with occaJsonArrayGet is used after a later occaJsonArrayPush."""
    n = 0           # array size
    live = False
    pushed_since = False
    for op in hist.split(".") if hist else []:
        if op[0] == "p":
            n += 1
            if live:
                pushed_since = True
        elif op == "e":
            if n:
                live, pushed_since = True, False
        elif op == "fc":
            live = False
        elif op == "uc":
            if live and pushed_since:
                return True
    return live and pushed_since         # the final sweep uses every live handle


def gen_items(tier):
    items = ["W"]
    for ci, (name, kind, width) in enumerate(CTORS):
        for v in scalar_values(kind, width):
            items.append("V %d %x" % (ci, v))
    for s in STRINGS:
        items.append("S " + hx(s))
    items.append("N")
    for t in trees():
        items.append("T " + t)
    for kind, text in PARSED:
        items.append("P %s %s" % (kind, hx(text)))
    for h in histories(3 if tier == "quick" else 4):
        items.append("H " + h)
    return items


def compress(sig, item):
    """One defect => few signatures: for scalar items the driver reports clause:path:constructor with the full path
    (container route > ... > accessor); keep the clause, the container kind, the last accessor and - unless the value was
    read as another type - the constructor."""
    if item[0] != "V":
        return sig
    parts = sig.split(":")
    if len(parts) != 3 or ">" not in parts[1]:
        return sig
    clause, path, ctor = parts
    segs = path.split(">")
    kind = segs[0].split("-")[0]
    last = segs[-1]
    return "%s:%s:%s%s" % (clause, kind, last, "" if last.startswith("GetNumber-as-") else ":" + ctor)


def crash_signature(item, r):
    text = (r.stderr or "") + " ".join(r.lines[-5:])
    kind = "other"
    for kw in ("heap-use-after-free", "heap-buffer-overflow", "stack-buffer-overflow", "global-buffer-overflow", "double-free",
               "attempting free", "SEGV", "stack-use-after", "alloc-dealloc-mismatch", "FPE"):
        if kw in text:
            kind = kw.replace(" ", "-")
            break
    if r.crash == "timeout":
        kind = "timeout"
    if item[0] == "H" and kind == "heap-use-after-free" and array_handle_after_push(item[2:]):
        return "handle-invalid:array-element-handle-after-push"
    what = {"V": "scalar", "S": "string", "N": "null", "T": "tree", "H": "history", "W": "warmup", "P": "parsed-document"}[item[0]]
    return "crash:%s:%s" % (kind, what)


def main():
    c = Check("C29", "exploration")
    c.build("asan")
    exe = c.compile(os.path.join(HERE, "driver.cpp"), "driver")
    env = fast_env(c.scratch)

    if c.args.replay:
        r = load_replay(c.args.replay)
        item = r["replay"]["item"]
        res, _ = run_items([exe], ["W", item], c.scratch, env, per_item_timeout=120.0)
        rr = res[-1] if res[-1].index == 1 else None
        bad = False
        print("item: " + item)
        for x in res:
            if x.index != 1:
                continue
            for ln in x.lines:
                print("  " + ln)
                bad = bad or ln.startswith("F ")
            if x.crash:
                print("  driver " + x.crash)
                print(x.stderr[:3000])
                bad = True
        sys.exit(1 if bad else 0)

    items = gen_items(c.tier)
    deadline = time.time() + c.budget(75, 1100) * float(os.environ.get("VERIF_BUDGET_SCALE", "1"))   # from the end of the build + harness compile; the scale is for loaded machines
    # warm-up (single process): compile the echo kernels once so that the parallel drivers only load them
    res0, _ = run_items([exe], ["W"], os.path.join(c.scratch, "warm"), env, per_item_timeout=300.0)
    if res0[0].crash or not any(ln.startswith("R W built") for ln in res0[0].lines):
        fl = [ln for ln in res0[0].lines if ln.startswith("F ")]
        if fl or res0[0].crash:
            c.violation(crash_signature("W", res0[0]) if res0[0].crash else fl[0][2:].split("\t")[0],
                        "warm-up (building the echo kernels through the C API) failed: %s %s" % (fl[:1], (res0[0].stderr or "")[-800:]), {"item": "W"})
            c.set_exploration(1, 0, "warm-up failed", [], exhaustive=False)
            c.finish()
        c.harness_error("warm-up produced no result: %r" % res0[0].lines[:5])

    small = [it for it in items if it[0] != "H"]
    hist = [it for it in items if it[0] == "H"]
    # histories in phases by length: a defect that crashes the driver costs one process start per crashing history, so the
    # next length is only explored when the shorter histories raised nothing new (violating states are not expanded)
    phases = [(small, 40, "values")]
    maxlen = max(it.count(".") + 1 if len(it) > 2 else 0 for it in hist)
    for d in range(0, maxlen + 1):
        part = [it for it in hist if (it.count(".") + 1 if len(it) > 2 else 0) == d]
        if d <= 2:
            if d == 2:
                phases.append(([it for it in hist if (it.count(".") + 1 if len(it) > 2 else 0) <= 2], 300, "hist2"))
        else:
            phases.append((part, 1500, "hist%d" % d))
    results = []
    complete = True
    stopped_at = None
    for part, chunk, name in phases:
        if name.startswith("hist") and name != "hist2":
            new = [1 for it, r in results if it[0] == "H" and (
                any(ln.startswith("F ") for ln in r.lines) or (r.crash and r.crash != "timeout" and not c.known.match(crash_signature(it, r))))]
            if new:
                stopped_at = name
                complete = False
                break
        res, ok = run_items([exe], part, os.path.join(c.scratch, "run-" + name), env, chunk=chunk, per_item_timeout=(15.0 if chunk == 40 else 1.0), deadline=deadline)
        complete = complete and ok
        results += [(part[r.index], r) for r in res]
    # a driver that hits the time limit on a loaded machine is not a verdict: such an item is run once more on its own with a
    # much larger limit; only a second timeout is reported
    for i, (it, r) in enumerate(results):
        if r.crash == "timeout":
            r2, _ = run_items([exe], [it], os.path.join(c.scratch, "retry"), env, chunk=1, per_item_timeout=900.0)
            results[i] = (it, r2[0])

    outcomes = set()
    counts = {}
    echoed = 0
    fails = 0
    masked = 0
    live_hist = 0
    samples = []
    for it, r in results:
        counts[it[0]] = counts.get(it[0], 0) + 1
        for ln in r.lines:
            if ln.startswith("F "):
                sig, _, detail = ln[2:].partition("\t")
                fails += 1
                c.violation(compress(sig, it), detail, {"item": it})
            elif ln.startswith("R "):
                outcomes.add(ln)
                if "kernel=echoed" in ln:
                    echoed += 1
                if ln.startswith("R H") and "2" in ln.split()[2]:
                    live_hist += 1
            elif ln.startswith("HARNESS"):
                c.harness_error("driver rejected item %r: %s" % (it, ln))
        if r.crash:
            sig = crash_signature(it, r)
            if c.known.match(sig):
                masked += 1
            c.violation(sig, "item %s :: driver %s :: %s" % (it, r.crash, (r.stderr or "")[:900]), {"item": it})
    for i in (1, len(small) // 2, len(small) - 1, len(items) - 1):
        if i < len(results):
            samples.append({"item": results[i][0], "observed": [ln for ln in results[i][1].lines if ln[:2] in ("R ", "F ")][:3]})

    n = len(results)
    c.vacuity(n >= (len(items) if complete else 500), "too few items evaluated (%d of %d)" % (n, len(items)))
    c.vacuity(counts.get("V", 0) >= 150 and counts.get("T", 0) >= 200 and counts.get("S", 0) >= 15, "item kinds missing: %r" % counts)
    c.vacuity(echoed >= 100 or c.violations, "fewer than 100 scalar values went through an echo kernel (%d)" % echoed)
    c.vacuity(live_hist >= 100 or not complete, "fewer than 500 histories ended with a live borrowed handle (%d)" % live_hist)
    c.set_exploration(
        evaluations=n, distinct_nontrivial=len(outcomes),
        rule="all scalar constructors at boundary values, strings, null, all JSON trees of depth <= 2, all set/get/use/free histories "
             "up to the depth bound; each value is followed through constructor -> JSON set/push -> get -> predicates/getters and "
             "through the kernel-argument conversion into a Serial echo kernel; bit pattern, type tag and byte count must be unchanged, "
             "live handles must stay usable (ASan)",
        samples=samples, exhaustive=complete,
        items=counts, history_depth=(3 if c.tier == "quick" else 4), history_alphabet=len(OPS),
        values_through_echo_kernel=echoed, histories_ending_with_live_handle=live_hist,
        oracle_failures=fails, masked_by_known_finding=masked, budget_hit=(not complete and stopped_at is None),
        longer_histories_skipped_after_violation=stopped_at)
    c.assumptions += [
        "a JSON number is read back with occaJsonGetNumber(handle, tag of the constructor): the C API has no other typed accessor",
        "leaks are measured with ASan's live-byte counter across a repeated execution of the item (exact, attributed per item) instead of LSan's end-of-process report",
        "a handle to an object entry that was overwritten later is exercised for memory safety only (its value is unspecified)",
        "NaN excluded; the empty history and unsized accesses (occaJsonArrayGet beyond the size) are not in the alphabet",
    ]
    c.finish()


from vlib.core import run_main
run_main(main)
