#!/usr/bin/env python3
"""C28: the trie returns the longest stored prefix, frozen or not (E1 histbfs)."""
import os, sys, time
sys.path.insert(0, os.path.dirname(os.path.dirname(os.path.dirname(os.path.abspath(__file__)))))
from vlib.core import Check, san_env, load_replay, sh
from vlib import histbfs

HERE = os.path.dirname(os.path.abspath(__file__))

def main():
    c = Check("C28", "model_checking")
    c.build("asan")
    exe = c.compile(os.path.join(HERE, "harness.cpp"), "harness")
    env = san_env(c.scratch)
    if c.args.replay:
        r = load_replay(c.args.replay)
        p = sh([exe, "replay", r["replay"]["history"]], env=env)
        print(p.stdout)
        sys.exit(1 if p.returncode else 0)
    depth = 3 if c.tier == "quick" else 4
    deadline = c.t0 + c.budget(150, 1500)
    res = histbfs.bfs(c, exe, depth, deadline, env, c.scratch)
    for sig, detail, hist in res.violations:
        c.violation(sig, detail, {"history": hist, "readable": None})
    if res.depth_completed < 2 and not res.budget_hit and not res.violations:
        c.harness_error("BFS did not complete depth 2")
    c.coverage.update({
        "states": res.states, "transitions": res.transitions,
        "traces_validated_against_impl": res.transitions,
        "samples": res.samples,
        "depth_completed": res.depth_completed, "depth_target": depth, "per_depth": res.per_depth,
        "exhaustive": res.depth_completed >= depth or res.exhaustive,
        "budget_hit": res.budget_hit,
        "alphabet": "add(key,v) key in 12 keys over {a,b,c} (prefix/sibling/extension related), v in {1,2}; remove(key); freeze; defrost; clear; autoFreeze on/off; copy-construct",
        "oracle": "std::map reference: getLongest (success,length,value), get, has, size for all 340 queries of length 1..4 over {a,b,c,d}, after every operation, in frozen and unfrozen form",
        "distinct_violation_signatures": len(res.sig_counts),
        "explanation": "every transition is executed on the real occa::trie<int> (exploration runs on the implementation, so every explored trace is an implementation trace)",
    })
    c.assumptions += ["empty key and empty query excluded (degenerate: the frozen form cannot represent a value at the root)",
                      "state key = node structure with value indices + value vector + frozen/autoFreeze flags"]
    c.finish()

from vlib.core import run_main
run_main(main)
