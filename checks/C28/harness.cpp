// C28: trie longest-prefix, frozen or not.  System for E1 histbfs.
#include <map>
#include <occa/internal/utils/trie.hpp>
#include "histbfs.hpp"

static const char *KEYS[] = {"a", "b", "ab", "ac", "abc", "abb", "ba", "bc", "c", "aba", "cab", "bb"};
static const int NKEYS = 12;

enum { ADD = 1, REMOVE, FREEZE, DEFROST, CLEAR, AUTOFREEZE, COPY };

static std::vector<std::string> &queries() {
  static std::vector<std::string> q;
  if (q.empty()) {
    const char al[] = "abcd";
    std::vector<std::string> cur(1, "");
    for (int len = 1; len <= 4; ++len) {
      std::vector<std::string> nxt;
      for (auto &s : cur) for (int i = 0; i < 4; ++i) nxt.push_back(s + al[i]);
      q.insert(q.end(), nxt.begin(), nxt.end());
      cur = nxt;
    }
  }
  return q;
}

struct TrieSys {
  hb::Ctx &ctx;
  occa::trie<int> *t;
  std::map<std::string, int> model;

  TrieSys(hb::Ctx &c) : ctx(c), t(new occa::trie<int>()) { t->defaultValue = -7; }
  ~TrieSys() { delete t; }

  static std::string kindName(const hb::Op &o) {
    static const char *n[] = {"?", "add", "remove", "freeze", "defrost", "clear", "autoFreeze", "copy"};
    return n[o.k];
  }
  static std::string name(const hb::Op &o) {
    std::string s = kindName(o);
    if (o.k == ADD) s += std::string("(") + KEYS[o.a] + "," + std::to_string(o.b) + ")";
    if (o.k == REMOVE) s += std::string("(") + KEYS[o.a] + ")";
    if (o.k == AUTOFREEZE) s += o.a ? "(on)" : "(off)";
    return s;
  }

  std::vector<hb::Op> enabled() {
    std::vector<hb::Op> v;
    for (int k = 0; k < NKEYS; ++k) for (int val = 1; val <= 2; ++val) v.push_back(hb::Op(ADD, k, val));
    for (int k = 0; k < NKEYS; ++k) v.push_back(hb::Op(REMOVE, k));
    v.push_back(hb::Op(FREEZE));
    v.push_back(hb::Op(DEFROST));
    v.push_back(hb::Op(CLEAR));
    v.push_back(hb::Op(AUTOFREEZE, t->autoFreeze ? 0 : 1));
    v.push_back(hb::Op(COPY));
    return v;
  }

  void apply(const hb::Op &o) {
    switch (o.k) {
    case ADD: t->add(std::string(KEYS[o.a]), o.b); model[KEYS[o.a]] = o.b; break;
    case REMOVE: t->remove(std::string(KEYS[o.a])); model.erase(KEYS[o.a]); break;
    case FREEZE: t->freeze(); break;
    case DEFROST: t->defrost(); break;
    case CLEAR: t->clear(); model.clear(); break;
    case AUTOFREEZE: t->autoFreeze = o.a; break;
    case COPY: {   // copy-construct, destroy the original, continue with the copy
      occa::trie<int> *t2 = new occa::trie<int>(*t);
      delete t; t = t2;
      break;
    }
    }
    if (ctx.judging) oracle();
  }

  void oracle() {
    const std::string fz = t->isFrozen ? ":frozen" : ":unfrozen";
    if (t->size() != (int) model.size())
      ctx.fail("size" + fz, "size()=" + std::to_string(t->size()) + " model=" + std::to_string(model.size()));
    for (const std::string &q : queries()) {
      // reference: longest stored key that is a prefix of q
      int rlen = 0, rval = -7;
      for (int l = (int) q.size(); l >= 1; --l) {
        auto it = model.find(q.substr(0, l));
        if (it != model.end()) { rlen = l; rval = it->second; break; }
      }
      // exact-size heap copy so that any read past the query is visible to ASan
      char *buf = new char[q.size() + 1];
      memcpy(buf, q.c_str(), q.size() + 1);
      occa::trie<int>::result_t r = t->getLongest(buf, (int) q.size());
      if (r.success() != (rlen > 0))
        ctx.fail("getLongest-success" + fz, "query " + q + " success=" + std::to_string(r.success()) + " model longest prefix length=" + std::to_string(rlen));
      else if (rlen > 0 && r.length != rlen)
        ctx.fail("getLongest-length" + fz, "query " + q + " length=" + std::to_string(r.length) + " model=" + std::to_string(rlen));
      else if (rlen > 0 && r.value() != rval)
        ctx.fail("getLongest-value" + fz, "query " + q + " value=" + std::to_string(r.value()) + " model=" + std::to_string(rval));
      const bool stored = model.count(q) > 0;
      occa::trie<int>::result_t g = t->get(buf, (int) q.size());
      if (g.success() != stored)
        ctx.fail("get-success" + fz, "get(" + q + ") success=" + std::to_string(g.success()) + " stored=" + std::to_string(stored));
      else if (stored && g.value() != model[q])
        ctx.fail("get-value" + fz, "get(" + q + ") value=" + std::to_string(g.value()) + " model=" + std::to_string(model[q]));
      if (t->has(q) != stored)
        ctx.fail("has" + fz, "has(" + q + ")=" + std::to_string(t->has(q)) + " stored=" + std::to_string(stored));
      if (t->has(buf) != stored)
        ctx.fail("has-cstr" + fz, "has(char* " + q + ")=" + std::to_string(t->has(buf)) + " stored=" + std::to_string(stored));
      delete[] buf;
      if (!ctx.fails.empty()) return;
    }
  }

  static void dumpNode(const occa::trieNode &n, std::string &out) {
    out += "[" + std::to_string(n.valueIndex);
    for (auto &kv : n.leaves) { out += kv.first; dumpNode(kv.second, out); }
    out += "]";
  }

  // implementation state the future depends on: node structure incl. value indices, value vector,
  // frozen flag, autoFreeze (frozen arrays are a function of the node structure)
  std::string canon() {
    std::string s = t->isFrozen ? "F" : "u";
    s += t->autoFreeze ? "A" : "m";
    dumpNode(t->root, s);
    s += "v";
    for (int v : t->values) s += std::to_string(v) + ",";
    return s;
  }

  void finish() {}
};

int main(int argc, char **argv) { return hb::main<TrieSys>(argc, argv); }
