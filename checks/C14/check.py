#!/usr/bin/env python3
"""C14: constant folding computes what C++ computes - value, signedness and width (E2 enumx vs host compiler).

All expression texts of the bounded families in gen.py are evaluated by the real libocca
(tokenizer -> expressionParser::parse -> exprNode::evaluate, ASan+UBSan build) and by g++ (constant
evaluation of the same text).  cxxmodel.py is only a filter for undefined / ill-formed C++; every one of its
classifications is cross-checked against g++ (constexpr acceptance, UBSan run, SFINAE) and a disagreement is
a harness error (exit 2), never a verdict.
"""
import json, math, os, sys, time
from multiprocessing import Pool
sys.path.insert(0, os.path.dirname(os.path.dirname(os.path.dirname(os.path.abspath(__file__)))))
HERE = os.path.dirname(os.path.abspath(__file__))
sys.path.insert(0, HERE)
from vlib.core import Check, san_env, load_replay
from vlib import batch
import cxxmodel as M
import gen, ref

# families whose 'defined' items are additionally evaluated at run time under UBSan in the quick tier
RT_QUICK = ("literal", "unary", "guard", "ternary", "flat")


def _classify(text):
    tr = M.parse(text)
    st, ty, val = M.classify(tr)
    g, lits = M.generic(tr)
    if isinstance(val, float):
        val = val.hex()
    return (st, ty, val, M.wrapped(tr), g, lits)


def same_value(ty, a, b):
    """a, b: printed values (decimal integers / C99 hex floats)."""
    if a is None or b is None:
        return False
    if ty in ("f32", "f64", "f80"):
        try:
            x, y = float.fromhex(a), float.fromhex(b)
        except ValueError:
            return a == b
        return x == y or (math.isnan(x) and math.isnan(y))
    try:
        return int(a) == int(b)
    except ValueError:
        return a == b


def lit_form(text):
    t = text.lower()
    if t in ("true", "false"):
        return "bool"
    ty, v = M.literal(text)
    if M.is_float(ty):
        suf = t[-1] if t[-1] in "fl" else ""
        return "float" + ("-" + suf if suf else "")
    base = "hex" if t.startswith("0x") else "bin" if t.startswith("0b") else "oct" if (t[0] == "0" and len(t.rstrip("ul")) > 1) else "dec"
    suf = "".join(sorted(set(ch for ch in t[len(t.rstrip("ul")):])))
    if "l" in suf:
        suf = suf.replace("l", "L")
    rng = "le-INT_MAX" if v <= 2**31 - 1 else "le-UINT_MAX" if v <= 2**32 - 1 else "le-LONG_MAX" if v <= 2**63 - 1 else "le-ULONG_MAX"
    return "%s%s:%s" % (base, ("-" + suf) if suf else "", rng)


OPFAM = {}
for _o in ("+", "-", "*", "/", "%"):
    OPFAM[_o] = "arith"
for _o in ("<", "<=", ">", ">="):
    OPFAM[_o] = "rel"
for _o in ("==", "!="):
    OPFAM[_o] = "eq"
for _o in ("&", "|", "^"):
    OPFAM[_o] = "bit"
for _o in ("<<", ">>"):
    OPFAM[_o] = "shift"
OPFAM["&&"] = "and"
OPFAM["||"] = "or"


def kind(t):
    return {"b1": "bool", "i32": "signed", "i64": "signed", "u32": "unsigned", "u64": "unsigned"}.get(t, "float")


def operand_situation(a, b):
    """situation predicate of a binary arithmetic / comparison / bitwise node, computed from the reference types"""
    fa, fb = M.is_float(a), M.is_float(b)
    if fa and fb:
        return "float-float" if a == b else "float-float-mixed-width"
    if fa or fb:
        return "float-int"
    if "b1" in (a, b):
        return "bool-operand"
    if a == b:
        return "same-type"
    if M.BITS[a] == M.BITS[b]:
        return "mixed-sign"
    return "mixed-width" if M.is_signed(a) == M.is_signed(b) else "mixed-width-mixed-sign"


class Judge:
    def __init__(self, refmap, verdict):
        self.ref = refmap          # text -> (type, value) from g++ (defined items only)
        self.verdict = verdict     # text -> None (agrees) | clause string

    def rtype(self, n):
        r = self.ref.get(M.text(n))
        return r[0] if r else M.typeof(n)

    def failing(self, n):
        """the sub-expression n fails when evaluated on its own (parentheses are transparent)"""
        while True:
            v = self.verdict.get(M.text(n))
            if v:
                return True
            if n[0] != "par":
                return False
            n = n[1]

    def minimal(self, n):
        """descend to a minimal sub-expression that already fails when evaluated on its own."""
        while True:
            nxt = None
            for ch in M.children(n):
                if self.failing(ch):
                    nxt = ch
                    break
            if nxt is None:
                return n
            n = nxt

    def signature(self, text):
        n = self.minimal(M.parse(text))
        while n[0] == "par" and not self.verdict.get(M.text(n)):
            n = n[1]
        clause = self.verdict.get(M.text(n)) or self.verdict[text]
        trap = clause.startswith(("crash", "error"))
        k = n[0]
        if k == "lit":
            feat = "literal:" + lit_form(n[1])
        elif k == "par":
            feat = "parentheses"
        elif k == "un":
            feat = "unary" + n[1] + ":" + kind(self.rtype(n[2]))
        elif k == "bin":
            a, b = self.rtype(n[2]), self.rtype(n[3])
            fam = OPFAM[n[1]]
            if fam in ("and", "or"):
                if trap and M.classify(n[3])[0] == "ub":
                    feat = fam + ":unevaluated-operand"
                else:
                    feat = fam + (":float-operand" if (M.is_float(a) or M.is_float(b)) else ":integer-operands")
            elif fam == "shift":
                feat = "shift:count-type-" + ("same" if M.promote(b) == M.promote(a) else "differs")
            else:
                feat = fam + ":" + operand_situation(a, b)
        else:
            a, b = self.rtype(n[2]), self.rtype(n[3])
            if trap and "ub" in (M.classify(n[2])[0], M.classify(n[3])[0]):
                feat = "ternary:unevaluated-operand"
            elif n[2][0] == "ter" or n[3][0] == "ter":
                feat = "ternary:nested"
            else:
                feat = "ternary:branch-types-" + ("equal" if a == b else "differ")
        return clause + ":" + feat, M.text(n)


def occa_eval(exe, texts, workdir, env, deadline=None, chunk=2500):
    # the time-out is a wall-clock safety net only (>= 6 minutes per chunk): verdicts must not depend on machine load
    res, complete = batch.run_items([exe], texts, workdir, env, chunk=chunk, per_item_timeout=max(0.5, 360.0 / chunk), deadline=deadline)
    out = []
    for r in res:
        if r.crash:
            why = r.crash
            if "runtime error:" in r.stderr:
                why = "ubsan"
            elif "AddressSanitizer" in r.stderr:
                why = "asan"
            elif r.crash == "signal:8":
                why = "SIGFPE"
            elif r.crash == "signal:11":
                why = "SIGSEGV"
            out.append(("crash", why, r.stderr[-600:]))
        elif r.lines and r.lines[-1].startswith("T "):
            f = r.lines[-1].split()
            out.append(("val", f[1], f[2]))
        elif r.lines and r.lines[-1].startswith("E "):
            out.append(("error", r.lines[-1][2:].split()[0], r.lines[-1][2:]))
        else:
            out.append(("error", "no-output", " | ".join(r.lines)[:200]))
    return out, complete


def main():
    c = Check("C14", "exploration")
    c.build("asan")
    exe = c.compile(os.path.join(HERE, "driver.cpp"), "driver")
    env = san_env(c.scratch)
    genv = dict(os.environ)
    genv["LC_ALL"] = "C"
    refdir = os.path.join(c.scratch, "ref")

    if c.args.replay:
        r = load_replay(c.args.replay)
        text = r["replay"]["text"]
        st, ty, val, wrapped, g, lits = _classify(text)
        print("text      :", text)
        print("filter    :", st, ty, val)
        if st != "ok":
            print("not a defined C++ expression - nothing to judge")
            sys.exit(0)
        rr, err = ref.run("cx", [text], refdir, genv)
        if err:
            c.harness_error("reference failed: " + err)
        oc, _ = occa_eval(exe, [text], c.scratch, env)
        print("g++       :", rr[0].type, rr[0].value)
        print("occa      :", oc[0])
        ok = oc[0][0] == "val" and oc[0][1] == rr[0].type and same_value(rr[0].type, oc[0][2], rr[0].value)
        print("agrees    :", ok)
        sys.exit(0 if ok else 1)

    deadline = c.t0 + c.budget(600, 3000)
    stages = {}
    tmark = [c.t0]

    def stage(name):
        now = time.time()
        stages[name] = round(now - tmark[0], 1)
        tmark[0] = now

    stage("build+harness")
    items = gen.all_items(c.tier)
    texts = [t for _, t in items]
    fam_of = dict((t, f) for f, t in items)
    if len(texts) > 100000:
        with Pool(16) as pool:
            cls = pool.map(_classify, texts, chunksize=2000)
    else:
        cls = [_classify(t) for t in texts]
    info = dict(zip(texts, cls))
    ok_texts = [t for t in texts if info[t][0] == "ok"]
    ub_texts = [t for t in texts if info[t][0] == "ub"]
    ill_texts = [t for t in texts if info[t][0] == "ill"]
    nolit_texts = [t for t in texts if info[t][0] == "nolit"]

    stage("generate+filter")
    # ---- reference: g++ constant evaluation of every item the filter calls defined -------------------
    cx, err = ref.run("cx", ok_texts, refdir, genv)
    if err:
        c.harness_error("g++ rejected a constant expression the filter calls defined (or reference TU broken): " + err)
    refmap = {}
    for t, r in zip(ok_texts, cx):
        st, ty, val = info[t][:3]
        if r.type is None or r.value is None:
            c.harness_error("reference printed nothing for %r" % t)
        if r.type != ty:
            c.harness_error("filter/g++ type disagreement on %r: filter %s, g++ %s" % (t, ty, r.type))
        if val is not None and not same_value(ty, str(val), r.value):
            c.harness_error("filter/g++ value disagreement on %r: filter %s, g++ %s" % (t, val, r.value))
        refmap[t] = (r.type, r.value)

    stage("g++ constexpr")
    # ---- UBSan: every item the filter calls undefined must be reported; defined items must run clean ---
    rt_ok = [t for t in ok_texts if c.tier != "quick" or fam_of[t] in RT_QUICK]
    rt_items = ub_texts + rt_ok
    rt, err = ref.run("rt", [info[t][3] for t in rt_items], refdir, genv)
    if err:
        c.harness_error("UBSan reference TU failed: " + err)
    ub_confirmed = 0
    for t, r in zip(rt_items, rt):
        if info[t][0] == "ub":
            if r.status != "ub":
                c.harness_error("filter calls %r undefined (%s) but UBSan reported nothing (value %s)" % (t, info[t][2], r.value))
            ub_confirmed += 1
        else:
            if r.status != "ok":
                c.harness_error("filter and g++ constexpr call %r defined but UBSan reports: %s" % (t, r.note))
            if r.type != refmap[t][0] or not same_value(r.type, r.value, refmap[t][1]):
                c.harness_error("g++ constexpr and g++ run time disagree on %r: %s %s vs %s %s" % (
                    t, refmap[t][0], refmap[t][1], r.type, r.value))

    stage("g++ ubsan")
    # ---- ill-formed items: g++ must reject the operand-type combination --------------------------------
    # (an expression is ill-formed iff it contains an operator node whose operand types g++ rejects: one
    #  representative per (operator, operand types) of the minimal ill-formed node is submitted to g++)
    ill_classes = {}
    for t in ill_texts:
        n = M.parse(t)
        while True:
            nxt = [ch for ch in M.children(n) if M.typeof(ch) == "ill"]
            if not nxt:
                break
            n = nxt[0]
        key = (n[0], n[1] if n[0] in ("un", "bin") else "", tuple(M.typeof(ch) for ch in M.children(n)))
        ill_classes.setdefault(key, M.text(n))
    ill_reps = sorted(ill_classes.values())
    rep_info = [_classify(t) for t in ill_reps]
    acc, err = ref.run_ill([(ri[4], len(ri[5]), ri[5]) for ri in rep_info], refdir, genv)
    if err:
        c.harness_error("ill-formedness TU failed: " + err)
    for t, a in zip(ill_reps, acc):
        if a:
            c.harness_error("filter calls %r ill-formed but g++ accepts it" % t)

    stage("g++ ill-formed")
    # ---- implementation under test -----------------------------------------------------------------------
    # (the unevaluated-operand family goes first and in small chunks: when short-circuit evaluation is broken every
    #  item kills the driver, and the restarts should be spread over all workers)
    ok_texts = [t for t in ok_texts if fam_of[t] == "guard"] + [t for t in ok_texts if fam_of[t] != "guard"]
    nguard = len([t for t in ok_texts if fam_of[t] == "guard"])
    oc1, comp1 = occa_eval(exe, ok_texts[:nguard], os.path.join(c.scratch, "occa-guard"), env, deadline, chunk=12)
    oc2, comp2 = occa_eval(exe, ok_texts[nguard:], os.path.join(c.scratch, "occa"), env, deadline)
    oc = oc1 + oc2
    complete = comp1 and comp2 and len(oc) == len(ok_texts)
    stage("libocca")
    verdict, detail = {}, {}
    outcomes = set()
    agree_types = set()
    for t, o in zip(ok_texts, oc):
        rty, rval = refmap[t]
        outcomes.add((rty, rval))
        if o[0] == "crash":
            verdict[t] = "crash-" + o[1]
            detail[t] = "occa crashed (%s): %s" % (o[1], o[2].strip().split("\n")[0][:200] if o[2].strip() else "")
        elif o[0] == "error":
            verdict[t] = "error-" + o[1]
            detail[t] = "occa: %s" % o[2][:200]
        elif o[1] != rty:
            verdict[t] = "type"
            detail[t] = "occa %s %s, C++ %s %s" % (o[1], o[2], rty, rval)
            # a conditional whose branches have different types: if the value is not even the C++ value before the
            # conversion to the common type, this is a value defect and must not hide behind the typing one
            root = M.parse(t)
            while root[0] == "par":
                root = root[1]
            if root[0] == "ter" and o[1] in M.RANK and rty != "f80":
                try:
                    ov = float.fromhex(o[2]) if M.is_float(o[1]) else int(o[2])
                    conv = M.convert(ov, o[1], rty)
                    conv = conv.hex() if isinstance(conv, float) else str(conv)
                    if not same_value(rty, conv, rval):
                        verdict[t] = "value"
                except (M.UB, M.Unknown, ValueError):
                    pass
        elif not same_value(rty, o[2], rval):
            verdict[t] = "value"
            detail[t] = "occa %s %s, C++ %s %s" % (o[1], o[2], rty, rval)
        else:
            verdict[t] = None
            agree_types.add(rty)
    # sub-expression lookups use the normalised spelling cxxmodel.text() gives a tree
    for t in list(verdict):
        nt = M.text(M.parse(t))
        if nt != t:
            verdict.setdefault(nt, verdict[t])
            detail.setdefault(nt, detail.get(t, ""))
            refmap.setdefault(nt, refmap[t])
    J = Judge(refmap, verdict)
    judged = len(oc)
    nfail = 0
    sig_counts = {}
    for t in ok_texts[:judged]:
        if verdict[t]:
            nfail += 1
            sig, culprit = J.signature(t)
            sig_counts[sig] = sig_counts.get(sig, 0) + 1
            c.violation(sig, "%r: %s%s" % (t, detail[t], "" if culprit == t else " [minimal failing sub-expression %r: %s]" % (culprit, detail.get(culprit, ""))),
                        {"text": culprit if culprit in refmap else t})

    # ---- vacuity guards -------------------------------------------------------------------------------------
    ref_types = set(ty for ty, _ in refmap.values())
    c.vacuity(ref_types >= {"b1", "i32", "u32", "i64", "u64", "f32", "f64", "f80"}, "all eight C++ result types occur among the defined items: %s" % sorted(ref_types))
    c.vacuity(ub_confirmed >= 100, "at least 100 undefined items filtered and confirmed by UBSan (%d)" % ub_confirmed)
    c.vacuity(len(ill_texts) >= 100, "at least 100 ill-formed items filtered and confirmed by g++")
    guard_judged = [t for t in ok_texts[:judged] if fam_of[t] == "guard"]
    c.vacuity(len(guard_judged) >= 100, "unevaluated-operand family judged (%d items)" % len(guard_judged))
    ops_seen = set()
    for t in ok_texts[:judged]:
        for tok in M.tokenize(t):
            ops_seen.add(tok)
    c.vacuity(all(o in ops_seen for o in gen.BIN + ["?", "!", "~"]), "every operator occurs in a judged item")
    c.vacuity(len(outcomes) >= 200, "at least 200 distinct reference outcomes (%d)" % len(outcomes))
    c.vacuity(judged - nfail >= 1000 and len(agree_types) >= 5,
              "the implementation agrees with g++ on >= 1000 items covering >= 5 result types (%d, %s)" % (judged - nfail, sorted(agree_types)))

    stage("judge")
    fams = {}
    for t in ok_texts[:judged]:
        fams[fam_of[t]] = fams.get(fam_of[t], 0) + 1
    samples = []
    for f in [f for f, _ in gen.FAMILIES]:
        ex = [t for t in ok_texts[:judged] if fam_of[t] == f]
        for t in ex[:1] + ex[len(ex) // 2:len(ex) // 2 + 1]:
            samples.append("%s => C++ %s %s" % (t, refmap[t][0], refmap[t][1]))
    c.set_exploration(
        evaluations=judged, distinct_nontrivial=len(outcomes),
        rule="for every generated text that is a defined C++17 constant expression: type tag (signedness+width) and value of "
             "expressionParser::parse(text)->evaluate() equal g++'s constexpr type and value; no crash, sanitizer report or exception",
        samples=samples, exhaustive=bool(complete),
        generated=len(texts), defined=len(ok_texts), undefined_filtered=len(ub_texts), ill_formed_filtered=len(ill_texts), ill_formed_type_classes_confirmed=len(ill_reps), literal_fits_no_type_dropped=len(nolit_texts),
        ubsan_confirmed_undefined=ub_confirmed, ubsan_checked_defined=len(rt_ok), per_family_judged=fams,
        failing_items=nfail, stage_seconds=stages, distinct_violation_signatures=len(sig_counts),
        masked_by_attribution="a failing item is attributed to its minimal failing sub-expression; items containing such a "
                              "sub-expression are not judged separately",
        alphabet="literal spellings: %d; binary alphabet L1 (%d literals) x %d operators; unary + - ! ~; ?:; parentheses; "
                 "families: %s" % (len(gen.literals()), len(gen.L1), len(gen.BIN), ", ".join(f for f, _ in gen.FAMILIES)),
        reference="g++ -std=c++17 constexpr evaluation of the same text (type via auto deduction); UBSan run of the VL()-wrapped text",
    )
    c.assumptions += ["LP64 host: long == long long == 64 bit, compared by signedness+width (long double = f80 has no OCCA counterpart)",
                      "floating values compared with ==, so -0.0 equals 0.0",
                      "floating results that are inf/nan are treated as undefined (g++ rejects them in constant expressions)",
                      "character literals, casts, sizeof and identifiers are outside the alphabet (property: literals and operators)"]
    c.finish()


from vlib.core import run_main
run_main(main)
