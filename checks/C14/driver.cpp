// C14 driver: one expression text per line; tokenize + expressionParser::parse + evaluate on the real
// libocca; print "T <type> <value>" or "E <what>".  Protocol of vlib.batch (BEGIN i / END i).
#include <cstdio>
#include <cstring>
#include <fstream>
#include <iostream>
#include <string>

#include <occa/internal/lang/expr.hpp>
#include <occa/internal/lang/tokenizer.hpp>
#include <occa/types/primitive.hpp>
#include <occa/utils/exception.hpp>

using namespace occa;
using namespace occa::lang;

static void printPrimitive(const primitive &p) {
  switch (p.type) {
    case primitiveType::bool_:   printf("T b1 %d\n", (int) p.value.bool_); break;
    case primitiveType::int8_:   printf("T i8 %lld\n", (long long) p.value.int8_); break;
    case primitiveType::uint8_:  printf("T u8 %llu\n", (unsigned long long) p.value.uint8_); break;
    case primitiveType::int16_:  printf("T i16 %lld\n", (long long) p.value.int16_); break;
    case primitiveType::uint16_: printf("T u16 %llu\n", (unsigned long long) p.value.uint16_); break;
    case primitiveType::int32_:  printf("T i32 %lld\n", (long long) p.value.int32_); break;
    case primitiveType::uint32_: printf("T u32 %llu\n", (unsigned long long) p.value.uint32_); break;
    case primitiveType::int64_:  printf("T i64 %lld\n", (long long) p.value.int64_); break;
    case primitiveType::uint64_: printf("T u64 %llu\n", (unsigned long long) p.value.uint64_); break;
    case primitiveType::float_:  printf("T f32 %a\n", (double) p.value.float_); break;
    case primitiveType::double_: printf("T f64 %a\n", p.value.double_); break;
    case primitiveType::none:    printf("E none\n"); break;
    default:                     printf("E type-tag-%d\n", p.type); break;
  }
}

int main(int argc, char **argv) {
  std::ifstream in(argv[argc - 1]);
  std::string line;
  int idx = 0;
  // one tokenizer for all items (tokenizer_t::tokenize() builds a new operator trie per call, which dominates
  // the run time under ASan); set() resets it for every item
  tokenizer_t tstream;
  // OCCA prints parse errors to its own stderr stream; keep stdout for the protocol only.
  while (std::getline(in, line)) {
    printf("BEGIN %d\n", idx);
    fflush(stdout);
    try {
      tokenVector tokens;
      tstream.set(line.c_str());
      while (!tstream.isEmpty()) {
        token_t *token = NULL;
        tstream.setNext(token);
        tokens.push_back(token);
      }
      exprNode *expr = expressionParser::parse(tokens);
      if (!expr) {
        printf("E parse-failed\n");
      } else {
        if (!expr->canEvaluate()) {
          printf("E cannot-evaluate\n");
        } else {
          primitive p = expr->evaluate();
          printPrimitive(p);
        }
        delete expr;
      }
    } catch (occa::exception &e) {
      std::string msg = e.message;
      for (size_t i = 0; i < msg.size(); ++i) if (msg[i] == '\n') msg[i] = ' ';
      printf("E exception %s\n", msg.c_str());
    }
    printf("END %d\n", idx);
    fflush(stdout);
    ++idx;
  }
  return 0;
}
