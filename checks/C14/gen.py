"""Deterministic, seedless, simplest-first generators of the C14 expression families (texts).

Every family is the *complete* set of texts of its shape over its alphabet (no sampling).  The tree used by
the Python filter is always obtained by parsing the text with the C++ grammar (cxxmodel.parse), so flat
texts get the grouping C++ gives them.
"""
import itertools

BIN = ["+", "-", "*", "/", "%", "<<", ">>", "<", "<=", ">", ">=", "==", "!=", "&", "|", "^", "&&", "||"]
UN = ["+", "-", "!", "~"]

# ---- depth 0: literal spellings ---------------------------------------------------------------------
DEC = [0, 1, 2, 3, 7, 8, 9, 10, 31, 32, 63, 64, 127, 128, 255, 256, 32767, 32768, 65535, 65536,
       2147483647, 2147483648, 4294967295, 4294967296, 9223372036854775807, 9223372036854775808,
       18446744073709551615]
ISUF = ["", "u", "U", "l", "L", "ul", "uL", "Ul", "lu", "LU", "ll", "LL", "ull", "ULL", "llu", "LLU"]
HEX = ["0x0", "0x1", "0x7f", "0x80", "0xff", "0x7fff", "0x8000", "0xffff", "0x7fffffff", "0x80000000",
       "0xffffffff", "0x100000000", "0x7fffffffffffffff", "0x8000000000000000", "0xffffffffffffffff",
       "0XFF", "0xAbCd", "0x00000001", "0x0000000080000000"]
OCT = ["00", "07", "010", "0777", "017777777777", "020000000000", "037777777777", "040000000000",
       "0777777777777777777777", "01000000000000000000000", "01777777777777777777777"]
BINL = ["0b0", "0b1", "0b101", "0B11111111", "0b" + "1" * 31, "0b1" + "0" * 31, "0b" + "1" * 32,
        "0b1" + "0" * 32, "0b" + "1" * 63, "0b1" + "0" * 63, "0b" + "1" * 64]
BSUF = ["", "u", "l", "ul", "ll", "ull", "LL", "U"]
FLT = ["0.0", "1.0", "1.5", "2.0f", "1e2", "1E2", "1e-2", "1.5e+3f", "1e2f", "1e+2F", ".5", "5.", ".5f", "5.f",
       "0.1", "0.1f", "1.5F", "3.0e10", "123.456", "1e10", "1e-10f", "16777217.0", "16777217.0f",
       "1.0000000596046447753906250000000001f", "0.3", "0.3f", "1.7976931348623157e308",
       "3.4028234e38f", "1.5l", "1.5L", "2.l", "1e2L", "0.1L"]
BOOL = ["true", "false"]


def literals():
    out = []
    for v in DEC:
        for s in ISUF:
            out.append(str(v) + s)
    for fam in (HEX, OCT, BINL):
        for b in fam:
            for s in BSUF:
                out.append(b + s)
    out += FLT + BOOL
    return out


# ---- alphabets for the deeper families -----------------------------------------------------------------
L1 = ["0", "1", "2", "3", "7", "31", "32", "63", "64", "2147483647", "2147483648", "4294967295", "4294967296",
      "9223372036854775807", "0x7fffffff", "0x80000000", "0xffffffff", "0xffffffffffffffff",
      "1u", "2l", "3ul", "1ll", "2ull", "1.5", "2.0f", "1e2", "true", "false"]
# one literal per C++ type (+ 0 / boundary values): used where the product is cubic
L2 = ["0", "1", "3", "2147483647", "2u", "0x80000000", "2l", "1ul", "1.5", "2.0f", "true", "false"]
L3 = ["0", "1", "3", "2147483647", "2u", "3l", "1.5", "true"]
L4 = ["3", "2u", "1.5"]
UB_GUARDED = ["1 / 0", "1 % 0", "(1 / 0)", "(2147483647 + 1)", "(1 << 32)", "1u / 0u", "1l % 0l", "(1 / (1 - 1))"]


def fam_literals(tier):
    return literals()


def fam_unary(tier):
    out = []
    for op in UN:
        for a in L1:
            out.append(op + a)
    for o1 in UN:
        for o2 in UN:
            for a in L2:
                out.append(o1 + (" " if o1 == o2 and o1 in "+-" else "") + o2 + a)
                out.append(o1 + "(" + o2 + a + ")")
    return out


def fam_binary(tier):
    return ["%s %s %s" % (a, op, b) for op in BIN for a in L1 for b in L1]


def fam_negbinary(tier):
    out = []
    lits = L3 if tier == "quick" else L2
    for op in BIN:
        for a in lits:
            for b in lits:
                out.append("-%s %s %s" % (a, op, b))
                out.append("%s %s -%s" % (a, op, b))
                out.append("(-%s) %s (-%s)" % (a, op, b))
    return out


def fam_ternary(tier):
    conds = ["0", "1", "true", "false", "2u", "0.0", "1.5", "0l"]
    out = ["%s ? %s : %s" % (c, a, b) for c in conds for a in L2 for b in L2]
    return out


def fam_guard(tier):
    """operands C++ does not evaluate: every UB sub-expression behind every guard."""
    out = []
    for x in UB_GUARDED:
        out += ["0 && " + x, "false && " + x, "0 && (" + x + ")", "1 || " + x, "true || " + x, "3u || " + x,
                "1.5 || " + x, "0.0 && " + x,
                "1 ? 2 : " + x, "0 ? " + x + " : 2", "true ? 2u : " + x, "false ? " + x + " : 2.5",
                "(0 && " + x + ") + 1", "!(1 || " + x + ")", "0 && 1 && " + x, "1 || 0 || " + x,
                "0 && " + x + " && 1", "1 || " + x + " || 0", "(1 ? 0 : " + x + ") && " + x,
                "1 ? 2 : 0 ? " + x + " : 3", "0 ? " + x + " : 1 ? 5 : " + x]
    return out


def fam_paren2(tier):
    """depth 2, explicit parentheses: (a op1 b) op2 c and a op2 (b op1 c)."""
    lits = L4 if tier == "quick" else L3
    out = []
    for o2 in BIN:
        for o1 in BIN:
            for a, b, c in itertools.product(lits, repeat=3):
                out.append("(%s %s %s) %s %s" % (a, o1, b, o2, c))
                out.append("%s %s (%s %s %s)" % (a, o2, b, o1, c))
    return out


def fam_flat(tier):
    """no parentheses: grouping decided by precedence and associativity."""
    triples = [("7", "2", "3"), ("1u", "2", "3l")] if tier == "quick" else \
              [("7", "2", "3"), ("1u", "2", "3l"), ("1", "0", "2"), ("2.0f", "3", "1.5"), ("true", "5", "2u")]
    out = []
    for o1 in BIN:
        for o2 in BIN:
            for a, b, c in triples:
                out.append("%s %s %s %s %s" % (a, o1, b, o2, c))
    quads = [("1", "2", "3", "4"), ("0", "2u", "3l", "1.5")]
    for o1 in BIN:
        for a, b, c, d in quads:
            out.append("%s %s %s ? %s : %s" % (a, o1, b, c, d))
            out.append("%s ? %s %s %s : %s" % (a, b, o1, c, d))
            out.append("%s ? %s : %s %s %s" % (a, b, c, o1, d))
            for u in UN:
                out.append("%s%s %s %s" % (u, a, o1, b))
                out.append("%s %s %s%s" % (a, o1, u, b))
    out += ["0.0 == -0.0", "-0.0 != 0.0", "0.0f == -0.0f", "-0.0 < 0.0", "0.0 <= -0.0", "!-0.0", "-0.0 || 0", "-0.0 ? 1 : 2",
            "1.5 == 1.5f", "0.1 == 0.1f", "0.1f != 0.1", "16777217 == 16777217.0f", "9223372036854775807 == 9223372036854775808.0"]
    for a in ("0", "1"):
        for b in ("0", "1"):
            out.append("%s ? 2 : %s ? 3 : 4" % (a, b))
            out.append("%s ? %s ? 2 : 3 : 4" % (a, b))
            out.append("%s ? 2 : %s ? 3u : 4.5" % (a, b))
            out.append("(%s ? 2 : %s) ? 3 : 4" % (a, b))
    if tier != "quick":
        for o1 in BIN:
            for o2 in BIN:
                for o3 in ("+", "*", "<<", "<", "==", "&", "&&", "||"):
                    out.append("7 %s 2 %s 3 %s 1" % (o1, o2, o3))
    return out


FAMILIES = [("literal", fam_literals), ("unary", fam_unary), ("guard", fam_guard), ("ternary", fam_ternary),
            ("binary", fam_binary), ("negbinary", fam_negbinary), ("flat", fam_flat), ("paren2", fam_paren2)]


def all_items(tier):
    """-> list of (family, text), duplicates removed (first occurrence wins), simplest family first."""
    seen, out = set(), []
    for name, f in FAMILIES:
        for t in f(tier):
            if t not in seen:
                seen.add(t)
                out.append((name, t))
    return out
