"""Python model of C++17 constant-expression typing/evaluation on an LP64 host (int 32, long = long long 64).

This model is only a FILTER and a cross-check: it classifies an expression tree as
   'ok'  (well-formed, no undefined behaviour on the evaluated path),
   'ub'  (overflow, shift count >= width / negative, left shift of a negative value or out of the
          unsigned range, division/modulo by zero, INT_MIN / -1, floating result inf/nan),
   'ill' (ill-formed: % ~ << >> & | ^ on a floating operand, literal that fits no type).
The verdict reference is always g++ (+ UBSan); any disagreement between this model and g++ is reported
by the check as a harness error, never as a violation.

Trees:  ('lit', text) | ('par', x) | ('un', op, x) | ('bin', op, x, y) | ('ter', c, a, b)
Type tags: b1 i32 u32 i64 u64 f32 f64 f80 (f80 = long double: typed, but never evaluated here).
"""
import functools, math, re, struct
from fractions import Fraction

INT_TYPES = ("i32", "u32", "i64", "u64")
RANK = {"b1": 0, "i32": 1, "u32": 2, "i64": 3, "u64": 4, "f32": 5, "f64": 6, "f80": 7}
BITS = {"b1": 1, "i32": 32, "u32": 32, "i64": 64, "u64": 64}


def is_float(t):
    return t in ("f32", "f64", "f80")


def is_signed(t):
    return t in ("i32", "i64")


def irange(t):
    if t == "b1":
        return (0, 1)
    w = BITS[t]
    return (-(1 << (w - 1)), (1 << (w - 1)) - 1) if is_signed(t) else (0, (1 << w) - 1)


def fits(v, t):
    lo, hi = irange(t)
    return lo <= v <= hi


def wrap(v, t):
    """conversion of an integer value to integer type t (modular; defined for unsigned, and what every
    two's complement implementation does for signed - only used where C++ defines the result)."""
    if t == "b1":
        return 1 if v else 0
    w = BITS[t]
    v &= (1 << w) - 1
    if is_signed(t) and v >> (w - 1):
        v -= 1 << w
    return v


def round_f32(x):
    """round a Python float (double) or exact int/Fraction to the nearest float32, ties to even."""
    if isinstance(x, float):
        if math.isinf(x) or math.isnan(x):
            return x
        x = Fraction(x)
    return _round_frac(Fraction(x), 24, -149, 127)


def round_f64(x):
    if isinstance(x, float):
        return x
    return _round_frac(Fraction(x), 53, -1074, 1023)


def _round_frac(q, prec, emin_sub, emax):
    """exact rounding of a rational to a binary float format (precision prec bits, smallest subnormal
    2**emin_sub, largest exponent emax); returns a Python float (inf on overflow)."""
    if q == 0:
        return 0.0
    sign = -1 if q < 0 else 1
    q = abs(q)
    # exponent e with 2**e <= q < 2**(e+1)
    e = q.numerator.bit_length() - q.denominator.bit_length()
    if Fraction(2) ** e > q:
        e -= 1
    elif Fraction(2) ** (e + 1) <= q:
        e += 1
    ulp_exp = max(e - prec + 1, emin_sub)
    scaled = q / (Fraction(2) ** ulp_exp)
    n = scaled.numerator // scaled.denominator
    rem = scaled - n
    if rem > Fraction(1, 2) or (rem == Fraction(1, 2) and (n & 1)):
        n += 1
    val = Fraction(n) * (Fraction(2) ** ulp_exp)
    if val >= Fraction(2) ** (emax + 1):
        return sign * math.inf
    return sign * float(val)     # exactly representable in double for prec <= 53


# ---------------------------------------------------------------------------------------------
# literals
_INT_RE = re.compile(r"^(0[xX][0-9a-fA-F]+|0[bB][01]+|0[0-7]*|[1-9][0-9]*)([uUlL]*)$")
_FLT_RE = re.compile(r"^((?:[0-9]+\.[0-9]*|\.[0-9]+)(?:[eE][+-]?[0-9]+)?|[0-9]+[eE][+-]?[0-9]+)([fFlL]?)$")


@functools.lru_cache(maxsize=None)
def literal(text):
    """-> (type, value) or ('ill', None). value is int, float, or Fraction for f80."""
    if text == "true":
        return ("b1", 1)
    if text == "false":
        return ("b1", 0)
    m = _INT_RE.match(text)
    if m:
        body, suf = m.group(1), m.group(2).lower()
        if suf not in ("", "u", "l", "ul", "lu", "ll", "ull", "llu"):
            return ("ill", None)
        if body[:2].lower() == "0x":
            v, dec = int(body[2:], 16), False
        elif body[:2].lower() == "0b":
            v, dec = int(body[2:], 2), False
        elif body[0] == "0" and len(body) > 1:
            v, dec = int(body, 8), False
        else:
            v, dec = int(body, 10), True
        uns = "u" in suf
        lng = "l" in suf
        if uns:
            cands = ["u64"] if lng else ["u32", "u64"]
        elif dec:
            cands = ["i64"] if lng else ["i32", "i64"]
        else:
            cands = ["i64", "u64"] if lng else ["i32", "u32", "i64", "u64"]
        for t in cands:
            if fits(v, t):
                return (t, v)
        return ("ill", None)
    m = _FLT_RE.match(text)
    if m:
        body, suf = m.group(1), m.group(2).lower()
        q = _dec_fraction(body)
        if suf == "f":
            return ("f32", _round_frac(q, 24, -149, 127))
        if suf == "l":
            return ("f80", q)
        return ("f64", _round_frac(q, 53, -1074, 1023))
    return ("ill", None)


def _dec_fraction(body):
    m = re.match(r"^([0-9]*)\.?([0-9]*)(?:[eE]([+-]?[0-9]+))?$", body)
    ip, fp, ex = m.group(1) or "0", m.group(2) or "", int(m.group(3) or 0)
    q = Fraction(int(ip + fp), 10 ** len(fp))
    return q * (Fraction(10) ** ex)


# ---------------------------------------------------------------------------------------------
# typing
def promote(t):
    return "i32" if t == "b1" else t


def usual(a, b):
    """usual arithmetic conversions on LP64."""
    a, b = promote(a), promote(b)
    if is_float(a) or is_float(b):
        return a if RANK[a] >= RANK[b] else b
    if a == b:
        return a
    # integer: rank i32 < i64; unsigned wins at equal rank; i64 can represent all u32 values
    ra, rb = BITS[a], BITS[b]
    if ra == rb:
        return "u32" if ra == 32 else "u64"
    return a if ra > rb else b


ARITH = ("+", "-", "*", "/")
INTONLY = ("%", "&", "|", "^")
SHIFT = ("<<", ">>")
REL = ("<", "<=", ">", ">=", "==", "!=")
LOGIC = ("&&", "||")
BINOPS = ARITH + INTONLY + SHIFT + REL + LOGIC
UNOPS = ("+", "-", "!", "~")


@functools.lru_cache(maxsize=200000)
def typeof(n):
    """static type of the tree, or 'ill'."""
    k = n[0]
    if k == "lit":
        return literal(n[1])[0]
    if k == "par":
        return typeof(n[1])
    if k == "un":
        t = typeof(n[2])
        if t == "ill":
            return t
        if n[1] == "!":
            return "b1"
        if n[1] == "~":
            return "ill" if is_float(t) else promote(t)
        return promote(t)
    if k == "bin":
        a, b = typeof(n[2]), typeof(n[3])
        if "ill" in (a, b):
            return "ill"
        op = n[1]
        if op in ARITH:
            return usual(a, b)
        if op in INTONLY:
            return "ill" if (is_float(a) or is_float(b)) else usual(a, b)
        if op in SHIFT:
            return "ill" if (is_float(a) or is_float(b)) else promote(a)
        return "b1"
    if k == "ter":
        c, a, b = typeof(n[1]), typeof(n[2]), typeof(n[3])
        if "ill" in (c, a, b):
            return "ill"
        if a == b:
            return a          # both bool stays bool; same arithmetic type unchanged (no promotion)
        return usual(a, b)
    raise ValueError(n)


class UB(Exception):
    pass


class Unknown(Exception):
    """value not computed by the model (long double arithmetic)."""


def convert(v, src, dst):
    """implicit conversion of a value of type src to type dst; raises UB where C++ leaves it undefined."""
    if src == dst:
        return v
    if dst == "f80" or src == "f80":
        raise Unknown()
    if is_float(dst):
        if is_float(src):
            return round_f32(v) if dst == "f32" else v
        return round_f32(v) if dst == "f32" else round_f64(v)
    if dst == "b1":
        return 1 if v != 0 else 0
    if is_float(src):
        tv = math.trunc(v)
        if not fits(tv, dst):
            raise UB("float->int out of range")
        return tv
    return wrap(v, dst)


def _fin(x, t):
    if t == "f32":
        x = round_f32(x)
    if math.isinf(x) or math.isnan(x):
        raise UB("floating result not finite")
    return x


def evaluate(n):
    """-> value (int or float) of a well-formed tree; raises UB / Unknown."""
    k = n[0]
    if k == "lit":
        t, v = literal(n[1])
        if t == "f80":
            raise Unknown()
        return v
    if k == "par":
        return evaluate(n[1])
    if k == "un":
        op = n[1]
        st = typeof(n[2])
        v = evaluate(n[2])
        if op == "!":
            return 0 if v != 0 else 1
        t = promote(st)
        if op == "+":
            return v
        if op == "-":
            if is_float(t):
                return -v
            r = -v
            if is_signed(t):
                if not fits(r, t):
                    raise UB("negation overflow")
                return r
            return wrap(r, t)
        if op == "~":
            return wrap(~v, t)
    if k == "bin":
        op = n[1]
        ta, tb = typeof(n[2]), typeof(n[3])
        if op in LOGIC:
            a = evaluate(n[2])
            if op == "&&":
                if a == 0:
                    return 0
            else:
                if a != 0:
                    return 1
            b = evaluate(n[3])
            return 1 if b != 0 else 0
        a, b = evaluate(n[2]), evaluate(n[3])
        if op in SHIFT:
            t = promote(ta)
            w = BITS[t]
            if b < 0 or b >= w:
                raise UB("shift count")
            if op == ">>":
                return a >> b           # arithmetic shift for negative values (what gcc defines)
            if is_signed(t):
                if a < 0:
                    raise UB("left shift of negative")
                r = a << b
                if r >= (1 << w):       # C++14/17: must be representable in the unsigned counterpart
                    raise UB("left shift overflow")
                return wrap(r, t)
            return wrap(a << b, t)
        t = usual(ta, tb)
        a, b = convert(a, ta, t), convert(b, tb, t)
        if op in REL:
            return int({"<": a < b, "<=": a <= b, ">": a > b, ">=": a >= b, "==": a == b, "!=": a != b}[op])
        if is_float(t):
            if op == "+":
                return _fin(a + b, t)
            if op == "-":
                return _fin(a - b, t)
            if op == "*":
                return _fin(a * b, t)
            if op == "/":
                if b == 0:
                    raise UB("float division by zero")
                return _fin(a / b, t)
        if op in ("/", "%"):
            if b == 0:
                raise UB("division by zero")
            if is_signed(t) and a == irange(t)[0] and b == -1:
                raise UB("INT_MIN / -1")
            q = abs(a) // abs(b)
            if (a < 0) != (b < 0):
                q = -q
            return q if op == "/" else a - q * b
        r = {"+": lambda: a + b, "-": lambda: a - b, "*": lambda: a * b,
             "&": lambda: a & b, "|": lambda: a | b, "^": lambda: a ^ b}[op]()
        if is_signed(t):
            if not fits(r, t):
                raise UB("signed overflow")
            return r
        return wrap(r, t)
    if k == "ter":
        t = typeof(n)
        c = evaluate(n[1])
        br = n[2] if c != 0 else n[3]
        return convert(evaluate(br), typeof(br), t)
    raise ValueError(n)


def has_bad_literal(n):
    if n[0] == "lit":
        return literal(n[1])[0] == "ill"
    return any(has_bad_literal(ch) for ch in children(n))


def classify(n):
    """-> ('nolit',None,None) a literal fits no C++ type (g++ accepts it as an extension: not judged)
        | ('ill',None,None) | ('ub',type,why) | ('ok',type,value) | ('ok',type,None) when value unknown"""
    if has_bad_literal(n):
        return ("nolit", None, None)
    t = typeof(n)
    if t == "ill":
        return ("ill", None, None)
    try:
        v = evaluate(n)
    except UB as e:
        return ("ub", t, str(e))
    except Unknown:
        return ("ok", t, None)
    return ("ok", t, v)


# ---------------------------------------------------------------------------------------------
# text
def text(n):
    """source text, fully determined by the tree (parentheses only where the tree has 'par' nodes)."""
    k = n[0]
    if k == "lit":
        return n[1]
    if k == "par":
        return "(" + text(n[1]) + ")"
    if k == "un":
        s = text(n[2])
        # avoid gluing '- -1' into '--1', '+ +1' into '++1'
        return n[1] + (" " if s[:1] in "+-" and s[:1] == n[1] else "") + s
    if k == "bin":
        return text(n[2]) + " " + n[1] + " " + text(n[3])
    if k == "ter":
        return text(n[1]) + " ? " + text(n[2]) + " : " + text(n[3])
    raise ValueError(n)


def wrapped(n):
    """same expression with every literal L replaced by VL(L): a value of the same type that the optimiser
    cannot see through, so that UBSan instruments the evaluation instead of g++ folding it."""
    k = n[0]
    if k == "lit":
        return "VL(" + n[1] + ")"
    if k == "par":
        return "(" + wrapped(n[1]) + ")"
    if k == "un":
        return n[1] + " " + wrapped(n[2])
    if k == "bin":
        return wrapped(n[2]) + " " + n[1] + " " + wrapped(n[3])
    if k == "ter":
        return wrapped(n[1]) + " ? " + wrapped(n[2]) + " : " + wrapped(n[3])
    raise ValueError(n)


def children(n):
    k = n[0]
    if k == "lit":
        return []
    if k in ("par",):
        return [n[1]]
    if k == "un":
        return [n[2]]
    if k == "bin":
        return [n[2], n[3]]
    return [n[1], n[2], n[3]]


# ---------------------------------------------------------------------------------------------
# C++ grammar (precedence climbing) : text -> tree.  Used so that items are *texts* and the model tree is
# always the tree C++ assigns to the text (the flat families have no parentheses at all).
_TOK = re.compile(r"\s*(0[xX][0-9a-fA-F]+[uUlL]*|0[bB][01]+[uUlL]*|(?:[0-9]+\.[0-9]*|\.[0-9]+)(?:[eE][+-]?[0-9]+)?[fFlL]?|"
                  r"[0-9]+[eE][+-]?[0-9]+[fFlL]?|[0-9]+[uUlL]*|true|false|<<|>>|<=|>=|==|!=|&&|\|\||[-+*/%<>&|^!~?:()])")
_PREC = {"*": 10, "/": 10, "%": 10, "+": 9, "-": 9, "<<": 8, ">>": 8, "<": 7, "<=": 7, ">": 7, ">=": 7,
         "==": 6, "!=": 6, "&": 5, "^": 4, "|": 3, "&&": 2, "||": 1}


def tokenize(s):
    out, i = [], 0
    s = s.rstrip()
    while i < len(s):
        m = _TOK.match(s, i)
        if not m:
            raise ValueError("cannot tokenize %r at %d" % (s, i))
        out.append(m.group(1))
        i = m.end()
    return out


@functools.lru_cache(maxsize=200000)
def parse(s):
    toks = tokenize(s)
    pos = [0]

    def peek():
        return toks[pos[0]] if pos[0] < len(toks) else None

    def take():
        t = toks[pos[0]]
        pos[0] += 1
        return t

    def primary():
        t = take()
        if t == "(":
            e = cond()
            if take() != ")":
                raise ValueError("expected )")
            return ("par", e)
        if t in UNOPS:
            return ("un", t, primary())
        if t[0].isdigit() or t[0] == "." or t in ("true", "false"):
            return ("lit", t)
        raise ValueError("unexpected token %r in %r" % (t, s))

    def binary(minp):
        lhs = primary()
        while True:
            t = peek()
            if t in _PREC and _PREC[t] >= minp:
                take()
                rhs = binary(_PREC[t] + 1)
                lhs = ("bin", t, lhs, rhs)
            else:
                return lhs

    def cond():
        c = binary(1)
        if peek() == "?":
            take()
            a = cond()          # between ? and : any expression (no comma/assignment in this grammar)
            if take() != ":":
                raise ValueError("expected :")
            b = cond()          # right associative
            return ("ter", c, a, b)
        return c

    e = cond()
    if pos[0] != len(toks):
        raise ValueError("trailing tokens in %r" % s)
    return e


def generic(n, lits=None):
    """expression text with the k-th literal replaced by the identifier l<k>; returns (text, literal list)."""
    top = lits is None
    if top:
        lits = []
    k = n[0]
    if k == "lit":
        lits.append(n[1])
        s = "l%d" % (len(lits) - 1)
    elif k == "par":
        s = "(" + generic(n[1], lits)[0] + ")"
    elif k == "un":
        s = n[1] + " " + generic(n[2], lits)[0]
    elif k == "bin":
        a = generic(n[2], lits)[0]
        b = generic(n[3], lits)[0]
        s = a + " " + n[1] + " " + b
    else:
        c = generic(n[1], lits)[0]
        a = generic(n[2], lits)[0]
        b = generic(n[3], lits)[0]
        s = c + " ? " + a + " : " + b
    return (s, lits)
