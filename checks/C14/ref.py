"""Reference side of C14: the host compiler (g++ -std=c++17).

Three kinds of generated translation units, all built from the item *texts*:
  cx   `constexpr auto c = (<text>);` - g++'s constant evaluation gives type and value.  g++ must reject
       undefined behaviour in a constant expression, so a compile error on an item the Python filter calls
       defined is a filter/g++ disagreement (harness error, never a verdict).
  rt   the same expression with every literal L replaced by VL(L) (same type, opaque to the optimiser),
       compiled with -fsanitize=undefined,float-divide-by-zero,float-cast-overflow and evaluated at run time;
       a 'runtime error:' report or a caught SIGFPE marks the item as undefined in C++.  Used for every item
       the filter calls undefined (UBSan must confirm) and as a second opinion on defined items.
  ill  SFINAE test that g++ rejects the operator/operand-type combination of items the filter calls ill-formed.
"""
import os, re, subprocess
from concurrent.futures import ThreadPoolExecutor

PRELUDE = r'''
#include <cstdio>
#include <csetjmp>
#include <csignal>
#include <unistd.h>
template<class T> __attribute__((noinline)) T VL(T x){ volatile T v = x; return v; }
void out(bool v){ printf("R b1 %d\n", (int)v);}
void out(int v){ printf("R i32 %d\n", v);}
void out(unsigned v){ printf("R u32 %u\n", v);}
void out(long v){ printf("R i64 %ld\n", v);}
void out(unsigned long v){ printf("R u64 %lu\n", v);}
void out(long long v){ printf("R i64 %lld\n", v);}
void out(unsigned long long v){ printf("R u64 %llu\n", v);}
void out(float v){ printf("R f32 %a\n", (double)v);}
void out(double v){ printf("R f64 %a\n", v);}
void out(long double v){ printf("R f80 %La\n", v);}
template<class T> void out(T) = delete;      // no silent conversions: any other type is a compile error
'''

MAIN = r'''
static sigjmp_buf JB;
static void on_fpe(int){ siglongjmp(JB, 1); }
int main(){
  dup2(1, 2); setvbuf(stdout, 0, _IOLBF, 0);
  signal(SIGFPE, on_fpe);
  for (int i = 0; i < N; ++i) {
    printf("@ %d\n", i);
    if (sigsetjmp(JB, 1) == 0) run(i);
    else printf("\nX SIGFPE\n");
  }
  printf("@ done\n");
  return 0;
}
'''

SANFLAGS = ["-fsanitize=undefined,float-divide-by-zero,float-cast-overflow"]


def _build_tu(kind, items):
    parts = [PRELUDE, "static void run(int i){ switch(i){\n"]
    for i, t in enumerate(items):
        if kind == "cx":
            parts.append("case %d: { constexpr auto c = (%s); out(c); break; }\n" % (i, t))
        else:
            parts.append("case %d: { out(%s); break; }\n" % (i, t))
    parts.append("}}\nstatic const int N = %d;\n" % len(items))
    parts.append(MAIN)
    return "".join(parts)


class RefResult:
    __slots__ = ("status", "type", "value", "note")

    def __init__(self):
        self.status = None      # 'ok' | 'ub'
        self.type = None
        self.value = None       # string as printed
        self.note = ""


def _run_chunk(kind, ci, items, workdir, env):
    src = os.path.join(workdir, "%s%d.cpp" % (kind, ci))
    exe = os.path.join(workdir, "%s%d" % (kind, ci))
    with open(src, "w") as f:
        f.write(_build_tu(kind, items))
    flags = ["-std=c++17", "-O0", "-w"] + (SANFLAGS if kind == "rt" else [])
    p = subprocess.run(["g++"] + flags + [src, "-o", exe], stdout=subprocess.PIPE, stderr=subprocess.STDOUT,
                       text=True, env=env)
    if p.returncode != 0:
        return ("compile-error", p.stdout, src)
    q = subprocess.run([exe], stdout=subprocess.PIPE, stderr=subprocess.STDOUT, text=True, env=env, cwd=workdir)
    res = [RefResult() for _ in items]
    cur = None
    done = False
    for ln in q.stdout.split("\n"):
        if ln.startswith("@ "):
            if ln == "@ done":
                done = True
                cur = None
            else:
                cur = res[int(ln[2:])]
                cur.status = "ok"
        elif cur is None:
            continue
        elif ln.startswith("R "):
            f = ln.split()
            cur.type = f[1]
            cur.value = f[2]
        elif "runtime error:" in ln:
            cur.status = "ub"
            cur.note = ln.split("runtime error:", 1)[1].strip()
        elif ln.startswith("X "):
            cur.status = "ub"
            cur.note = cur.note or ln[2:]
    if not done or q.returncode != 0:
        return ("run-error", q.stdout[-3000:], src)
    for e in (src, exe):
        try:
            os.unlink(e)
        except OSError:
            pass
    return ("ok", res, None)


def run(kind, items, workdir, env, chunk=None, workers=16):
    """kind 'cx': items are plain texts; kind 'rt': items are VL()-wrapped texts.
    -> (list of RefResult, error or None)"""
    os.makedirs(workdir, exist_ok=True)
    if chunk is None:
        chunk = 1000 if kind == "cx" else 300
    chunks = [items[i:i + chunk] for i in range(0, len(items), chunk)]
    out = []
    with ThreadPoolExecutor(max_workers=workers) as ex:
        for st, res, src in ex.map(lambda a: _run_chunk(kind, a[0], a[1], workdir, env), list(enumerate(chunks))):
            if st != "ok":
                return None, "%s in %s:\n%s" % (st, src, res[-4000:] if isinstance(res, str) else res)
            out.extend(res)
    return out, None


# ---------------------------------------------------------------------------------------------------------
# ill-formedness cross-check: every literal becomes a generic-lambda parameter, SFINAE on the return type
ILL_PRELUDE = r'''
#include <cstdio>
#include <utility>
template<class F, class... A> constexpr auto valid(int, F f, A... a) -> decltype(f(a...), true) { return true; }
template<class F, class... A> constexpr bool valid(long, F, A...) { return false; }
int main(){
'''


def run_ill(items, workdir, env, chunk=1500, workers=16):
    """items: list of (generic_expr, nparams, literal_texts).  -> (list of bool 'g++ accepts', error)"""
    os.makedirs(workdir, exist_ok=True)

    def one(a):
        ci, its = a
        src = os.path.join(workdir, "ill%d.cpp" % ci)
        exe = os.path.join(workdir, "ill%d" % ci)
        parts = [ILL_PRELUDE]
        for i, (gexpr, n, lits) in enumerate(its):
            params = ", ".join("auto l%d" % k for k in range(n))
            parts.append('  printf("%%d\\n", (int) valid(0, [](%s) -> decltype(%s) { return %s; }, %s));\n'
                         % (params, gexpr, gexpr, ", ".join(lits)))
        parts.append("  return 0;\n}\n")
        with open(src, "w") as f:
            f.write("".join(parts))
        p = subprocess.run(["g++", "-std=c++17", "-O0", "-w", src, "-o", exe], stdout=subprocess.PIPE,
                           stderr=subprocess.STDOUT, text=True, env=env)
        if p.returncode != 0:
            return ("compile-error", p.stdout[-4000:], src)
        q = subprocess.run([exe], stdout=subprocess.PIPE, stderr=subprocess.STDOUT, text=True, env=env)
        vals = [ln == "1" for ln in q.stdout.split("\n") if ln in ("0", "1")]
        if q.returncode != 0 or len(vals) != len(its):
            return ("run-error", q.stdout[-2000:], src)
        os.unlink(src)
        os.unlink(exe)
        return ("ok", vals, None)

    chunks = [items[i:i + chunk] for i in range(0, len(items), chunk)]
    out = []
    with ThreadPoolExecutor(max_workers=workers) as ex:
        for st, res, src in ex.map(one, list(enumerate(chunks))):
            if st != "ok":
                return None, "%s in %s:\n%s" % (st, src, res)
            out.extend(res)
    return out, None
