// C27: hash_t strings are faithful and hashing has no undefined behaviour.
//
// Batch driver (vlib.batch protocol).  stderr is merged into the line-flushed result stream, so a UBSan
// `runtime error:` report (recoverable in the asan variant) appears between the BEGIN/END lines of the item
// that caused it.  UBSan reports each source location once per process: the first offending item of every
// driver process is attributed exactly, later items of the same process are not reported again (check.py
// uses many small driver processes and reports this in the evidence).
//
// Items (one per line):
//   S <hex>              hash the byte string <hex> ('-' = empty) through every entry point
//   X <hexA> <hexB>      combine hash(A) ^ hash(B) (operator^, operator^=, hash_t ^ T)
//   V <64 hex chars>     hash value read with hash_t::fromString
// Result lines of an item:
//   R <full string> <short string>      the observed value (compared between two processes)
//   F <signature>\t<detail>             oracle clause failed
//   <path>:<l>:<c>: runtime error: ...  UBSan report (written by the sanitizer runtime itself)
#include <cstdio>
#include <cstdlib>
#include <cstring>
#include <fstream>
#include <sstream>
#include <string>
#include <vector>
#include <unistd.h>

#include <occa/utils/hash.hpp>
#include <occa/types/json.hpp>

static std::string unhex(const std::string &h) {
  std::string out;
  if (h == "-") return out;
  for (size_t i = 0; i + 1 < h.size(); i += 2) {
    out += (char) strtol(h.substr(i, 2).c_str(), NULL, 16);
  }
  return out;
}

static void fail(const std::string &sig, const std::string &detail) {
  std::string d = detail;
  for (auto &ch : d) if (ch == '\n' || ch == '\t' || ch == '\r') ch = ' ';
  printf("F %s\t%s\n", sig.c_str(), d.c_str());
}

static bool isZero(const occa::hash_t &h) {
  for (int i = 0; i < 8; ++i) if (h.h[i]) return false;
  return true;
}

// The clauses of the property that speak about one hash value.
//   tag: how the value was obtained (part of the signature), `other`: a different value used to
//   pre-load the short-string cache before an assignment.
static void checkValue(const occa::hash_t &h, const std::string &tag, const occa::hash_t &other) {
  const std::string z = isZero(h) ? ":zero-hash" : "";
  const std::string full = h.getFullString();
  if (full.size() != 64) {
    fail("full-string-length:" + tag, "getFullString() has " + std::to_string(full.size()) + " characters: " + full);
    return;
  }
  const std::string expectShort = full.substr(0, 16);

  // 1. reading back the full string gives the same hash
  occa::hash_t back = occa::hash_t::fromString(full);
  if (!(back == h) || (back != h)) {
    fail("fromString-roundtrip:" + tag + z, "fromString(" + full + ").getFullString()=" + back.getFullString());
  }
  if (back.getFullString() != full) {
    fail("fromString-roundtrip-text:" + tag + z, "fromString(" + full + ").getFullString()=" + back.getFullString());
  }

  // 2. the short string is the first 16 characters of the full string
  const std::string s1 = h.getString();
  if (s1 != expectShort) {
    fail("short-string:first-call:" + tag + z, "getString()='" + s1 + "' full=" + full);
  }
  const std::string s2 = h.getString();
  if (s2 != expectShort) {
    fail("short-string:second-call:" + tag + z, "second getString()='" + s2 + "' full=" + full);
  }
  if (((std::string) h) != expectShort) {
    fail("short-string:string-cast:" + tag + z, "(std::string) h='" + ((std::string) h) + "' full=" + full);
  }
  {
    std::stringstream ss;
    ss << h;
    if (ss.str() != expectShort) {
      fail("short-string:stream:" + tag + z, "operator<< printed '" + ss.str() + "' full=" + full);
    }
  }
  // value read back from its string
  if (back.getString() != expectShort) {
    fail("short-string:after-fromString:" + tag + z, "fromString(full).getString()='" + back.getString() + "' full=" + full);
  }
  // copies (copy construction from a value whose cache is loaded / not loaded)
  {
    occa::hash_t c1(h);
    if (c1.getString() != expectShort) {
      fail("short-string:copy:" + tag + z, "copy.getString()='" + c1.getString() + "' full=" + full);
    }
    if (c1.getFullString() != full) {
      fail("full-string:copy:" + tag + z, "copy.getFullString()=" + c1.getFullString() + " full=" + full);
    }
  }
  // assignment over an object whose short string was already asked for
  {
    occa::hash_t g(other);
    const std::string otherShort = g.getString();
    g = h;
    const std::string s = g.getString();
    if (s != expectShort) {
      fail("short-string:after-assignment:" + tag + z,
           "g=" + other.getFullString() + "; g.getString()='" + otherShort + "'; g=h; g.getString()='" + s + "' h full=" + full);
    }
    if (g.getFullString() != full) {
      fail("full-string:after-assignment:" + tag + z, "g=h; g.getFullString()=" + g.getFullString() + " full=" + full);
    }
  }
  // in-place combination that reaches this value: g = other; g.getString(); g ^= (other ^ h)
  {
    occa::hash_t g(other);
    g.getString();
    g ^= (other ^ h);
    if (!(g == h)) {
      fail("xor-algebra:" + tag + z, "other ^ (other ^ h) != h: " + g.getFullString() + " vs " + full);
    } else if (g.getString() != expectShort) {
      fail("short-string:after-xor-assign:" + tag + z,
           "g=other; g.getString(); g^=(other^h); g.getString()='" + g.getString() + "' full=" + full);
    }
  }
  // JSON carries hashes as full strings (json(hash_t)); reading that back gives the same hash
  {
    occa::json j(h);
    occa::hash_t viaJson = occa::hash_t::fromString(j.string());
    if (viaJson != h) {
      fail("fromString-roundtrip:json:" + tag + z, "fromString(json(h).string()) differs: " + viaJson.getFullString());
    }
  }
  // clear() gives the default value back, whose strings obey the same rule
  {
    occa::hash_t g(h);
    g.getString();
    g.clear();
    const std::string f = g.getFullString();
    if (g.getString() != f.substr(0, 16)) {
      fail("short-string:after-clear:" + tag + z, "h.getString(); h.clear(); getString()='" + g.getString() + "' full=" + f);
    }
  }
  printf("R %s %s\n", full.c_str(), s1.c_str());
}

// Hash the bytes through every entry point, from separately allocated exact-size buffers.
static occa::hash_t hashBytes(const std::string &bytes, const std::string &tag) {
  const size_t n = bytes.size();
  char *b1 = new char[n ? n : 1];
  memcpy(b1, bytes.data(), n);
  occa::hash_t h1 = occa::hash((const void*) b1, (occa::udim_t) n);
  delete [] b1;

  char *b2 = (char*) malloc(n + 32);
  memcpy(b2 + 17, bytes.data(), n);          // different alignment, different address
  occa::hash_t h2 = occa::hash((const void*) (b2 + 17), (occa::udim_t) n);
  free(b2);
  if (h1 != h2) {
    fail("equal-bytes-different-hash:buffers:" + tag, "hash(ptr,bytes) of two buffers with equal contents differ: "
         + h1.getFullString() + " vs " + h2.getFullString());
  }
  occa::hash_t h3 = occa::hash(bytes);
  if (h1 != h3) {
    fail("equal-bytes-different-hash:std-string:" + tag, "hash(std::string) differs from hash(ptr,bytes): "
         + h3.getFullString() + " vs " + h1.getFullString());
  }
  {
    std::string *heapStr = new std::string(bytes);   // a second std::string object at another address
    occa::hash_t h3b = occa::hash(*heapStr);
    delete heapStr;
    if (h3b != h3) {
      fail("equal-bytes-different-hash:std-string-objects:" + tag, "hash of two equal std::string objects differ: "
           + h3.getFullString() + " vs " + h3b.getFullString());
    }
  }
  if (bytes.find('\0') == std::string::npos) {
    char *b3 = new char[n + 1];
    memcpy(b3, bytes.data(), n);
    b3[n] = '\0';
    occa::hash_t h4 = occa::hash((const char*) b3);
    delete [] b3;
    if (h1 != h4) {
      fail("equal-bytes-different-hash:c-string:" + tag, "hash(const char*) differs from hash(ptr,bytes): "
           + h4.getFullString() + " vs " + h1.getFullString());
    }
  }
  if (!h1.isInitialized()) {
    fail("initialized-flag:" + tag, "hash(ptr,bytes) returned a hash_t that is not initialized");
  }
  return h1;
}

static void runItem(const std::string &line) {
  std::istringstream is(line);
  std::string kind, a, b;
  is >> kind >> a >> b;
  const occa::hash_t other = occa::hash_t::fromString("0123456789abcdef0123456789abcdef0123456789abcdef0123456789abcdef");
  if (kind == "S") {
    const std::string bytes = unhex(a);
    occa::hash_t h = hashBytes(bytes, "bytes");
    checkValue(h, "bytes", other);
  } else if (kind == "X") {
    occa::hash_t ha = hashBytes(unhex(a), "bytes");
    occa::hash_t hb = hashBytes(unhex(b), "bytes");
    occa::hash_t x = ha ^ hb;
    occa::hash_t y = ha;
    y ^= hb;
    if (x != y) {
      fail("xor-algebra:assign-vs-binary", "a^b != (a^=b): " + x.getFullString() + " vs " + y.getFullString());
    }
    occa::hash_t yx = hb ^ ha;
    if (x != yx) {
      fail("xor-algebra:commutative", "a^b != b^a");
    }
    // hash_t ^ T is documented as "the XOR with the hash of the given value": for a byte string given as
    // std::string / const char* that is the hash of its bytes, whatever object holds them
    {
      const std::string bs = unhex(b);
      occa::hash_t viaT = ha ^ bs;
      if (viaT != x) {
        fail("equal-bytes-different-hash:xor-with-std-string", "(a ^ std::string(B)) != (a ^ hash(B)): " + viaT.getFullString() + " vs " + x.getFullString());
      }
      if (bs.find('\0') == std::string::npos) {
        char *cs = new char[bs.size() + 1];
        memcpy(cs, bs.c_str(), bs.size() + 1);
        const char *ccs = cs;
        occa::hash_t viaC = ha ^ ccs;
        delete [] cs;
        if (viaC != x) {
          fail("equal-bytes-different-hash:xor-with-c-string", "(a ^ (const char*) B) != (a ^ hash(B)): " + viaC.getFullString() + " vs " + x.getFullString());
        }
      }
    }
    if (!x.isInitialized()) {
      fail("initialized-flag:combined", "a^b is not initialized");
    }
    checkValue(x, "combined", other);
  } else if (kind == "V") {
    occa::hash_t h = occa::hash_t::fromString(a);
    if (h.getFullString() != a) {
      fail("fromString-text:value", "fromString(" + a + ").getFullString()=" + h.getFullString());
    }
    checkValue(h, "value", other);
  } else {
    printf("F harness:bad-item\t%s\n", line.c_str());
  }
}

int main(int argc, char **argv) {
  if (argc < 2) return 2;
  setvbuf(stdout, NULL, _IOLBF, 0);
  // Sanitizer reports go to fd 2, unbuffered.  Send them into the (line-flushed) result stream so that a
  // report appears between the BEGIN/END lines of the item that caused it.
  dup2(1, 2);
  if (std::string(argv[1]) == "one") {       // replay: evaluate one item in this process
    std::string line;
    for (int i = 2; i < argc; ++i) line += std::string(i > 2 ? " " : "") + argv[i];
    runItem(line);
    return 0;
  }
  std::ifstream in(argv[1]);
  std::string line;
  long idx = 0;
  while (std::getline(in, line)) {
    printf("BEGIN %ld\n", idx);
    runItem(line);
    printf("END %ld\n", idx);
    ++idx;
  }
  return 0;
}
