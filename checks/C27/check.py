#!/usr/bin/env python3
"""C27: hash_t strings are faithful and hashing has no undefined behaviour (E2 bounded-exhaustive).

Alphabet / bound
  S  byte strings: all strings of length <= 3 over {00,01,'a',7f,80,ff} and all strings of length <= 2
     over all 256 byte values (thorough additionally: length 3 = 256 x 256 x 6-byte alphabet)
  X  all ordered pairs a^b of a 40-string sub-alphabet (a^a = the all-zero hash)
  V  hash values read from their string: every nibble position x every nibble value on an all-'0' and
     an all-'f' background
Oracle (exactly the property's clauses)
  - fromString(getFullString(h)) == h
  - getString(h) == first 16 characters of getFullString(h)   (first call, second call, string cast,
    stream output, on copies, after assignment over an object with a loaded cache, after ^=, after clear)
  - equal bytes => equal hash: between buffers / entry points inside a process and between two separately
    started processes (second pass of the same items, other environment block and other working directory;
    thorough: also the differently compiled 'rel' variant)
  - no undefined behaviour: items run in the ASan+UBSan build; any
    `runtime error:` report (UBSan is recoverable in the asan variant; the driver merges stderr into its result
    stream so a report sits between the BEGIN/END lines of its item) and any crash is a violation.  UBSan reports a
    source location once per process, therefore the items run in 32 separate driver processes (a driver start costs about 1 CPU-second): the first
    offending item of each process is attributed exactly
"""
import os, re, sys, time
sys.path.insert(0, os.path.dirname(os.path.dirname(os.path.dirname(os.path.abspath(__file__)))))
from vlib.core import Check, san_env, load_replay, sh, REPO
from vlib.batch import run_items

HERE = os.path.dirname(os.path.abspath(__file__))


def rerun_timeouts(results, items, cmd, workdir, env):
    """A driver that exceeds its wall-clock limit on a loaded machine is not an observation about the item:
    re-run such an item alone with a generous limit; only a reproducible timeout stays a crash."""
    n = 0
    for r in results:
        if r.crash == "timeout":
            n += 1
            res, _ = run_items(cmd, [items[r.index]], os.path.join(workdir, "retry"), env, chunk=1, workers=1, per_item_timeout=300)
            if res and not res[0].crash:
                r.lines, r.crash, r.stderr = res[0].lines, None, ""
    return n


def fast_env(scratch, extra=None):
    """san_env with a small ASan quarantine: the default 256 MB quarantine makes every allocation of a long-running
    driver touch fresh pages (measured: 3.4x wall, 5x system time); 8 MB still catches use-after-free of recent frees."""
    env = san_env(scratch, extra)
    env["ASAN_OPTIONS"] += ":quarantine_size_mb=8"
    return env
SMALL = [0x00, 0x01, 0x61, 0x7f, 0x80, 0xff]


def hx(bs):
    return "".join("%02x" % b for b in bs) or "-"


def gen_items(tier):
    seen = set()
    items = []

    def add(bs):
        k = bytes(bs)
        if k not in seen:
            seen.add(k)
            items.append("S " + hx(bs))

    add([])
    for a in SMALL:
        add([a])
    for a in SMALL:
        for b in SMALL:
            add([a, b])
    for a in SMALL:
        for b in SMALL:
            for c in SMALL:
                add([a, b, c])
    for a in range(256):
        add([a])
    for a in range(256):
        for b in range(256):
            add([a, b])
    if tier == "thorough":
        for a in range(256):
            for b in range(256):
                for c in SMALL:
                    add([a, b, c])
    n_s = len(items)
    # 40-string sub-alphabet for combinations: empty, the 6 single bytes, the 36 pairs minus a few = 40
    sub = [[]] + [[a] for a in SMALL] + [[a, b] for a in SMALL for b in SMALL][:33]
    assert len(sub) == 40
    for a in sub:
        for b in sub:
            items.append("X %s %s" % (hx(a), hx(b)))
    n_x = len(items) - n_s
    vals = []
    for bg in "0f":
        vals.append(bg * 64)
        for pos in range(64):
            for v in "0123456789abcdef":
                if v != bg:
                    vals.append(bg * pos + v + bg * (63 - pos))
    vals.append("0123456789abcdef" * 4)
    vals.append("fedcba9876543210" * 4)
    for v in vals:
        items.append("V " + v)
    return items, n_s, n_x, len(vals)



def ub_signature(line):
    """<path>:<l>:<c>: runtime error: <text>  ->  ub:<kind>:<file basename>"""
    m = re.match(r"\s*(\S+?):(\d+):(\d+): runtime error: (.*)", line)
    if not m:
        return None, None, line
    path, text = m.group(1), m.group(4)
    kind = "other"
    for kw, k in (("signed integer overflow", "signed-integer-overflow"), ("shift", "shift"),
                  ("null pointer", "null-pointer"), ("misaligned", "misaligned"),
                  ("out of bounds", "out-of-bounds"), ("negation of", "negation-overflow"),
                  ("division by zero", "division-by-zero"), ("load of value", "invalid-value"),
                  ("outside the range of representable", "float-cast-overflow"), ("unsigned integer overflow", "unsigned-overflow")):
        if kw in text:
            kind = k
            break
    return path, "ub:%s:%s" % (kind, os.path.basename(path)), text


def judge(c, items, results, first_pass=True):
    """Returns dict index -> 'R' payload; records violations of the in-process clauses."""
    values = {}
    stats = {"ub_reports": 0, "fails": 0, "crashes": 0}
    for r in results:
        it = items[r.index]
        for ln in r.lines:
            t = ln[:2]
            if t == "R ":
                values[r.index] = ln[2:]
            elif t == "F ":
                sig, _, detail = ln[2:].partition("\t")
                stats["fails"] += 1
                if sig.startswith("harness:"):
                    c.harness_error("driver rejected item %r" % it)
                if first_pass:
                    c.violation(sig, "item %s :: %s" % (it, detail), {"item": it})
            elif "runtime error:" in ln:
                path, sig, text = ub_signature(ln)
                stats["ub_reports"] += 1
                if path is None:
                    c.harness_error("unparsed sanitizer line: " + ln)
                if os.path.abspath(path).startswith(os.path.abspath(HERE)):
                    c.harness_error("UBSan report inside the harness itself: " + ln)
                if first_pass:
                    c.violation(sig + ":" + KIND[it[0]], "item %s :: %s" % (it, ln.strip()), {"item": it})
        if r.crash:
            stats["crashes"] += 1
            tail = " | ".join(r.lines[-6:])
            cls = "asan" if "AddressSanitizer" in tail else r.crash.replace(":", "")
            c.violation("crash:%s:%s" % (cls, KIND[it[0]]), "item %s :: driver %s :: %s" % (it, r.crash, (tail + r.stderr)[-700:]), {"item": it})
    return values, stats


KIND = {"S": "hash-bytes", "X": "combine", "V": "value-from-string"}


def main():
    c = Check("C27", "exploration")
    c.build("asan")
    exe = c.compile(os.path.join(HERE, "harness.cpp"), "harness")
    env = fast_env(c.scratch)
    if c.args.replay:
        r = load_replay(c.args.replay)
        item = r["replay"]["item"]
        wd = os.path.join(c.scratch, "r")
        os.makedirs(wd, exist_ok=True)
        res, _ = run_items([exe], [item], wd, env, chunk=1, workers=1, per_item_timeout=200)
        bad = 0
        for x in res:
            for ln in x.lines:
                print(ln)
                if ln[:2] == "F " or "runtime error:" in ln:
                    bad += 1
            if x.crash:
                print("driver", x.crash, x.stderr[-800:])
                bad += 1
        if r["replay"].get("second_process"):
            env2 = fast_env(os.path.join(c.scratch, "p2"), {"VERIF_PAD": "x" * 3001})
            res2, _ = run_items([exe], [item], wd, env2, chunk=1, workers=1, per_item_timeout=200)
            v1 = [ln for x in res for ln in x.lines if ln.startswith("R ")]
            v2 = [ln for x in res2 for ln in x.lines if ln.startswith("R ")]
            print("second process:", v2)
            if v1 != v2:
                bad += 1
        print("replay:", "VIOLATION" if bad else "ok")
        sys.exit(1 if bad else 0)

    # The work of a tier is a fixed, bounded set sized by CPU time (quick: 4-7 CPU-minutes = 15-25 s on 16 idle cores).
    # The wall-clock deadline is only a safety net for a heavily loaded machine; it starts after the (possibly long) build.
    deadline = time.time() + c.budget(600, 3000)
    items, n_s, n_x, n_v = gen_items(c.tier)
    wd1 = os.path.join(c.scratch, "p1")
    # 32 driver processes: UBSan reports a location once per process, a process start costs ~1 CPU-second
    res1, ok1 = run_items([exe], items, wd1, env, chunk=max(50, len(items) // 32 + 1), per_item_timeout=1.0, deadline=deadline)
    if not ok1:
        # out of budget: fall back to reporting what was covered
        c.coverage["budget_hit"] = True
    c.coverage["driver_timeouts_retried"] = rerun_timeouts(res1, items, [exe], wd1, env)
    vals1, st1 = judge(c, items, res1, True)

    # second, separately started set of processes: other environment block, other cwd, other chunking
    wd2 = os.path.join(c.scratch, "p2-" + "y" * 37)
    env2 = fast_env(os.path.join(c.scratch, "cache2"), {"VERIF_PAD": "x" * 3001, "VERIF_PAD2": "z" * 517})
    res2, ok2 = run_items([exe], items, wd2, env2, chunk=max(50, len(items) // 16 + 7), per_item_timeout=1.0, deadline=deadline)
    rerun_timeouts(res2, items, [exe], wd2, env2)
    vals2, st2 = judge(c, items, res2, False)
    passes = [("asan second process", vals2)]
    if c.tier == "thorough":
        c.build("rel")
        exe_rel = c.compile(os.path.join(HERE, "harness.cpp"), "harness-rel", variant="rel", opt="-O2")
        wd3 = os.path.join(c.scratch, "p3")
        deadline = max(deadline, time.time() + 300)       # the rel variant may just have been built from scratch
        res3, ok3 = run_items([exe_rel], items, wd3, fast_env(os.path.join(c.scratch, "cache3")),
                              chunk=max(50, len(items) // 16 + 3), per_item_timeout=1.0, deadline=deadline)
        vals3, st3 = judge(c, items, res3, False)
        passes.append(("differently compiled (rel, -O2) process", vals3))
        ok2 = ok2 and ok3
    compared = 0
    for name, vals in passes:
        for i, v in vals1.items():
            if i in vals:
                compared += 1
                if vals[i] != v:
                    c.violation("process-dependent-hash:" + items[i][0],
                                "item %s :: first process %s, %s %s" % (items[i], v, name, vals[i]),
                                {"item": items[i], "second_process": True})

    distinct = len(set(v.split(" ")[0] for v in vals1.values()))
    zero = sum(1 for v in vals1.values() if v.startswith("0" * 64))
    evaluated = len(vals1) + sum(1 for r in res1 if r.index not in vals1)
    c.vacuity(len(res1) == len(items) or not ok1, "every item produced a result record")
    if ok1 and ok2:
        c.vacuity(len(vals1) + st1["crashes"] >= len(items) - st1["fails"], "every item reported a value")
        c.vacuity(zero >= 40, "the all-zero hash was reached by combination (a^a) at least 40 times, got %d" % zero)
        c.vacuity(distinct >= n_s // 2, "the %d byte strings produce many distinct hash values (distinct=%d); collisions are not a violation" % (n_s, distinct))
        c.vacuity(compared >= len(vals1), "every value was compared against a second process")
    samples = [items[0] + " -> " + vals1.get(0, "?"),
               items[n_s // 2] + " -> " + vals1.get(n_s // 2, "?"),
               items[n_s + 41] + " -> " + vals1.get(n_s + 41, "?"),
               items[n_s + 1] + " -> " + vals1.get(n_s + 1, "?"),
               items[-1] + " -> " + vals1.get(len(items) - 1, "?")]
    c.set_exploration(
        evaluations=len(res1) + sum(len(v) for _, v in passes),
        distinct_nontrivial=distinct,
        rule="bounded-exhaustive: every byte string of the bound, every ordered pair of the 40-string sub-alphabet, every single-nibble hash value; items run in the ASan+UBSan build with sanitizer reports attributed to the item between whose BEGIN/END lines they appear; values compared with a separately started process",
        samples=samples,
        exhaustive=bool(ok1 and ok2),
        items=len(items), byte_strings=n_s, combinations=n_x, string_values=n_v,
        zero_hashes=zero, cross_process_comparisons=compared,
        ub_reports=st1["ub_reports"], clause_failures=st1["fails"], crashes=st1["crashes"],
        alphabet="byte strings: len<=3 over {00,01,61,7f,80,ff}, len<=2 over all 256 bytes%s; combinations: 40x40 ordered pairs; values: 64 nibble positions x 16 values on '0' and 'f' background" % (
            ", len 3 = 256x256x6" if c.tier == "thorough" else ""),
        oracle="fromString(full)==h; getString()==full[0:16] (1st/2nd call, cast, stream, copy, after assignment, after ^=, after clear); equal bytes => equal hash across buffers, entry points and processes; no UBSan report in repository code, no crash",
    )
    c.assumptions += ["char signedness and int width are those of this platform (x86-64 Linux); 'every process' = separately started processes on this machine (other environment, other cwd; thorough: other optimisation level)",
                      "UBSan checks enabled: the -fsanitize=undefined group of g++ (signed overflow, shifts, null, alignment, bounds, ...); unsigned wrap-around is defined behaviour and not reported"]
    c.finish()


from vlib.core import run_main
run_main(main)
