#!/usr/bin/env python3
"""C23: occa::array / occa::range operations and occa::forLoop match the sequential std:: computation
(E2 bounded-exhaustive enumeration, level exploration).

Every item is one operation on one concrete (length, contents, tile size, tile iterations) / range
(start, end, step) / loop nest, executed by driver.cpp on the real library (JIT kernels, Serial and OpenMP)
and compared there with the std:: computation that runs the *same* lambda on a host std::vector.

Variants: libocca `rel` (under ASan the OKL parser is ~50x slower and every item needs a JIT build); the
driver itself - which instantiates the header-only code under test (array.hpp, typelessArray.hpp,
range.hpp templates) - is compiled with -fsanitize=undefined (non-recovering).  ASan is not used for the main
run: every JIT build forks the compiler and a fork of an ASan process costs several times the build itself.
A smoke subset runs the same driver, ASan+UBSan instrumented, against the `asan` libocca variant in the
thorough tier.
"""
import json, os, re, sys, time
sys.path.insert(0, os.path.dirname(os.path.dirname(os.path.dirname(os.path.abspath(__file__)))))
HERE = os.path.dirname(os.path.abspath(__file__))
from vlib.core import Check, san_env, load_replay, sh, NCPU
from vlib import batch

KFLAGS = "-O0 -g0"

# operations whose kernel depends on the tile configuration (typelessArray::getMapArrayScope)
MAP_OPS = ["every1", "every2", "every3", "some1", "some2", "some3", "find1", "find1u", "find2", "find3",
           "each1", "each2", "each3", "map1", "map2", "map3", "mapd",
           "mapto1", "mapto2", "mapto3", "mapto1g", "mapto2g", "mapto3g",
           "fill", "includes", "cast", "reverse", "shl", "shr", "clamp"]
# reductions (typelessCpuReduce: tile configuration must not matter)
RED_OPS = ["rsum2", "rsum2i", "rsum3", "rsum3i", "rsum4", "rsum4i", "rmul2", "rmul2i", "rbor2", "rband2", "rbxor2",
           "rlor2", "rland2", "rland2i", "rmin2", "rmin2i", "rmax2", "rmax2i", "rsq", "rabs", "rdbl",
           "min", "max", "dot", "indexof", "lastindexof", "index"]
# std::min_element / std::accumulate without an initial value have no answer on an empty sequence
NEED_NONEMPTY = {"rmin2", "rmax2", "rband2", "rland2", "min", "max", "dmin", "dmax", "rmin", "rmax"}
# more than 128 elements: the 128 blocks of typelessCpuReduce / typelessCpuFindIndex hold 2-3 elements each
BIG_LENGTHS = [129, 300]
NO_BIG = {"rmul2", "rmul2i", "index"}          # 129! overflows; 'index' is quadratic
DBL_MAP_OPS = ["dclamp", "dcast", "dmap", "dfill"]
DBL_RED_OPS = ["dsum", "dmin", "dmax", "ddot"]
RANGE_MAP_OPS = ["every", "some", "find", "findu", "each", "map", "mapto", "toarray"]
RANGE_RED_OPS = ["rsum", "rsq", "rmin", "rmax"]


def range_values(ctor, s, e, st):
    if ctor == 1:
        s, st = 0, (1 if e >= 0 else -1)
    elif ctor == 2:
        st = 1 if e >= s else -1
    out = []
    x = s
    while (st > 0 and x < e) or (st < 0 and x > e):
        out.append(x)
        x += st
    return out


def clamp_tiles(ts, ti, n):
    """the (tile size, tile iterations) pair typelessArray::getMapArrayScope bakes into the kernel for length n"""
    sts = min(max(1, ts), n)
    return (sts, min(max(1, ti), -(-n // max(1, sts))))


def gen_items(tier):
    """-> [(kernel group, estimated JIT builds of the group, item line)], simplest first inside every family.
    The OpenMP translation of a kernel differs from the Serial one only by the '#pragma omp parallel for' on the
    outer loops, so the OpenMP device gets a reduced (still exhaustive inside its own bound) sub-space."""
    quick = tier == "quick"
    items = []
    for dev in ("S", "O"):
        omp = dev == "O"
        if quick:
            lengths = [0, 2, 5] if omp else [0, 1, 2, 3, 4, 5]
            tiles = [(2, 2)] if omp else [(0, 0), (2, 2)]
        else:
            lengths = [0, 1, 2, 3, 4, 5, 6, 7, 8, 9, 16, 17]
            tiles = [(0, 0)] + [(ts, ti) for ts in (1, 2, 3, 4) for ti in (1, 2, 3)] + [(3, 0)]
        red_tiles = [(0, 0), (2, 3)]
        fams = [("A", MAP_OPS, RED_OPS)]
        if not (quick and omp):
            fams.append(("D", DBL_MAP_OPS, DBL_RED_OPS))
        for fam, mops, rops in fams:
            pats = (0, 1, 2) if fam == "A" else (0, 1)
            for op in mops:
                for ts, ti in tiles:
                    kc = len(set(clamp_tiles(ts, ti, n) for n in lengths if n))
                    kc *= {"shl": 2, "shr": 2, "clamp": 3}.get(op, 1)
                    for n in lengths:
                        for pat in pats:
                            items.append(((fam, dev, op, ts, ti), kc, "%s %s %s %d %d %d %d" % (fam, dev, op, n, pat, ts, ti)))
            for op in rops:
                for ts, ti in red_tiles:
                    for n in lengths + (BIG_LENGTHS if op not in NO_BIG else []):
                        if n == 0 and op in NEED_NONEMPTY:
                            continue
                        for pat in pats:
                            items.append(((fam, dev, op), 2 if op == "index" else 1, "%s %s %s %d %d %d %d" % (fam, dev, op, n, pat, ts, ti)))
            # lengths beyond the 128 blocks of the CPU reduction / findIndex kernels (same JIT kernels: the length is a
            # kernel argument) for the block-partitioned operations
            for op in [o for o in mops if o.startswith(("find", "some"))]:
                for ts, ti in tiles[-1:]:
                    for n in BIG_LENGTHS:
                        for pat in pats:
                            items.append(((fam, dev, op, ts, ti), 0, "%s %s %s %d %d %d %d" % (fam, dev, op, n, pat, ts, ti)))
        # ranges: start, end in [-3, 6], step in {-3..3}\{0}; plus the 1- and 2-argument constructors
        rng = []
        for s in range(-3, 7):
            for e in range(-3, 7):
                for st in (1, -1, 2, -2, 3, -3):
                    rng.append((3, s, e, st))
                rng.append((2, s, e, 0))
        for e in range(-3, 7):
            rng.append((1, 0, e, 0))
        if quick:
            # quick tier: lengths <= 5 (the kernel variants are the same: start zero/non-zero x step 1/-1/other)
            rng = [r for r in rng if len(range_values(*r)) <= 5]
        # kernel variant of a range: (start == 0 is a #define, step +-1 is a #define)
        def variant(r):
            ctor, s, e, st = r
            if ctor == 1:
                s, st = 0, (1 if e >= 0 else -1)
            elif ctor == 2:
                st = 1 if e >= s else -1
            return (s == 0, st if st in (1, -1) else 0)
        rng.sort(key=lambda r: (variant(r), len(range_values(*r)), r))
        ns_by_variant = {}
        for q in rng:
            ns_by_variant.setdefault(variant(q), set()).add(len(range_values(*q)))
        if quick:
            rmap = ["find", "each"] if omp else ["every", "find", "each", "map", "mapto"]
            rred = ["rsum"] if omp else RANGE_RED_OPS
            rtiles = tiles
        else:
            rmap, rred = RANGE_MAP_OPS, RANGE_RED_OPS
            rtiles = [(0, 0), (2, 2), (3, 2), (4, 3)] if omp else tiles
        for ctor, s, e, st in rng:
            items.append((("R", dev, "length"), 0, "R %s length %d %d %d %d 0 0" % (dev, ctor, s, e, st)))
        for op in rmap:
            for ts, ti in rtiles:
                for r in rng:
                    kc = len(set(clamp_tiles(ts, ti, n) for n in ns_by_variant[variant(r)] if n))
                    items.append((("R", dev, op, ts, ti, variant(r)), kc, "R %s %s %d %d %d %d %d %d" % ((dev, op) + r + (ts, ti))))
        for op in rred:
            for r in rng:
                if op in NEED_NONEMPTY and not range_values(*r):
                    continue
                items.append((("R", dev, op, variant(r)), 1, "R %s %s %d %d %d %d 0 0" % ((dev, op) + r)))
        # slices: every (offset, count) of every length, one nested slice level
        slens = [1, 2, 3, 4] if quick else [1, 2, 3, 4, 5, 6]
        for n in slens:
            for off in range(0, n + 1):
                for cnt in [-1] + list(range(0, n - off + 1)):
                    m = (n - off) if cnt < 0 else cnt
                    items.append((("S", dev), 9, "S %s %d 0 %d %d -1 0" % (dev, n, off, cnt)))
                    if quick and n > 3:
                        continue
                    for off2 in range(0, m + 1):
                        for cnt2 in [-1] + list(range(0, m - off2 + 1)):
                            items.append((("S", dev), 9, "S %s %d 1 %d %d %d %d" % (dev, n, off, cnt, off2, cnt2)))
        clens = [0, 1, 2, 3] if quick else [0, 1, 2, 3, 4, 5]
        for la in clens:
            for lb in clens:
                for pa, pb in ((0, 1), (2, 0)):
                    items.append((("S", dev), 9, "C %s %d %d %d %d" % (dev, la, pa, lb, pb)))
        items += gen_forloops(dev, quick)
    return items


def gen_forloops(dev, quick):
    """all loop nests of <= 2 outer x <= 2 inner iterations over the iteration kinds {int N, range, array of
    indices, tiled iteration}; every nest structure (= one JIT kernel: the kind, start == 0 and step == +-1 are
    compile-time, everything else is a kernel argument) is run with 2-3 value assignments including empty ones.
    quick: 5 outer x 3 inner kinds, <= 1 inner (OpenMP: 1 outer); thorough: 6 outer kinds in pairs + 6 more as
    single outer loops, 4 inner kinds, <= 2 inner (OpenMP: <= 1 inner)."""
    omp = dev == "O"
    if quick:
        outer_kinds = {
            "N": ["N3", "N0"],
            "Rneg": ["R4:-3:-3", "R2:3:-1"],      # start != 0, negative step (kernel argument)
            "A": ["A4,-1,2", "A"],
            "TN": ["T2/N3", "T2/N4"],
            "T2A": ["T2/A2,0,1", "T2/A7"],
        }
        single_only = {}
        inner_kinds = {
            "N": ["N2"],
            "R": ["R-1:4:2"],                      # start != 0, positive step (kernel argument)
            "A": ["A0,5"],
        }
        max_outer, max_inner = (1 if omp else 2), 1
    else:
        outer_kinds = {
            "N": ["N3", "N0", "N1"],
            "R": ["R1:6:2", "R-2:-2:3", "R-3:4:3"],
            "Rneg": ["R4:-3:-3", "R2:3:-2", "R6:-3:-2"],
            "A": ["A4,-1,2", "A", "A3"],
            "TN": ["T2/N3", "T2/N4", "T2/N0"],
            "T2A": ["T2/A2,0,1", "T2/A7"],
        }
        single_only = {
            "Nneg": ["N-2"],
            "R0": ["R0:5:2", "R0:0:2"],
            "Rm1": ["R3:-2:-1", "R0:3:-1"],
            "r": ["r2:5", "r5:2", "r1:1"],
            "T3R": ["T3/R-3:5:2", "T3/R1:2:2"],
            "T2Rneg": ["T2/R5:-2:-2"],
        }
        inner_kinds = {
            "N": ["N2", "N1"],
            "R": ["R-1:4:2"],
            "Rneg": ["R3:0:-1", "R5:-1:-3"],
            "A": ["A0,5", "A2"],
        }
        max_outer, max_inner = 2, (1 if omp else 2)
    ok = list(outer_kinds)
    ik = list(inner_kinds)
    allk = dict(outer_kinds)
    allk.update(single_only)
    outs = [(a,) for a in ok] + [(a,) for a in single_only]
    if max_outer > 1:
        # OKL forbids an @outer loop inside an @inner loop: a tiled iteration (= @outer + @inner) can only be
        # followed by another tiled iteration (forLoop::tile(a, b)); a plain iteration may precede a tiled one
        outs += [(a, b) for a in ok for b in ok if not (a.startswith("T") and not b.startswith("T"))]
    inns = [()] + [(a,) for a in ik]
    if max_inner > 1:
        inns += [(a, b) for a in ik for b in ik]
    items = []
    for o in outs:
        for i in inns:
            nv = max([len(allk[k]) for k in o] + [len(inner_kinds[k]) for k in i])
            for v in range(nv):
                os_ = "+".join(allk[k][v % len(allk[k])] for k in o)
                is_ = "+".join(inner_kinds[k][v % len(inner_kinds[k])] for k in i) if i else "-"
                items.append((("F", dev, o, i), 1, "F %s %s %s" % (dev, os_, is_)))
    return items


def item_info(line):
    f = line.split()
    fam, dev = f[0], f[1]
    info = {"fam": fam, "dev": dev, "empty": False, "tiled": False, "twin_tile": None, "twin_dev": None}
    if fam in ("A", "D"):
        op, n, pat, ts, ti = f[2], int(f[3]), int(f[4]), int(f[5]), int(f[6])
        info.update(op=op, empty=(n == 0), tiled=(ts > 0))
        info["twin_tile"] = " ".join(f[:5] + ["0", "0"])
    elif fam == "R":
        op = f[2]
        ctor, s, e, st, ts, ti = [int(x) for x in f[3:9]]
        info.update(op=op, empty=(not range_values(ctor, s, e, st)), tiled=(ts > 0))
        info["twin_tile"] = " ".join(f[:7] + ["0", "0"])
    elif fam == "S":
        n, off, cnt, off2, cnt2 = int(f[2]), int(f[4]), int(f[5]), int(f[6]), int(f[7])
        m = (n - off) if cnt < 0 else cnt
        if off2 >= 0:
            m = (m - off2) if cnt2 < 0 else cnt2
        info["op"] = "slice"
        info["empty"] = m == 0
    elif fam == "C":
        info["op"] = "concat"
        info["empty"] = int(f[2]) == 0 or int(f[4]) == 0
    else:
        info["op"] = "forloop"
    if dev == "O":
        info["twin_dev"] = " ".join([f[0], "S"] + f[2:])
    return info


def norm_exc(msg):
    m = re.sub(r"[0-9a-f]{12,}", "H", msg)
    m = re.sub(r"/[^\s]*", "PATH", m)
    m = re.sub(r"\d+", "N", m)
    m = re.sub(r"[^A-Za-z]+", "-", m).strip("-")
    return m[:60]


def observe(r):
    """-> (status, [(clause, detail)], [ok strings]) for one ItemResult"""
    fails, oks = [], []
    if r.crash:
        why = r.crash
        if "runtime error:" in r.stderr:
            m = re.search(r"runtime error: ([a-z \-]+)", r.stderr)
            why = "ubsan:" + (m.group(1).strip().replace(" ", "-")[:40] if m else "report")
        elif "AddressSanitizer" in r.stderr:
            m = re.search(r"AddressSanitizer: ([A-Za-z\-]+)", r.stderr)
            why = "asan:" + (m.group(1) if m else "report")
        elif r.crash == "signal:8":
            why = "SIGFPE"
        elif r.crash == "signal:11":
            why = "SIGSEGV"
        fails.append(("crash:" + why, (r.stderr or "")[-500:]))
    for ln in r.lines:
        if ln.startswith("ok "):
            oks.append(ln[3:])
        elif ln.startswith("fail "):
            clause, _, detail = ln[5:].partition(" :: ")
            fails.append((clause, detail))
        elif ln.startswith("exc "):
            fails.append(("exception:" + norm_exc(ln[4:]), ln[4:]))
    if not r.crash and not r.lines:
        fails.append(("harness:no-output", ""))
    return fails, oks


def run_all(c, exe, gitems, env, workdir, deadline, nbins=None):
    """gitems: (kernel group, estimated JIT builds, line).  Groups are spread over bins (longest-processing-time
    first, deterministic); each bin is executed by consecutive driver processes, so the users of one kernel share a
    process (in-memory kernel) and everything shares one on-disk kernel cache.  Results are keyed by the item index:
    the verdicts do not depend on the binning."""
    from concurrent.futures import ThreadPoolExecutor
    nbins = nbins or max(2, NCPU * 2)
    groups, order = {}, []
    for i, (g, kc, line) in enumerate(gitems):
        if g not in groups:
            groups[g] = [kc, []]
            order.append(g)
        groups[g][1].append(i)
    cost = lambda g: groups[g][0] * 1.0 + len(groups[g][1]) * 0.004
    bins = [[] for _ in range(nbins)]
    load = [0.0] * nbins
    for g in sorted(order, key=lambda g: -cost(g)):
        k = load.index(min(load))
        bins[k].extend(groups[g][1])
        load[k] += cost(g)
    lines = [x[2] for x in gitems]
    by_index = {}
    complete = [True]

    def work(k):
        idxs = bins[k]
        if not idxs:
            return
        sub = [lines[i] for i in idxs]
        chunk = max(1, -(-len(sub) // 3))
        res, comp = batch.run_items([exe], sub, os.path.join(workdir, "bin%02d" % k), env, chunk=chunk, workers=1,
                                    per_item_timeout=max(3.0, 600.0 / chunk), deadline=deadline)
        if not comp:
            complete[0] = False
        for r in res:
            # a chunk time-out (>= 600 s) under machine load is not a verdict: re-run the blamed item alone (150 s for one item)
            if r.crash == "timeout":
                rr, _ = batch.run_items([exe], [sub[r.index]], os.path.join(workdir, "bin%02d-retry%d" % (k, r.index)), env,
                                        chunk=1, workers=1, per_item_timeout=150.0)
                rr[0].index = r.index
                r = rr[0]
            by_index[idxs[r.index]] = r

    with ThreadPoolExecutor(max_workers=min(nbins, NCPU)) as ex:
        list(ex.map(work, range(nbins)))
    return by_index, complete[0]


def main():
    c = Check("C23", "exploration")
    c.build("rel")
    san = ["-fsanitize=undefined", "-fno-sanitize-recover=undefined"]
    exe = c.compile(os.path.join(HERE, "driver.cpp"), "driver", variant="rel", extra=san, opt="-O0")
    # HOME is private as well: a process of this check that lost OCCA_CACHE_DIR would create $HOME/.occa there
    # (guarded below) instead of /root/.occa, which other checks running on the machine may also touch
    home = os.path.join(c.scratch, "home")
    os.makedirs(home, exist_ok=True)
    env = san_env(c.scratch, {"C23_KFLAGS": KFLAGS, "OMP_NUM_THREADS": "3", "OMP_DYNAMIC": "false",
                              "OCCA_CXX": "g++", "HOME": home})

    if c.args.replay:
        r = load_replay(c.args.replay)
        path = os.path.join(c.scratch, "replay.in")
        with open(path, "w") as f:
            f.write(r["replay"]["item"] + "\n")
        p = sh([exe, path], env=env, cwd=c.scratch)
        print(p.stdout)
        bad = p.returncode != 0 or any(l.startswith(("fail ", "exc ")) for l in p.stdout.split("\n"))
        sys.exit(1 if bad else 0)

    gitems = gen_items(c.tier)
    items = [x[2] for x in gitems]
    deadline = c.t0 + c.budget(600, 3000)
    by_index, complete = run_all(c, exe, gitems, env, os.path.join(c.scratch, "run"), deadline)

    status = {}          # item line -> bool passed
    outcomes = set()
    evaluations = 0
    per_family = {}
    results = []
    for i, line in enumerate(items):
        r = by_index.get(i)
        if r is None:
            continue
        fails, oks = observe(r)
        evaluations += len(oks) + len(fails)
        status[line] = not fails
        fam = line.split()[0]
        per_family[fam] = per_family.get(fam, 0) + 1
        for s in oks:
            outcomes.add(fam + " " + s[:80])
        results.append((line, fails, oks))

    # signatures: <family>.<operation class>:<oracle clause>[:situation tags]:<operation>
    #   situation tags come from the reference side / from twin items: 'empty' (zero-length operand),
    #   'tiling-dependent' (the same item passes with the default tile configuration), 'openmp-only' (the same item
    #   passes on Serial); an OpenMP item whose Serial twin fails the same clause is the same defect and gets the
    #   Serial item's signature.
    def op_class(info):
        fam, op = info["fam"], info["op"]
        if fam in ("A", "D"):
            return "map" if op in MAP_OPS or op in DBL_MAP_OPS else "reduce"
        if fam == "R":
            return "length" if op == "length" else "map" if op in RANGE_MAP_OPS else "reduce"
        return op

    fails_of = dict((line, fails) for line, fails, oks in results if fails)

    def signature(line, clause):
        info = item_info(line)
        twin = info["twin_dev"]
        if twin and any(cl == clause for cl, _ in fails_of.get(twin, [])):
            return signature(twin, clause)
        tags = []
        if info["empty"]:
            tags.append("empty")
        if info["tiled"] and info["twin_tile"] and status.get(info["twin_tile"]) is True:
            tags.append("tiling-dependent")
        if twin and status.get(twin) is True:
            tags.append("openmp-only")
        cl = clause[len(info["op"]) + 1:] if clause.startswith(info["op"] + ":") else clause
        return ":".join(["%s.%s" % (info["fam"], op_class(info)), cl] + tags + [info["op"]])

    nviol_items = 0
    sig_counts = {}
    for line, fails, oks in results:
        if not fails:
            continue
        nviol_items += 1
        for clause, detail in fails:
            if clause.startswith("harness:"):
                c.harness_error("driver reported %s for item '%s': %s" % (clause, line, detail))
            sig = signature(line, clause)
            sig_counts[sig] = sig_counts.get(sig, 0) + 1
            if sig_counts[sig] <= 40:
                c.violation(sig, "%s => %s" % (line, detail[:400]), {"item": line, "kflags": KFLAGS, "libocca": "rel"})

    # asan-variant smoke subset (thorough only): the same driver against the ASan+UBSan libocca
    asan_items = 0
    if c.tier == "thorough" and time.time() < deadline:
        c.build("asan")
        exe2 = c.compile(os.path.join(HERE, "driver.cpp"), "driver-asan", variant="asan")
        sub = [l for l in items if l.split()[1] == "S" and (
            (l[0] == "A" and l.split()[3] in ("0", "3") and l.split()[4] == "1" and l.split()[5:7] in (["0", "0"], ["2", "3"]))
            or (l[0] == "F" and l.count("+") == 0 and l.split()[3] == "-"))][:400]
        env2 = san_env(os.path.join(c.scratch, "asanrun"), {"C23_KFLAGS": KFLAGS, "OMP_NUM_THREADS": "3", "OCCA_CXX": "g++", "HOME": home})
        bi2, _ = run_all(c, exe2, [(l.split()[2], 1, l) for l in sub], env2, os.path.join(c.scratch, "asanrun"), deadline + 600)
        for i, line in enumerate(sub):
            r = bi2.get(i)
            if r is None:
                continue
            asan_items += 1
            fails, oks = observe(r)
            evaluations += len(oks) + len(fails)
            info = item_info(line)
            for clause, detail in fails:
                if status.get(line) is False:
                    continue     # already reported from the rel run
                sig = "asan-lib:%s.%s:%s:%s" % (info["fam"], op_class(info), clause, info["op"])
                c.violation(sig, "%s => %s" % (line, detail[:400]), {"item": line, "kflags": KFLAGS, "libocca": "asan"})

    if os.path.exists(os.path.join(home, ".occa")):
        c.harness_error("$HOME/.occa appeared in the private home: a process of this check ran without OCCA_CACHE_DIR")

    # vacuity guards
    def seen(prefix):
        return sorted(o for o in outcomes if o.startswith(prefix))
    if complete:
        for op in ("every1", "some1", "every2", "some3"):
            vals = set(o.split()[-1] for o in seen("A " + op + " "))
            c.vacuity(vals == {"0", "1"}, "%s must be observed both true and false (saw %s)" % (op, vals))
        fi = set(o.split()[-1] for o in seen("A find1 "))
        c.vacuity("-1" in fi and len(fi) >= 3, "findIndex must be observed with no match and with matches at several positions (saw %s)" % fi)
        ft = [o for o in outcomes if o.startswith("F forloop tuples=")]
        c.vacuity(len(ft) >= 4, "forLoop nests with at least 4 different tuple counts must have run (saw %s)" % ft)
        c.vacuity(any(int(o.split("=")[1]) >= 20 for o in ft) or nviol_items > 0, "a forLoop nest with >= 20 tuples must have run")
        c.vacuity(len(seen("R map ")) >= 10, "at least 10 distinct range contents must be observed")
        c.vacuity(per_family.get("S", 0) > 20 and per_family.get("C", 0) > 10, "slices and concats must have run")
        c.vacuity(any(o.startswith("S slice:fill-parent") for o in outcomes), "a write through a slice must have been observed in the parent")
    ncache = 0
    cdir = os.path.join(env["OCCA_CACHE_DIR"], "cache")
    if os.path.isdir(cdir):
        ncache = len(os.listdir(cdir))
    c.vacuity(ncache >= 50, "at least 50 JIT kernels must have been built (cache has %d entries)" % ncache)

    c.set_exploration(
        evaluations=evaluations, distinct_nontrivial=len(outcomes),
        rule="every operation's result equals the std:: computation running the same lambda sequentially on a host "
             "std::vector (std::all_of/any_of/find_if/for_each/transform/accumulate/min_element/inner_product, vector "
             "slicing/concatenation); forLoop: device hit table == hit table of the sequential nested loops "
             "(every index tuple exactly as often as the sequential nest, nothing else)",
        samples=sorted(outcomes)[:: max(1, len(outcomes) // 12)][:12],
        exhaustive=bool(complete),
        items=len(items), items_run=len(results), items_failing=nviol_items,
        items_per_family=per_family, jit_cache_entries=ncache, asan_libocca_items=asan_items,
        distinct_violation_signatures=len(sig_counts), signature_counts=sig_counts,
        bound=("Serial: lengths 0..5 (+129,300 for reductions and findIndex/some), 3 patterns, tile configs {default,(2,2)}, ranges of "
               "length <= 5 over start,end in [-3,6] step in +-{1,2,3} and the 1-/2-argument constructors, all slices of lengths 1..4 "
               "(nested for <= 3), concat 0..3 x 0..3, forLoop <= 2 outer x <= 1 inner over 5 outer / 3 inner kinds; OpenMP: lengths "
               "{0,2,5}, tile (2,2), range ops {find,each,rsum}, forLoop 1 outer x <= 1 inner" if c.tier == "quick" else
               "lengths 0..9,16,17 (+129,300 for reductions and findIndex/some), 3 patterns, tile size 1..4 x tile iterations 1..3 "
               "(+default, +one-argument setTileSize(3)), all 710 ranges over start,end in [-3,6] step in +-{1,2,3} and the 1-/2-argument "
               "constructors, all slices of lengths 1..6 with one nested level, concat 0..5 x 0..5, forLoop <= 2 outer x <= 2 inner over "
               "6 paired + 6 single outer kinds and 4 inner kinds; OpenMP: same arrays, range tiles {default,(2,2),(3,2),(4,3)}, "
               "forLoop <= 1 inner"),
        variants="libocca rel; driver (header templates under test) with -fsanitize=undefined; JIT kernels %s; "
                 "OpenMP device with OMP_NUM_THREADS=3%s" % (KFLAGS, "; asan-libocca smoke subset of %d items" % asan_items if asan_items else ""),
    )
    c.assumptions += [
        "contents are 3 fixed patterns (ascending 1..n, alternating sign, all equal 2); doubles are multiples of 0.5 so sums/products are exact in any association",
        "min/max/bitAnd/boolAnd reductions without localInit are not evaluated on empty sequences (std::min_element has no value there)",
        "custom reduction lambdas are of the form acc (+) g(value,index) for the declared built-in combination, localInit = its identity",
        "1-argument forEach uses an idempotent store (several equal values would otherwise race on OpenMP); exact once-per-element counts come from the 2-/3-argument forms and from ranges",
        "occa::forLoop has no 'dim' iteration kind in this tree: the kinds are int N, occa::range, occa::array<int> of indices and tileIteration",
        "GPU code paths (typelessGpuReduce, buildGpuMapTiledForLoops) are not reachable on Serial/OpenMP and are not covered",
    ]
    c.finish()


from vlib.core import run_main
run_main(main)
