// C23 driver: every item = one operation of occa::array / occa::range / occa::forLoop on one concrete
// (length, contents, tile configuration | range | loop nest), compared with the sequential std:: computation.
// The reference side runs the *same* lambda object on the host (occa::function::operator()) inside
// std::transform / std::accumulate / std::find_if / std::for_each style loops over a host std::vector.
//
// protocol (vlib.batch): argv[1] = file with one item per line; prints BEGIN i, result lines, END i.
//   result lines:  ok <op> <observed outcome>      |  fail <clause> :: <detail>   |  exc <message>
// item grammar (tokens separated by blanks; dev = S (Serial) | O (OpenMP)):
//   A dev op n pat ts ti            int array op; pat 0 ascending 1 alternating sign 2 all equal; ts 0 = default tiling
//   D dev op n pat ts ti            double array op
//   R dev op ctor start end step ts ti   range op; ctor 3 = (start,end,step) 2 = (start,end) 1 = (end)
//   S dev n pat off cnt off2 cnt2   slice (cnt -1 = to the end; off2 -1 = no second slice)
//   C dev la pa lb pb               concat
//   F dev outer inner               forLoop; outer/inner = iteration specs joined by '+', inner '-' = none
//                                   spec: N<k> | R<start>:<end>:<step> | r<start>:<end> | A<v,v,..> ; prefix T<ts>/ = tiled
#include <occa.hpp>
#include <occa/functional.hpp>
#include <occa/loops.hpp>

#include <algorithm>
#include <climits>
#include <cstdio>
#include <cstdlib>
#include <fstream>
#include <functional>
#include <iostream>
#include <numeric>
#include <sstream>
#include <string>
#include <vector>

using int2 = occa::int2;

struct Out {
  std::vector<std::string> lines;
  bool failed = false;
  void ok(const std::string &s) { lines.push_back("ok " + s); }
  void fail(const std::string &clause, const std::string &detail) {
    failed = true;
    lines.push_back("fail " + clause + " :: " + detail);
  }
};

template <class T>
static std::string vstr(const std::vector<T> &v) {
  std::ostringstream ss;
  ss << "[";
  for (size_t i = 0; i < v.size(); ++i) {
    if (i) ss << ",";
    ss << v[i];
  }
  ss << "]";
  return ss.str();
}

template <class T>
static std::string sstr(const T &v) {
  std::ostringstream ss;
  ss << v;
  return ss.str();
}

template <class T>
static std::vector<T> fetch(const occa::array<T> &a) {
  std::vector<T> v((size_t) a.length());
  if (v.size()) {
    a.copyTo(v.data());
  }
  return v;
}

template <class T>
static void expectVec(Out &o, const std::string &op, const occa::array<T> &got, const std::vector<T> &want) {
  if ((size_t) got.length() != want.size()) {
    o.fail(op + ":length", "got length " + sstr(got.length()) + " want " + sstr(want.size()));
    return;
  }
  std::vector<T> g = fetch(got);
  if (g != want) {
    o.fail(op + ":content", "got " + vstr(g) + " want " + vstr(want));
    return;
  }
  o.ok(op + " " + vstr(g));
}

template <class T>
static void expectVal(Out &o, const std::string &op, const T &got, const T &want) {
  if (!(got == want)) {
    o.fail(op + ":value", "got " + sstr(got) + " want " + sstr(want));
    return;
  }
  o.ok(op + " " + sstr(got));
}

static std::vector<int> pattern(int n, int pat) {
  std::vector<int> h((size_t) n);
  for (int i = 0; i < n; ++i) {
    h[i] = (pat == 0) ? (i + 1) : (pat == 1) ? ((i % 2) ? -(i + 1) : (i + 1)) : 2;
  }
  return h;
}

template <class T>
static occa::array<T> mkArray(occa::device dev, const std::vector<T> &h, int ts, int ti) {
  occa::array<T> a(dev, (occa::dim_t) h.size());
  if (h.size()) {
    a.copyFrom(h.data());
  }
  if (ts > 0) {
    if (ti > 0) a.setTileSize(ts, ti);
    else a.setTileSize(ts);
  }
  return a;
}

static occa::device gDev[2];

static occa::device getDev(const std::string &d) {
  const int k = (d == "O") ? 1 : 0;
  if (!gDev[k].isInitialized()) {
    occa::json props;
    props["mode"] = k ? "OpenMP" : "Serial";
    const char *kf = getenv("C23_KFLAGS");
    if (kf && *kf) {
      props["kernel/compiler_flags"] = std::string(kf);
    }
    gDev[k] = occa::device(props);
  }
  return gDev[k];
}

//---[ int arrays ]---------------------------------------------------------------------------------
static void intArrayOp(Out &o, occa::device dev, const std::string &op, int n, int pat, int ts, int ti) {
  const std::vector<int> h = pattern(n, pat);
  occa::array<int> a = mkArray<int>(dev, h, ts, ti);
  const int *hv = h.data();

  if ((int) a.length() != n) {
    o.fail("construct:length", "array(dev," + sstr(n) + ").length() = " + sstr(a.length()));
    return;
  }

  // every / some / findIndex ------------------------------------------------
  if (op == "every1") {
    auto fn = OCCA_FUNCTION([=](const int &value) -> bool { return value > 0; });
    bool w = true; for (int i = 0; i < n; ++i) w = w && fn(h[i]);
    expectVal<bool>(o, op, a.every(fn), w);
  } else if (op == "every2") {
    auto fn = OCCA_FUNCTION([=](const int &value, const int index) -> bool { return value + index > 0; });
    bool w = true; for (int i = 0; i < n; ++i) w = w && fn(h[i], i);
    expectVal<bool>(o, op, a.every(fn), w);
  } else if (op == "every3") {
    auto fn = OCCA_FUNCTION([=](const int &value, const int index, const int *values) -> bool {
      return (values[index] == value) && (value < 6);
    });
    bool w = true; for (int i = 0; i < n; ++i) w = w && fn(h[i], i, hv);
    expectVal<bool>(o, op, a.every(fn), w);
  } else if (op == "some1") {
    auto fn = OCCA_FUNCTION([=](const int &value) -> bool { return value < 0; });
    bool w = false; for (int i = 0; i < n; ++i) w = w || fn(h[i]);
    expectVal<bool>(o, op, a.some(fn), w);
  } else if (op == "some2") {
    auto fn = OCCA_FUNCTION([=](const int &value, const int index) -> bool { return value - index > 1; });
    bool w = false; for (int i = 0; i < n; ++i) w = w || fn(h[i], i);
    expectVal<bool>(o, op, a.some(fn), w);
  } else if (op == "some3") {
    auto fn = OCCA_FUNCTION([=](const int &value, const int index, const int *values) -> bool {
      return values[index] + value == 8;
    });
    bool w = false; for (int i = 0; i < n; ++i) w = w || fn(h[i], i, hv);
    expectVal<bool>(o, op, a.some(fn), w);
  } else if (op == "find1" || op == "find1u") {
    // find1: several elements may match (std::find_if returns the first); find1u: at most one matches
    const int width = (op == "find1") ? 2 : 1;
    occa::scope sc({{"width", width}});
    auto fn = OCCA_FUNCTION(sc, [=](const int &value) -> bool { return value >= 2 && value < 2 + width; });
    int w = -1, matches = 0;
    for (int i = 0; i < n; ++i) if (fn(h[i])) { if (w < 0) w = i; ++matches; }
    const int g = a.findIndex(fn);
    if (g != w) o.fail(op + ":value" + (matches > 1 ? ":multi-match" : ""), "got " + sstr(g) + " want " + sstr(w));
    else o.ok(op + " " + sstr(g));
  } else if (op == "find2") {
    auto fn = OCCA_FUNCTION([=](const int &value, const int index) -> bool { return index + value == 5; });
    int w = -1, matches = 0;
    for (int i = 0; i < n; ++i) if (fn(h[i], i)) { if (w < 0) w = i; ++matches; }
    const int g = a.findIndex(fn);
    if (g != w) o.fail(op + ":value" + (matches > 1 ? ":multi-match" : ""), "got " + sstr(g) + " want " + sstr(w));
    else o.ok(op + " " + sstr(g));
  } else if (op == "find3") {
    auto fn = OCCA_FUNCTION([=](const int &value, const int index, const int *values) -> bool {
      return values[index] == 4 || value == -4;
    });
    int w = -1, matches = 0;
    for (int i = 0; i < n; ++i) if (fn(h[i], i, hv)) { if (w < 0) w = i; ++matches; }
    const int g = a.findIndex(fn);
    if (g != w) o.fail(op + ":value" + (matches > 1 ? ":multi-match" : ""), "got " + sstr(g) + " want " + sstr(w));
    else o.ok(op + " " + sstr(g));

  // forEach -----------------------------------------------------------------
  } else if (op == "each1" || op == "each2" || op == "each3") {
    const int slots = 64;              // each1 stores at value + 24, |value| <= 17
    std::vector<int> ref((size_t) slots, 0);
    occa::array<int> dOut = mkArray<int>(dev, ref, 0, 0);
    occa::memory mOut = dOut.memory();
    int *out = ref.data();
    occa::scope sc({{"out", mOut}});
    if (op == "each1") {
      // several elements may carry the same value: the store is idempotent (no OpenMP race on the verdict)
      auto fn = OCCA_FUNCTION(sc, [=](const int &value) -> void { out[value + 24] = value; });
      a.forEach(fn);
      for (int i = 0; i < n; ++i) fn(h[i]);
    } else if (op == "each2") {
      auto fn = OCCA_FUNCTION(sc, [=](const int &value, const int index) -> void {
        out[index] = out[index] + value + 100;
      });
      a.forEach(fn);
      for (int i = 0; i < n; ++i) fn(h[i], i);
    } else {
      auto fn = OCCA_FUNCTION(sc, [=](const int &value, const int index, const int *values) -> void {
        out[index] = out[index] + values[index] * 2 + 1000;
      });
      a.forEach(fn);
      for (int i = 0; i < n; ++i) fn(h[i], i, hv);
    }
    expectVec<int>(o, op, dOut, ref);

  // map / mapTo ---------------------------------------------------------------
  } else if (op == "map1") {
    auto fn = OCCA_FUNCTION([=](const int &value) -> int { return value * 2 + 1; });
    std::vector<int> w; for (int i = 0; i < n; ++i) w.push_back(fn(h[i]));
    expectVec<int>(o, op, a.map<int>(fn), w);
  } else if (op == "map2") {
    auto fn = OCCA_FUNCTION([=](const int &value, const int index) -> int { return value * 10 - index; });
    std::vector<int> w; for (int i = 0; i < n; ++i) w.push_back(fn(h[i], i));
    expectVec<int>(o, op, a.map<int>(fn), w);
  } else if (op == "map3") {
    occa::scope sc({{"size", n}});
    const int size = n;
    auto fn = OCCA_FUNCTION(sc, [=](const int &value, const int index, const int *values) -> int {
      return values[(index + 1) % size] - value;
    });
    std::vector<int> w; for (int i = 0; i < n; ++i) w.push_back(fn(h[i], i, hv));
    expectVec<int>(o, op, a.map<int>(fn), w);
  } else if (op == "mapd") {
    auto fn = OCCA_FUNCTION([=](const int &value) -> double { return value * 0.5; });
    std::vector<double> w; for (int i = 0; i < n; ++i) w.push_back(fn(h[i]));
    expectVec<double>(o, op, a.map<double>(fn), w);
  } else if (op == "mapto1" || op == "mapto2" || op == "mapto3" ||
             op == "mapto1g" || op == "mapto2g" || op == "mapto3g") {
    // output array: same length (plain) or one element longer (g): mapTo must leave it with length n
    const bool other = (op.back() == 'g');
    std::vector<int> init((size_t) (other ? n + 1 : n), -77);
    occa::array<int> dst = mkArray<int>(dev, init, 0, 0);
    std::vector<int> w;
    const char form = op[5];
    if (form == '1') {
      auto fn = OCCA_FUNCTION([=](const int &value) -> int { return 3 - value; });
      for (int i = 0; i < n; ++i) w.push_back(fn(h[i]));
      occa::array<int> r = a.mapTo<int>(dst, fn);
      expectVec<int>(o, op + ":returned", r, w);
    } else if (form == '2') {
      auto fn = OCCA_FUNCTION([=](const int &value, const int index) -> int { return value + 100 * index; });
      for (int i = 0; i < n; ++i) w.push_back(fn(h[i], i));
      occa::array<int> r = a.mapTo<int>(dst, fn);
      expectVec<int>(o, op + ":returned", r, w);
    } else {
      auto fn = OCCA_FUNCTION([=](const int &value, const int index, const int *values) -> int {
        return values[index] * value;
      });
      for (int i = 0; i < n; ++i) w.push_back(fn(h[i], i, hv));
      occa::array<int> r = a.mapTo<int>(dst, fn);
      expectVec<int>(o, op + ":returned", r, w);
    }
    expectVec<int>(o, op + ":output", dst, w);
    expectVec<int>(o, op + ":source", a, h);

  // helpers built on map ----------------------------------------------------------
  } else if (op == "fill") {
    std::vector<int> w((size_t) n, 7);
    occa::array<int> r = a.fill(7);
    expectVec<int>(o, op + ":returned", r, w);
    expectVec<int>(o, op + ":self", a, w);
  } else if (op == "includes") {
    expectVal<bool>(o, op + ":present", a.includes(2), std::find(h.begin(), h.end(), 2) != h.end());
    expectVal<bool>(o, op + ":absent", a.includes(9999), false);
  } else if (op == "indexof") {
    auto it = std::find(h.begin(), h.end(), 2);
    const int matches = (int) std::count(h.begin(), h.end(), 2);
    const long w = (it == h.end()) ? -1 : (long) (it - h.begin());
    const long g = (long) a.indexOf(2);
    if (g != w) o.fail(op + ":value" + (matches > 1 ? ":multi-match" : ""), "got " + sstr(g) + " want " + sstr(w));
    else o.ok(op + " " + sstr(g));
    expectVal<long>(o, op + ":absent", (long) a.indexOf(9999), -1L);
  } else if (op == "lastindexof") {
    long w = -1; for (int i = 0; i < n; ++i) if (h[i] == 2) w = i;
    const int matches = (int) std::count(h.begin(), h.end(), 2);
    const long g = (long) a.lastIndexOf(2);
    if (g != w) o.fail(op + ":value" + (matches > 1 ? ":multi-match" : ""), "got " + sstr(g) + " want " + sstr(w));
    else o.ok(op + " " + sstr(g));
    expectVal<long>(o, op + ":absent", (long) a.lastIndexOf(9999), -1L);
  } else if (op == "cast") {
    std::vector<double> w(h.begin(), h.end());
    expectVec<double>(o, op, a.cast<double>(), w);
  } else if (op == "reverse") {
    std::vector<int> w(h.rbegin(), h.rend());
    expectVec<int>(o, op, a.reverse(), w);
    expectVec<int>(o, op + ":source", a, h);
  } else if (op == "shl" || op == "shr") {
    const int offs[5] = {0, 1, 2, n, n + 1};
    for (int k = 0; k < 5; ++k) {
      const int off = offs[k];
      for (int withEmpty = 0; withEmpty < 2; ++withEmpty) {
        const int ev = withEmpty ? -9 : 0;
        std::vector<int> w((size_t) n, ev);
        for (int i = 0; i < n; ++i) {
          if (op == "shl") { if (i + off < n) w[i] = h[i + off]; }
          else { if (i - off >= 0) w[i] = h[i - off]; }
        }
        occa::array<int> r = (op == "shl")
          ? (withEmpty ? a.shiftLeft(off, ev) : a.shiftLeft(off))
          : (withEmpty ? a.shiftRight(off, ev) : a.shiftRight(off));
        expectVec<int>(o, op, r, w);
      }
    }
  } else if (op == "clamp") {
    std::vector<int> w1, w2, w3;
    for (int i = 0; i < n; ++i) {
      w1.push_back(std::min(std::max(h[i], -1), 3));
      w2.push_back(std::max(h[i], 0));
      w3.push_back(std::min(h[i], 2));
    }
    expectVec<int>(o, op + ":clamp", a.clamp(-1, 3), w1);
    expectVec<int>(o, op + ":clampMin", a.clampMin(0), w2);
    expectVec<int>(o, op + ":clampMax", a.clampMax(2), w3);

  // reductions ------------------------------------------------------------------
  // without localInit the accumulator starts at the identity of the built-in reduction (first element for
  // min/max/bitAnd/boolAnd), which is what std::accumulate / std::min_element / std::max_element compute.
  } else if (op == "rsum2" || op == "rsum2i") {
    auto fn = OCCA_FUNCTION([=](const int &acc, const int &value) -> int { return acc + value; });
    int w = 0; for (int i = 0; i < n; ++i) w = fn(w, h[i]);
    const int g = (op == "rsum2") ? a.reduce<int>(occa::reductionType::sum, fn)
                                  : a.reduce<int>(occa::reductionType::sum, 0, fn);
    expectVal<int>(o, op, g, w);
  } else if (op == "rsum3" || op == "rsum3i") {
    auto fn = OCCA_FUNCTION([=](const int &acc, const int &value, const int index) -> int {
      return acc + value * (index + 1);
    });
    int w = 0; for (int i = 0; i < n; ++i) w = fn(w, h[i], i);
    const int g = (op == "rsum3") ? a.reduce<int>(occa::reductionType::sum, fn)
                                  : a.reduce<int>(occa::reductionType::sum, 0, fn);
    expectVal<int>(o, op, g, w);
  } else if (op == "rsum4" || op == "rsum4i") {
    auto fn = OCCA_FUNCTION([=](const int &acc, const int &value, const int index, const int *values) -> int {
      return acc + values[index] - 2 * value + index;
    });
    int w = 0; for (int i = 0; i < n; ++i) w = fn(w, h[i], i, hv);
    const int g = (op == "rsum4") ? a.reduce<int>(occa::reductionType::sum, fn)
                                  : a.reduce<int>(occa::reductionType::sum, 0, fn);
    expectVal<int>(o, op, g, w);
  } else if (op == "rmul2" || op == "rmul2i") {
    auto fn = OCCA_FUNCTION([=](const long &acc, const int &value) -> long { return acc * value; });
    long w = 1; for (int i = 0; i < n; ++i) w = fn(w, h[i]);
    const long g = (op == "rmul2") ? a.reduce<long>(occa::reductionType::multiply, fn)
                                   : a.reduce<long>(occa::reductionType::multiply, 1L, fn);
    expectVal<long>(o, op, g, w);
  } else if (op == "rbor2") {
    auto fn = OCCA_FUNCTION([=](const int &acc, const int &value) -> int { return acc | value; });
    int w = 0; for (int i = 0; i < n; ++i) w = fn(w, h[i]);
    expectVal<int>(o, op, a.reduce<int>(occa::reductionType::bitOr, fn), w);
  } else if (op == "rband2") {
    auto fn = OCCA_FUNCTION([=](const int &acc, const int &value) -> int { return acc & value; });
    int w = ~0; for (int i = 0; i < n; ++i) w = fn(w, h[i]);
    expectVal<int>(o, op, a.reduce<int>(occa::reductionType::bitAnd, fn), w);
  } else if (op == "rbxor2") {
    auto fn = OCCA_FUNCTION([=](const int &acc, const int &value) -> int { return acc ^ value; });
    int w = 0; for (int i = 0; i < n; ++i) w = fn(w, h[i]);
    expectVal<int>(o, op, a.reduce<int>(occa::reductionType::bitXor, fn), w);
  } else if (op == "rlor2") {
    auto fn = OCCA_FUNCTION([=](const bool &acc, const int &value) -> bool { return acc || (value < 0); });
    bool w = false; for (int i = 0; i < n; ++i) w = fn(w, h[i]);
    expectVal<bool>(o, op, a.reduce<bool>(occa::reductionType::boolOr, fn), w);
  } else if (op == "rland2") {
    auto fn = OCCA_FUNCTION([=](const bool &acc, const int &value) -> bool { return acc && value; });
    bool w = true; for (int i = 0; i < n; ++i) w = fn(w, h[i]);
    expectVal<bool>(o, op, a.reduce<bool>(occa::reductionType::boolAnd, fn), w);
  } else if (op == "rland2i") {
    auto fn = OCCA_FUNCTION([=](const bool &acc, const int &value) -> bool { return acc && (value > 0); });
    bool w = true; for (int i = 0; i < n; ++i) w = fn(w, h[i]);
    expectVal<bool>(o, op, a.reduce<bool>(occa::reductionType::boolAnd, true, fn), w);
  } else if (op == "rmin2" || op == "rmin2i") {
    auto fn = OCCA_FUNCTION([=](const int &acc, const int &value) -> int { return acc < value ? acc : value; });
    int w = (op == "rmin2") ? h[0] : 1000; for (int i = 0; i < n; ++i) w = fn(w, h[i]);
    const int g = (op == "rmin2") ? a.reduce<int>(occa::reductionType::min, fn)
                                  : a.reduce<int>(occa::reductionType::min, 1000, fn);
    expectVal<int>(o, op, g, w);
  } else if (op == "rmax2" || op == "rmax2i") {
    auto fn = OCCA_FUNCTION([=](const int &acc, const int &value) -> int { return acc > value ? acc : value; });
    int w = (op == "rmax2") ? h[0] : -1000; for (int i = 0; i < n; ++i) w = fn(w, h[i]);
    const int g = (op == "rmax2") ? a.reduce<int>(occa::reductionType::max, fn)
                                  : a.reduce<int>(occa::reductionType::max, -1000, fn);
    expectVal<int>(o, op, g, w);
  } else if (op == "rsq") {          // custom: sum of squares
    auto fn = OCCA_FUNCTION([=](const int &acc, const int &value) -> int { return acc + value * value; });
    int w = 0; for (int i = 0; i < n; ++i) w = fn(w, h[i]);
    expectVal<int>(o, op, a.reduce<int>(occa::reductionType::sum, fn), w);
  } else if (op == "rabs") {         // custom: largest absolute value
    auto fn = OCCA_FUNCTION([=](const int &acc, const int &value) -> int {
      const int av = value < 0 ? -value : value;
      return acc > av ? acc : av;
    });
    int w = 0; for (int i = 0; i < n; ++i) w = fn(w, h[i]);
    expectVal<int>(o, op, a.reduce<int>(occa::reductionType::max, 0, fn), w);
  } else if (op == "rdbl") {         // custom: accumulator type differs from the element type
    auto fn = OCCA_FUNCTION([=](const double &acc, const int &value) -> double { return acc - 0.5 * value; });
    double w = 0; for (int i = 0; i < n; ++i) w = fn(w, h[i]);
    expectVal<double>(o, op, a.reduce<double>(occa::reductionType::sum, fn), w);
  } else if (op == "min") {
    expectVal<int>(o, op, a.min(), *std::min_element(h.begin(), h.end()));
  } else if (op == "max") {
    expectVal<int>(o, op, a.max(), *std::max_element(h.begin(), h.end()));
  } else if (op == "dot") {
    for (int p2 = 0; p2 < 3; ++p2) {
      const std::vector<int> h2 = pattern(n, p2);
      occa::array<int> b = mkArray<int>(dev, h2, 0, 0);
      expectVal<int>(o, op, a.dotProduct(b), std::inner_product(h.begin(), h.end(), h2.begin(), 0));
    }
  } else if (op == "index") {        // operator [], clone, resize
    for (int i = 0; i < n; ++i) {
      const int g = a[i];
      if (g != h[i]) { o.fail(op + ":value", "a[" + sstr(i) + "] = " + sstr(g) + " want " + sstr(h[i])); }
    }
    occa::array<int> c = a.clone();
    expectVec<int>(o, op + ":clone", c, h);
    if (n > 0) {
      c.fill(5);
      expectVec<int>(o, op + ":clone-independent", a, h);
    }
    for (int m = 0; m <= n + 2; ++m) {
      occa::array<int> r = mkArray<int>(dev, h, ts, ti);
      r.resize(m);
      if ((int) r.length() != m) { o.fail(op + ":resize:length", "resize(" + sstr(m) + ") gives " + sstr(r.length())); continue; }
      std::vector<int> g = fetch(r);
      const int keep = std::min(m, n);
      if (!std::equal(g.begin(), g.begin() + keep, h.begin())) {
        o.fail(op + ":resize:content", "resize(" + sstr(m) + ") gives " + vstr(g));
      }
    }
  } else {
    o.fail("harness:unknown-op", op);
  }
}

//---[ double arrays ]------------------------------------------------------------------------------
static void dblArrayOp(Out &o, occa::device dev, const std::string &op, int n, int pat, int ts, int ti) {
  const std::vector<int> hi = pattern(n, pat);
  std::vector<double> h;
  for (int v : hi) h.push_back(v * 0.5);       // multiples of 0.5: sums and products below are exact
  occa::array<double> a = mkArray<double>(dev, h, ts, ti);

  if (op == "dsum") {
    auto fn = OCCA_FUNCTION([=](const double &acc, const double &value) -> double { return acc + value; });
    double w = 0; for (int i = 0; i < n; ++i) w = fn(w, h[i]);
    expectVal<double>(o, op, a.reduce<double>(occa::reductionType::sum, fn), w);
  } else if (op == "dmin") {
    expectVal<double>(o, op, a.min(), *std::min_element(h.begin(), h.end()));
  } else if (op == "dmax") {
    expectVal<double>(o, op, a.max(), *std::max_element(h.begin(), h.end()));
  } else if (op == "ddot") {
    std::vector<double> h2;
    for (int v : pattern(n, 1)) h2.push_back(v * 0.25);
    occa::array<double> b = mkArray<double>(dev, h2, 0, 0);
    expectVal<double>(o, op, a.dotProduct(b), std::inner_product(h.begin(), h.end(), h2.begin(), 0.0));
  } else if (op == "dclamp") {
    std::vector<double> w;
    for (int i = 0; i < n; ++i) w.push_back(std::min(std::max(h[i], -0.75), 1.25));
    expectVec<double>(o, op, a.clamp(-0.75, 1.25), w);
  } else if (op == "dcast") {
    std::vector<int> w;
    for (int i = 0; i < n; ++i) w.push_back((int) h[i]);
    expectVec<int>(o, op, a.cast<int>(), w);
  } else if (op == "dmap") {
    auto fn = OCCA_FUNCTION([=](const double &value, const int index) -> double { return value * 2.0 + index; });
    std::vector<double> w; for (int i = 0; i < n; ++i) w.push_back(fn(h[i], i));
    expectVec<double>(o, op, a.map<double>(fn), w);
  } else if (op == "dfill") {
    std::vector<double> w((size_t) n, 1.5);
    occa::array<double> r = a.fill(1.5);
    expectVec<double>(o, op + ":returned", r, w);
    expectVec<double>(o, op + ":self", a, w);
  } else {
    o.fail("harness:unknown-op", op);
  }
}

//---[ ranges ]-------------------------------------------------------------------------------------
static std::vector<int> rangeValues(long start, long end, long step) {
  std::vector<int> v;
  if (step > 0) { for (long x = start; x < end; x += step) v.push_back((int) x); }
  else          { for (long x = start; x > end; x += step) v.push_back((int) x); }
  return v;
}

static void rangeOp(Out &o, occa::device dev, const std::string &op, int ctor,
                    int start, int end, int step, int ts, int ti) {
  // reference: the python-like sequence the three constructors document
  long rs = start, re = end, rstep = step;
  if (ctor == 1) { rs = 0; rstep = (re >= 0) ? 1 : -1; }
  if (ctor == 2) { rstep = (re >= rs) ? 1 : -1; }
  const std::vector<int> h = rangeValues(rs, re, rstep);
  const int n = (int) h.size();

  occa::range r = (ctor == 1) ? occa::range(dev, end)
                : (ctor == 2) ? occa::range(dev, start, end)
                :               occa::range(dev, start, end, step);
  if (ts > 0) {
    if (ti > 0) r.setTileSize(ts, ti);
    else r.setTileSize(ts);
  }

  if (op == "length") {
    expectVal<long>(o, op, (long) r.length(), (long) n);
  } else if (op == "every") {
    auto fn = OCCA_FUNCTION([=](const int v) -> bool { return v > -2; });
    bool w = true; for (int i = 0; i < n; ++i) w = w && fn(h[i]);
    expectVal<bool>(o, op, r.every(fn), w);
  } else if (op == "some") {
    auto fn = OCCA_FUNCTION([=](const int v) -> bool { return v == 3; });
    bool w = false; for (int i = 0; i < n; ++i) w = w || fn(h[i]);
    expectVal<bool>(o, op, r.some(fn), w);
  } else if (op == "find" || op == "findu") {
    // find: several values may match (first index wanted); findu: exactly one value can match
    const int width = (op == "find") ? 3 : 1;
    occa::scope sc({{"width", width}});
    auto fn = OCCA_FUNCTION(sc, [=](const int v) -> bool { return v >= 1 && v < 1 + width; });
    int w = -1, matches = 0;
    for (int i = 0; i < n; ++i) if (fn(h[i])) { if (w < 0) w = i; ++matches; }
    const int g = r.findIndex(fn);
    if (g != w) o.fail(op + ":value" + (matches > 1 ? ":multi-match" : ""), "got " + sstr(g) + " want " + sstr(w));
    else o.ok(op + " " + sstr(g));
  } else if (op == "each") {
    std::vector<int> ref(32, 0);
    occa::array<int> dOut = mkArray<int>(dev, ref, 0, 0);
    occa::memory mOut = dOut.memory();
    int *out = ref.data();
    occa::scope sc({{"out", mOut}});
    // the values of a range are pairwise distinct: every slot has one writer, the count is exact
    auto fn = OCCA_FUNCTION(sc, [=](const int v) -> void { out[v + 12] = out[v + 12] + 1; });
    r.forEach(fn);
    for (int i = 0; i < n; ++i) fn(h[i]);
    expectVec<int>(o, op, dOut, ref);
  } else if (op == "map") {
    auto fn = OCCA_FUNCTION([=](const int v) -> int { return v * v - 1; });
    std::vector<int> w; for (int i = 0; i < n; ++i) w.push_back(fn(h[i]));
    expectVec<int>(o, op, r.map<int>(fn), w);
  } else if (op == "mapto") {
    std::vector<int> init((size_t) n + 1, -77);
    occa::array<int> dst = mkArray<int>(dev, init, 0, 0);
    auto fn = OCCA_FUNCTION([=](const int v) -> int { return 2 * v + 1; });
    std::vector<int> w; for (int i = 0; i < n; ++i) w.push_back(fn(h[i]));
    occa::array<int> ret = r.mapTo<int>(dst, fn);
    expectVec<int>(o, op + ":returned", ret, w);
    expectVec<int>(o, op + ":output", dst, w);
  } else if (op == "toarray") {
    expectVec<int>(o, op, r.toArray(), h);
  } else if (op == "rsum") {
    auto fn = OCCA_FUNCTION([=](const int &acc, const int v) -> int { return acc + v; });
    int w = 0; for (int i = 0; i < n; ++i) w = fn(w, h[i]);
    expectVal<int>(o, op, r.reduce<int>(occa::reductionType::sum, fn), w);
  } else if (op == "rsq") {
    auto fn = OCCA_FUNCTION([=](const int &acc, const int v) -> int { return acc + v * v; });
    int w = 0; for (int i = 0; i < n; ++i) w = fn(w, h[i]);
    expectVal<int>(o, op, r.reduce<int>(occa::reductionType::sum, 0, fn), w);
  } else if (op == "rmin") {
    auto fn = OCCA_FUNCTION([=](const int &acc, const int v) -> int { return acc < v ? acc : v; });
    expectVal<int>(o, op, r.reduce<int>(occa::reductionType::min, fn), *std::min_element(h.begin(), h.end()));
  } else if (op == "rmax") {
    auto fn = OCCA_FUNCTION([=](const int &acc, const int v) -> int { return acc > v ? acc : v; });
    expectVal<int>(o, op, r.reduce<int>(occa::reductionType::max, fn), *std::max_element(h.begin(), h.end()));
  } else {
    o.fail("harness:unknown-op", op);
  }
}

//---[ slices, concat ]-----------------------------------------------------------------------------
static void sliceOp(Out &o, occa::device dev, int n, int pat, int off, int cnt, int off2, int cnt2) {
  const std::vector<int> h = pattern(n, pat);
  occa::array<int> a = mkArray<int>(dev, h, 2, 2);
  occa::array<int> s = (cnt < 0) ? a.slice(off) : a.slice(off, cnt);
  std::vector<int> w(h.begin() + off, (cnt < 0) ? h.end() : h.begin() + off + cnt);
  expectVec<int>(o, "slice", s, w);
  if (o.failed) return;
  if (off2 >= 0) {
    s = (cnt2 < 0) ? s.slice(off2) : s.slice(off2, cnt2);
    w = std::vector<int>(w.begin() + off2, (cnt2 < 0) ? w.end() : w.begin() + off2 + cnt2);
    expectVec<int>(o, "slice:nested", s, w);
    if (o.failed) return;
  }
  const int m = (int) w.size();
  const int *wv = w.data();
  s.setTileSize(2, 2);
  // operations on the slice see the slice only: indices and the values pointer are relative to it
  {
    occa::scope sc({{"size", m}});
    const int size = m;
    auto fn = OCCA_FUNCTION(sc, [=](const int &value, const int index, const int *values) -> int {
      return values[size - 1 - index] * 100 + value * 10 + index;
    });
    std::vector<int> ww; for (int i = 0; i < m; ++i) ww.push_back(fn(w[i], i, wv));
    expectVec<int>(o, "slice:map", s.map<int>(fn), ww);
  }
  {
    auto fn = OCCA_FUNCTION([=](const int &acc, const int &value, const int index) -> int {
      return acc + value * (index + 1);
    });
    int ww = 0; for (int i = 0; i < m; ++i) ww = fn(ww, w[i], i);
    expectVal<int>(o, "slice:reduce", s.reduce<int>(occa::reductionType::sum, fn), ww);
  }
  if (m > 0) {
    // writing through the slice changes exactly the covered part of the parent
    s.fill(-5);
    std::vector<int> hp = h;
    int lo = off + (off2 >= 0 ? off2 : 0);
    for (int i = 0; i < m; ++i) hp[lo + i] = -5;
    expectVec<int>(o, "slice:fill-parent", a, hp);
  }
}

static void concatOp(Out &o, occa::device dev, int la, int pa, int lb, int pb) {
  const std::vector<int> ha = pattern(la, pa), hb = pattern(lb, pb);
  occa::array<int> a = mkArray<int>(dev, ha, 0, 0), b = mkArray<int>(dev, hb, 0, 0);
  std::vector<int> w = ha;
  w.insert(w.end(), hb.begin(), hb.end());
  occa::array<int> c = a.concat(b);
  expectVec<int>(o, "concat", c, w);
  expectVec<int>(o, "concat:left-unchanged", a, ha);
  expectVec<int>(o, "concat:right-unchanged", b, hb);
}

//---[ forLoop ]------------------------------------------------------------------------------------
struct IterSpec {
  char kind;              // N, R (start,end,step), r (start,end), A
  int tile;               // 0 = none
  int n, start, end, step;
  std::vector<int> idx;
  std::vector<int> values() const {
    if (kind == 'N') return rangeValues(0, n, n >= 0 ? 1 : -1);
    if (kind == 'R') return rangeValues(start, end, step);
    if (kind == 'r') return rangeValues(start, end, end >= start ? 1 : -1);
    return idx;
  }
};

static std::vector<std::string> splitc(const std::string &s, char c) {
  std::vector<std::string> out;
  std::string cur;
  for (char ch : s) {
    if (ch == c) { out.push_back(cur); cur.clear(); }
    else cur += ch;
  }
  out.push_back(cur);
  return out;
}

static IterSpec parseIter(std::string s) {
  IterSpec it;
  it.tile = 0; it.n = 0; it.start = 0; it.end = 0; it.step = 1;
  if (s[0] == 'T') {
    const size_t p = s.find('/');
    it.tile = atoi(s.substr(1, p - 1).c_str());
    s = s.substr(p + 1);
  }
  it.kind = s[0];
  const std::string rest = s.substr(1);
  if (it.kind == 'N') {
    it.n = atoi(rest.c_str());
  } else if (it.kind == 'R' || it.kind == 'r') {
    std::vector<std::string> f = splitc(rest, ':');
    it.start = atoi(f[0].c_str());
    it.end = atoi(f[1].c_str());
    if (it.kind == 'R') it.step = atoi(f[2].c_str());
  } else {
    if (rest.size()) for (const std::string &t : splitc(rest, ',')) it.idx.push_back(atoi(t.c_str()));
  }
  return it;
}

static occa::iteration mkIter(occa::device dev, const IterSpec &s) {
  occa::iteration it;
  if (s.kind == 'N') it = occa::iteration(s.n);
  else if (s.kind == 'R') it = occa::iteration(occa::range(dev, s.start, s.end, s.step));
  else if (s.kind == 'r') it = occa::iteration(occa::range(dev, s.start, s.end));
  else it = occa::iteration(mkArray<int>(dev, s.idx, 0, 0));
  if (s.tile) {
    return occa::tileIteration(it, s.tile);
  }
  return it;
}

// hit table: 4 coordinates, each in [-5, 10] (offset 5, base 16); slot 65536 counts out-of-domain tuples
#define C23_SLOTS 65537

static void forLoopOp(Out &o, occa::device dev, const std::string &outerS, const std::string &innerS) {
  std::vector<IterSpec> os, is;
  for (const std::string &t : splitc(outerS, '+')) os.push_back(parseIter(t));
  if (innerS != "-") for (const std::string &t : splitc(innerS, '+')) is.push_back(parseIter(t));

  std::vector<int> ref((size_t) C23_SLOTS, 0);
  occa::array<int> dHits = mkArray<int>(dev, ref, 0, 0);
  occa::memory mHits = dHits.memory();
  int *hits = ref.data();
  occa::scope sc({{"hits", mHits}});

  std::vector<occa::iteration> oi, ii;
  for (const IterSpec &s : os) oi.push_back(mkIter(dev, s));
  for (const IterSpec &s : is) ii.push_back(mkIter(dev, s));

  std::vector<std::vector<int>> ov, iv;
  for (const IterSpec &s : os) ov.push_back(s.values());
  for (const IterSpec &s : is) iv.push_back(s.values());

  occa::forLoop loop(dev);
  const int no = (int) os.size(), ni = (int) is.size();

  if (no == 1 && ni == 0) {
    // a kernel needs an @inner loop: without .inner() the body has to bring its own
    auto fn = OCCA_FUNCTION(sc, [=](const int oidx) -> void {
      OKL("@inner");
      for (int k = 0; k < 2; ++k) {
        const int c0 = oidx + 5;
        if (c0 < 0 || c0 > 15) { hits[65536] += 1; } else { hits[c0 * 16 + k] += 1; }
      }
    });
    loop.outer(oi[0]).run(fn);
    for (int a : ov[0]) fn(a);
  } else if (no == 2 && ni == 0) {
    auto fn = OCCA_FUNCTION(sc, [=](const int2 oidx) -> void {
      OKL("@inner");
      for (int k = 0; k < 2; ++k) {
        const int c0 = oidx.x + 5;
        const int c1 = oidx.y + 5;
        if (c0 < 0 || c0 > 15 || c1 < 0 || c1 > 15) { hits[65536] += 1; } else { hits[(c0 * 16 + c1) * 16 + k] += 1; }
      }
    });
    loop.outer(oi[0], oi[1]).run(fn);
    for (int a : ov[0]) for (int b : ov[1]) fn(int2(a, b));
  } else if (no == 1 && ni == 1) {
    auto fn = OCCA_FUNCTION(sc, [=](const int oidx, const int iidx) -> void {
      const int c0 = oidx + 5;
      const int c1 = iidx + 5;
      if (c0 < 0 || c0 > 15 || c1 < 0 || c1 > 15) { hits[65536] += 1; } else { hits[c0 * 16 + c1] += 1; }
    });
    loop.outer(oi[0]).inner(ii[0]).run(fn);
    for (int a : ov[0]) for (int c : iv[0]) fn(a, c);
  } else if (no == 2 && ni == 1) {
    auto fn = OCCA_FUNCTION(sc, [=](const int2 oidx, const int iidx) -> void {
      const int c0 = oidx.x + 5;
      const int c1 = oidx.y + 5;
      const int c2 = iidx + 5;
      if (c0 < 0 || c0 > 15 || c1 < 0 || c1 > 15 || c2 < 0 || c2 > 15) { hits[65536] += 1; }
      else { hits[(c0 * 16 + c1) * 16 + c2] += 1; }
    });
    loop.outer(oi[0], oi[1]).inner(ii[0]).run(fn);
    for (int a : ov[0]) for (int b : ov[1]) for (int c : iv[0]) fn(int2(a, b), c);
  } else if (no == 1 && ni == 2) {
    auto fn = OCCA_FUNCTION(sc, [=](const int oidx, const int2 iidx) -> void {
      const int c0 = oidx + 5;
      const int c1 = iidx.x + 5;
      const int c2 = iidx.y + 5;
      if (c0 < 0 || c0 > 15 || c1 < 0 || c1 > 15 || c2 < 0 || c2 > 15) { hits[65536] += 1; }
      else { hits[(c0 * 16 + c1) * 16 + c2] += 1; }
    });
    loop.outer(oi[0]).inner(ii[0], ii[1]).run(fn);
    for (int a : ov[0]) for (int c : iv[0]) for (int d : iv[1]) fn(a, int2(c, d));
  } else if (no == 2 && ni == 2) {
    auto fn = OCCA_FUNCTION(sc, [=](const int2 oidx, const int2 iidx) -> void {
      const int c0 = oidx.x + 5;
      const int c1 = oidx.y + 5;
      const int c2 = iidx.x + 5;
      const int c3 = iidx.y + 5;
      if (c0 < 0 || c0 > 15 || c1 < 0 || c1 > 15 || c2 < 0 || c2 > 15 || c3 < 0 || c3 > 15) { hits[65536] += 1; }
      else { hits[((c0 * 16 + c1) * 16 + c2) * 16 + c3] += 1; }
    });
    loop.outer(oi[0], oi[1]).inner(ii[0], ii[1]).run(fn);
    for (int a : ov[0]) for (int b : ov[1]) for (int c : iv[0]) for (int d : iv[1]) fn(int2(a, b), int2(c, d));
  } else {
    o.fail("harness:forloop-shape", outerS + " " + innerS);
    return;
  }

  std::vector<int> got = fetch(dHits);
  long tuples = 0, missed = 0, dup = 0, extra = 0;
  std::string first;
  for (size_t k = 0; k < got.size(); ++k) {
    tuples += ref[k];
    if (got[k] == ref[k]) continue;
    if (got[k] < ref[k]) ++missed;
    else if (ref[k] > 0) ++dup;
    else ++extra;
    if (first.empty()) {
      std::ostringstream ss;
      if (k == 65536) ss << "out-of-domain";
      else ss << "(" << (int) ((k >> 12) & 15) - 5 << "," << (int) ((k >> 8) & 15) - 5 << ","
              << (int) ((k >> 4) & 15) - 5 << "," << (int) (k & 15) - 5 << ") right-aligned";
      ss << " ran " << got[k] << "x want " << ref[k] << "x";
      first = ss.str();
    }
  }
  if (missed || dup || extra) {
    std::string clause = "forloop:hits";
    if (missed) clause += ":missed";
    if (dup) clause += ":repeated";
    if (extra) clause += ":extra";
    o.fail(clause, "tuples=" + sstr(tuples) + " missed=" + sstr(missed) + " repeated=" + sstr(dup) +
                   " extra=" + sstr(extra) + " first: " + first);
  } else {
    o.ok("forloop tuples=" + sstr(tuples));
  }
}

//---[ main ]---------------------------------------------------------------------------------------
static void runItem(Out &o, const std::string &line) {
  std::istringstream in(line);
  std::string fam, dev;
  in >> fam >> dev;
  occa::device d = getDev(dev);
  if (fam == "A" || fam == "D") {
    std::string op; int n, pat, ts, ti;
    in >> op >> n >> pat >> ts >> ti;
    if (fam == "A") intArrayOp(o, d, op, n, pat, ts, ti);
    else dblArrayOp(o, d, op, n, pat, ts, ti);
  } else if (fam == "R") {
    std::string op; int ctor, s, e, st, ts, ti;
    in >> op >> ctor >> s >> e >> st >> ts >> ti;
    rangeOp(o, d, op, ctor, s, e, st, ts, ti);
  } else if (fam == "S") {
    int n, pat, off, cnt, off2, cnt2;
    in >> n >> pat >> off >> cnt >> off2 >> cnt2;
    sliceOp(o, d, n, pat, off, cnt, off2, cnt2);
  } else if (fam == "C") {
    int la, pa, lb, pb;
    in >> la >> pa >> lb >> pb;
    concatOp(o, d, la, pa, lb, pb);
  } else if (fam == "F") {
    std::string os, is;
    in >> os >> is;
    forLoopOp(o, d, os, is);
  } else {
    o.fail("harness:unknown-family", fam);
  }
}

int main(int argc, char **argv) {
  if (argc < 2) {
    fprintf(stderr, "usage: driver <items-file>\n");
    return 2;
  }
  std::ifstream f(argv[argc - 1]);
  std::string line;
  int idx = 0;
  while (std::getline(f, line)) {
    printf("BEGIN %d\n", idx);
    fflush(stdout);
    Out o;
    try {
      runItem(o, line);
    } catch (occa::exception &e) {
      std::string m = e.message;
      for (char &c : m) if (c == '\n') c = ' ';
      o.lines.push_back("exc " + m.substr(0, 300));
    } catch (std::exception &e) {
      o.lines.push_back(std::string("exc std::exception ") + e.what());
    }
    for (const std::string &l : o.lines) printf("%s\n", l.c_str());
    printf("END %d\n", idx);
    fflush(stdout);
    ++idx;
  }
  return 0;
}
