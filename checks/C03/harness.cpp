// C03 / C04: memory-pool histories on the real occa::memoryPool (Serial device).  System for E1 histbfs.
//
// One System, two oracles, selected by the environment variable VP_ORACLE (C03 | C04):
//   C03  live handles that do not view common bytes of one reservation are byte-disjoint and inside
//        the pool; overlapping views of one reservation keep aliasing; every live reservation and
//        slice reads back the bytes last written to it.
//   C04  reserved() = measure of the union of the live ranges rounded out to the alignment,
//        numReservations() = live count, size() >= reserved(), all released => reserved()==0,
//        resize below reserved() throws.
// Handles are anonymous: operations address the i-th live handle in canonical order (sorted by the
// implementation's (offset,size)), so that states which differ only in harness slot names merge.
#include <algorithm>
#include <map>
#include <memory>
#include <unistd.h>
#include <fcntl.h>
#include <occa.hpp>
#include <occa/internal/core/device.hpp>
#include <occa/internal/core/memory.hpp>
#include <occa/internal/core/buffer.hpp>
#include <occa/internal/core/memoryPool.hpp>
#include <occa/internal/modes.hpp>
#include "histbfs_fork2.hpp"

// A fresh Serial device per System.  occa::device("{mode:'Serial'}") spends ~0.5 ms layering the
// settings into the device properties; that layering is done once per process (by a normal public
// construction) and every System then builds its own device object from the resulting properties,
// exactly as device::setup does (newModeDevice + initial stream).
static occa::device freshSerialDevice() {
  static occa::json *tmpl = NULL;
  if (!tmpl) {
    occa::device first(std::string("{mode: 'Serial'}"));
    tmpl = new occa::json(first.properties());
  }
  occa::device d(occa::newModeDevice(*tmpl));
  d.setStream(d.createStream());
  return d;
}

enum { RESERVE = 1, RELEASE, SLICE, RESIZE, SHRINK, SETALIGN };

static const int RES_SIZES[] = {1, 3, 4, 5, 8, 12};
static const int SLICES[][2] = {{0, 1}, {0, 3}, {1, 3}, {3, 1}, {3, 2}, {4, 4}, {5, 3}};   // (offset,count), unaligned on purpose
static const int RESIZE_DELTAS[] = {-1, 1, 5, 12};
static const int ALIGNS[] = {4, 8, 16};
static const int MAX_ROOTS = 4, MAX_SLICES = 2, MAX_POOL = 64;

// ---- coverage counters (vacuity guards); appended to $VP_COVER_DIR/cov.<driver pid> by every child ----------
static std::map<std::string, long> &coverMap() { static std::map<std::string, long> m; return m; }
static void cov(const std::string &k, long n = 1) { coverMap()[k] += n; }
static long &driverPid() { static long p = 0; return p; }
static void dumpCover() {
  const char *d = getenv("VP_COVER_DIR");
  if (!d) return;
  std::string path = std::string(d) + "/cov." + std::to_string(driverPid() ? driverPid() : (long) getpid());
  std::string out;
  for (auto &kv : coverMap()) out += kv.first + " " + std::to_string(kv.second) + "\n";
  int fd = open(path.c_str(), O_WRONLY | O_CREAT | O_APPEND, 0644);
  if (fd >= 0) { (void) !write(fd, out.data(), out.size()); close(fd); }
}

struct Region {          // bytes of one root reservation as last written (reference model)
  std::vector<uint8_t> bytes;
  int pat;
};

struct Handle {
  occa::memory mem;
  std::shared_ptr<Region> reg;
  long off, cnt;         // position inside the region
  bool root;
};

typedef std::pair<long, long> Range;

static long rdown(long x, long a) { return (x / a) * a; }
static long rup(long x, long a) { return ((x + a - 1) / a) * a; }

static std::vector<Range> unionOf(std::vector<Range> v) {
  std::sort(v.begin(), v.end());
  std::vector<Range> u;
  for (auto &r : v) {
    if (r.second <= r.first) continue;
    if (!u.empty() && r.first <= u.back().second) u.back().second = std::max(u.back().second, r.second);
    else u.push_back(r);
  }
  return u;
}
static long measure(const std::vector<Range> &u) { long m = 0; for (auto &r : u) m += r.second - r.first; return m; }

struct PoolSys {
  hb::Ctx &ctx;
  bool judge03, judge04;
  occa::device dev;
  occa::memoryPool pool;
  std::vector<Handle> hs;

  PoolSys(hb::Ctx &c) : ctx(c) {
    const char *o = getenv("VP_ORACLE");
    std::string os = o ? o : "both";
    judge03 = (os == "C03" || os == "both");
    judge04 = (os == "C04" || os == "both");
    static bool reg = false;
    if (!reg) { reg = true; coverMap(); atexit(dumpCover); }   // map first: it must outlive the handler
    dev = freshSerialDevice();
    pool = dev.createMemoryPool();
    pool.setAlignment(4);      // first operation of every history: numbers stay tiny
  }
  ~PoolSys() {
    hs.clear();
    pool = occa::memoryPool();
    dev = occa::device();
  }

  occa::modeMemoryPool_t *mp() const { return pool.getModeMemoryPool(); }

  static std::string kindName(const hb::Op &o) {
    static const char *n[] = {"?", "reserve", "release", "slice", "resize", "shrinkToFit", "setAlignment"};
    return (o.k >= 1 && o.k <= 6) ? n[o.k] : "?";
  }
  static std::string name(const hb::Op &o) {
    std::string s = kindName(o);
    switch (o.k) {
    case RESERVE: case SETALIGN: s += "(" + std::to_string(o.a) + ")"; break;
    case RELEASE: s += "(#" + std::to_string(o.a) + ")"; break;
    case SLICE: s += "(#" + std::to_string(o.a) + ",off=" + std::to_string(o.b) + ",cnt=" + std::to_string(o.c) + ")"; break;
    case RESIZE: s += std::string("(reserved") + (o.a >= 0 ? "+" : "") + std::to_string(o.a) + ")"; break;
    }
    return s;
  }

  // ---- reference side -------------------------------------------------------------------------
  long implOff(const Handle &h) const { return (long) h.mem.getModeMemory()->offset; }
  long implSize(const Handle &h) const { return (long) h.mem.getModeMemory()->size; }

  std::vector<Range> roundedRanges(long a, int skip = -1) const {
    std::vector<Range> v;
    for (int i = 0; i < (int) hs.size(); ++i) {
      if (i == skip || !hs[i].mem.isInitialized()) continue;
      v.push_back(Range(rdown(implOff(hs[i]), a), rup(implOff(hs[i]) + implSize(hs[i]), a)));
    }
    return v;
  }
  long refReserved() const { return measure(unionOf(roundedRanges((long) pool.alignment()))); }

  // relation of the rounded range of handle i to the union of the others
  std::string relation(int i) const {
    const long a = (long) pool.alignment();
    Range r(rdown(implOff(hs[i]), a), rup(implOff(hs[i]) + implSize(hs[i]), a));
    std::vector<Range> others = unionOf(roundedRanges(a, i));
    long inter = 0;
    for (auto &u : others) inter += std::max(0L, std::min(u.second, r.second) - std::max(u.first, r.first));
    if (inter == 0) return "disjoint";
    if (inter == r.second - r.first) return "covered";
    return "partial";
  }

  // free space as the reference sees it: holes between rounded ranges and the tail
  std::string reserveSituation(long s) const {
    const long a = (long) pool.alignment();
    const long size = (long) pool.size();
    std::vector<Range> u = unionOf(roundedRanges(a));
    if (measure(u) + s > size) return "grow";
    long cur = 0; bool fits = false;
    for (auto &r : u) { if (r.first - cur >= s) fits = true; cur = std::max(cur, r.second); }
    if (size - cur >= s) fits = true;
    return fits ? "fits" : "fragmented";
  }

  int countRoots() const { int n = 0; for (auto &h : hs) n += h.root; return n; }
  int countSlices() const { return (int) hs.size() - countRoots(); }

  void sortHandles() {
    std::stable_sort(hs.begin(), hs.end(), [&](const Handle &x, const Handle &y) {
      const bool xi = x.mem.isInitialized(), yi = y.mem.isInitialized();
      if (xi != yi) return xi;
      if (!xi) return false;
      const long xo = x.mem.getModeMemory()->offset, yo = y.mem.getModeMemory()->offset;
      if (xo != yo) return xo < yo;
      const long xs = x.mem.getModeMemory()->size, ys = y.mem.getModeMemory()->size;
      if (xs != ys) return xs < ys;
      if (x.root != y.root) return x.root;
      return false;
    });
  }

  std::vector<hb::Op> enabled() {
    std::vector<hb::Op> v;
    if (countRoots() < MAX_ROOTS)
      for (int s : RES_SIZES) v.push_back(hb::Op(RESERVE, s));
    for (int i = 0; i < (int) hs.size(); ++i) v.push_back(hb::Op(RELEASE, i));
    if (countSlices() < MAX_SLICES)
      for (int i = 0; i < (int) hs.size(); ++i)
        for (auto &sl : SLICES)
          if (sl[0] + sl[1] <= hs[i].cnt && !(sl[0] == 0 && sl[1] == hs[i].cnt && !hs[i].root))
            v.push_back(hb::Op(SLICE, i, sl[0], sl[1]));
    const long rr = refReserved();
    for (int d : RESIZE_DELTAS)
      if (rr + d >= 0 && rr + d <= MAX_POOL) v.push_back(hb::Op(RESIZE, d));
    v.push_back(hb::Op(SHRINK));
    for (int a : ALIGNS)
      if ((long) pool.alignment() != a) v.push_back(hb::Op(SETALIGN, a));
    return v;
  }

  void apply(const hb::Op &o) {
    const std::string kind = kindName(o);
    std::string situation;
    std::vector<long> offsBefore;
    for (auto &h : hs) offsBefore.push_back(h.mem.isInitialized() ? implOff(h) : -1);
    const long liveBefore = (long) hs.size();
    const long rrBefore = refReserved();
    bool threw = false, mustThrow = false;
    std::string what;
    try {
      switch (o.k) {
      case RESERVE: {
        situation = reserveSituation(o.a);
        // smallest pattern id not used by a live region
        int pat = 0;
        for (bool again = true; again;) {
          again = false;
          for (auto &h : hs) if (h.reg->pat == pat) { ++pat; again = true; }
        }
        Handle h;
        h.mem = pool.reserve(o.a, occa::dtype::byte);
        h.reg = std::make_shared<Region>();
        h.reg->pat = pat;
        h.reg->bytes.resize(o.a);
        for (int j = 0; j < o.a; ++j) h.reg->bytes[j] = (uint8_t) ((pat + 1) * 32 + j);
        h.off = 0; h.cnt = o.a; h.root = true;
        if (h.mem.isInitialized() && (long) h.mem.byte_size() == o.a)
          h.mem.copyFrom(h.reg->bytes.data(), o.a);      // unique pattern, written through the reservation
        hs.push_back(h);
        if (ctx.judging) cov("reserve:" + situation);
        break;
      }
      case RELEASE: {
        if (o.a < 0 || o.a >= (int) hs.size()) { ctx.fail("harness:bad-index", name(o)); return; }
        situation = relation(o.a);
        if (ctx.judging) {
          cov("release:" + situation);
          if (hs[o.a].root) for (int i = 0; i < (int) hs.size(); ++i)
            if (i != o.a && hs[i].reg == hs[o.a].reg) { cov("slice-outlives-parent"); break; }
        }
        hs.erase(hs.begin() + o.a);
        break;
      }
      case SLICE: {
        if (o.a < 0 || o.a >= (int) hs.size()) { ctx.fail("harness:bad-index", name(o)); return; }
        Handle h;
        h.mem = hs[o.a].mem.slice(o.b, o.c);
        h.reg = hs[o.a].reg;
        h.off = hs[o.a].off + o.b; h.cnt = o.c; h.root = false;
        hs.push_back(h);
        situation = relation((int) hs.size() - 1);
        if (ctx.judging) cov("slice:" + situation);
        break;
      }
      case RESIZE: {
        const long target = rrBefore + o.a;
        mustThrow = target < rrBefore;
        situation = mustThrow ? "below" : (hs.empty() ? "empty" : "live");
        pool.resize((occa::udim_t) target);
        break;
      }
      case SHRINK:
        situation = hs.empty() ? "empty" : "live";
        pool.shrinkToFit();
        break;
      case SETALIGN:
        situation = hs.empty() ? "empty" : "live";
        pool.setAlignment((occa::udim_t) o.a);
        if (ctx.judging) cov("setAlignment:" + situation);
        break;
      default:
        ctx.fail("harness:bad-op", name(o));
        return;
      }
    } catch (occa::exception &e) {
      threw = true;
      what = e.what();
    }
    if (ctx.judging) {
      if (threw) cov(std::string("threw:") + kind + ":" + situation);
      if (o.k == RESIZE && !mustThrow && !threw) cov("resize:" + situation);
      bool moved = false;
      for (size_t i = 0; i < offsBefore.size() && i < hs.size(); ++i) {
        if (o.k == RELEASE) break;
        if (hs[i].mem.isInitialized() && offsBefore[i] >= 0 && implOff(hs[i]) != offsBefore[i]) moved = true;
      }
      if (moved) cov("repack-moved:" + kind);
    }
    if (ctx.judging) {
      const std::string tag = kind + (situation.empty() ? "" : ":" + situation);
      if (judge04 && o.k == RESIZE && mustThrow && !threw)
        ctx.fail("resize-below-reserved-accepted", name(o) + " with reserved()=" + std::to_string(rrBefore) + " did not throw");
      if (threw && !(o.k == RESIZE && mustThrow)) cov("unexpected-exception");
      cov("judged-transitions");
      if (judge03) oracle03(tag);
      if (judge04) oracle04(tag);
      if (ctx.fails.empty()) shapeCoverage();
    }
    sortHandles();
  }

  // ---- C03 ------------------------------------------------------------------------------------
  void oracle03(const std::string &tag) {
    occa::modeMemoryPool_t *p = mp();
    if (!p) { ctx.fail("pool-lost:" + tag, "pool handle became uninitialised"); return; }
    const long psize = (long) pool.size();
    std::vector<long> start(hs.size(), 0);
    for (size_t i = 0; i < hs.size(); ++i) {
      const Handle &h = hs[i];
      const std::string who = std::string(h.root ? "reservation" : "slice") + "[pat " + std::to_string(h.reg->pat) + " off " + std::to_string(h.off) + " cnt " + std::to_string(h.cnt) + "]";
      if (!h.mem.isInitialized()) { ctx.fail("handle-lost:" + tag, who + " became uninitialised"); return; }
      occa::modeMemory_t *mm = h.mem.getModeMemory();
      if ((long) mm->size != h.cnt) { ctx.fail("size-changed:" + tag, who + " has size " + std::to_string((long) mm->size)); return; }
      if (!p->buffer || !p->buffer->ptr) { ctx.fail("inside-pool:" + tag, who + " is live but the pool has no backing buffer"); return; }
      start[i] = (long) (mm->ptr - p->buffer->ptr);
      if (start[i] < 0 || start[i] + h.cnt > psize || start[i] + h.cnt > (long) p->buffer->size) {
        ctx.fail("inside-pool:" + tag, who + " occupies [" + std::to_string(start[i]) + "," + std::to_string(start[i] + h.cnt) + ") but pool size()=" + std::to_string(psize) + " backing buffer=" + std::to_string((long) p->buffer->size));
        return;
      }
    }
    for (size_t i = 0; i < hs.size(); ++i)
      for (size_t j = i + 1; j < hs.size(); ++j) {
        // two views of one reservation that share bytes of it must keep aliasing exactly those bytes;
        // views that share nothing (e.g. two slices that outlived their parent) are independent ranges
        const bool sameRes = hs[i].reg == hs[j].reg;
        if (sameRes && hs[i].off < hs[j].off + hs[j].cnt && hs[j].off < hs[i].off + hs[i].cnt) {
          if (start[i] - hs[i].off != start[j] - hs[j].off) {
            ctx.fail("alias-broken:" + tag, "two overlapping views of one reservation no longer alias: bases " + std::to_string(start[i] - hs[i].off) + " vs " + std::to_string(start[j] - hs[j].off) + " " + layout());
            return;
          }
          continue;
        }
        if (start[i] < start[j] + hs[j].cnt && start[j] < start[i] + hs[i].cnt) {
          ctx.fail(std::string(sameRes ? "overlap-of-disjoint-views:" : "overlap:") + tag, "[" + std::to_string(start[i]) + "," + std::to_string(start[i] + hs[i].cnt) + ") pat " + std::to_string(hs[i].reg->pat) +
                   " overlaps [" + std::to_string(start[j]) + "," + std::to_string(start[j] + hs[j].cnt) + ") pat " + std::to_string(hs[j].reg->pat) + " " + layout());
          return;
        }
      }
    for (size_t i = 0; i < hs.size(); ++i) {
      const Handle &h = hs[i];
      uint8_t *buf = new uint8_t[h.cnt];       // exact size: reads past the end are visible to ASan
      h.mem.copyTo(buf, h.cnt);
      bool same = memcmp(buf, h.reg->bytes.data() + h.off, h.cnt) == 0;
      std::string got;
      if (!same) for (long j = 0; j < h.cnt; ++j) got += std::to_string((int) buf[j]) + " ";
      delete[] buf;
      if (!same) {
        ctx.fail("contents:" + tag, std::string(h.root ? "reservation" : "slice") + " pat " + std::to_string(h.reg->pat) + " off " + std::to_string(h.off) + " reads " + got + " expected first byte " + std::to_string((int) h.reg->bytes[h.off]) + " " + layout());
        return;
      }
    }
  }

  // ---- C04 ------------------------------------------------------------------------------------
  void oracle04(const std::string &tag) {
    if (!mp()) { ctx.fail("pool-lost:" + tag, "pool handle became uninitialised"); return; }
    for (auto &h : hs) if (!h.mem.isInitialized()) { ctx.fail("handle-lost:" + tag, "a live reservation became uninitialised"); return; }
    const long ref = refReserved();
    const long got = (long) pool.reserved();
    if (hs.empty() && got != 0)
      ctx.fail("reserved-nonzero-when-empty:" + tag, "all reservations released but reserved()=" + std::to_string(got));
    else if (got != ref)
      ctx.fail("reserved:" + tag, "reserved()=" + std::to_string(got) + " union of rounded live ranges=" + std::to_string(ref) + " " + layout());
    if ((long) pool.numReservations() != (long) hs.size())
      ctx.fail("numReservations:" + tag, "numReservations()=" + std::to_string((long) pool.numReservations()) + " live=" + std::to_string(hs.size()));
    if ((long) pool.size() < got)
      ctx.fail("size-below-reserved:" + tag, "size()=" + std::to_string((long) pool.size()) + " < reserved()=" + std::to_string(got) + " " + layout());
  }

  std::string layout() const {
    std::string s = "{align " + std::to_string((long) pool.alignment()) + " size " + std::to_string((long) pool.size()) + " reserved " + std::to_string((long) pool.reserved()) + ":";
    for (auto &h : hs) if (h.mem.isInitialized())
      s += " [" + std::to_string(implOff(h)) + "," + std::to_string(implOff(h) + implSize(h)) + ")" + (h.root ? "" : "s");
    return s + "}";
  }

  // situations the exploration must reach (vacuity guards)
  void shapeCoverage() {
    const long a = (long) pool.alignment();
    std::vector<Range> u = unionOf(roundedRanges(a));
    long holes = 0, cur = 0;
    for (auto &r : u) { if (r.first > cur) ++holes; cur = r.second; }
    if (holes >= 2) cov("state:two-internal-holes");
    if (holes >= 1) cov("state:internal-hole");
    bool unaligned = false;
    for (auto &h : hs) if (implOff(h) % a) unaligned = true;
    if (unaligned) cov("state:unaligned-offset");
    if (hs.size() >= 4) cov("state:four-live");
  }

  // ---- canonical key: implementation state + aliasing relation of the handles ----------------------
  std::string canon() {
    occa::modeMemoryPool_t *p = mp();
    if (!p) return "nopool";
    std::string s = "a" + std::to_string((long) p->alignment) + " s" + std::to_string((long) p->size) + " r" + std::to_string((long) p->reserved) +
                    " b" + (p->buffer ? std::to_string((long) p->buffer->size) : std::string("-")) + " n" + std::to_string((long) p->reservations.size()) + " |";
    std::vector<Region *> seen;
    std::vector<const occa::modeMemory_t *> owned;
    for (auto &h : hs) {
      if (!h.mem.isInitialized()) { s += " dead"; continue; }
      occa::modeMemory_t *mm = h.mem.getModeMemory();
      owned.push_back(mm);
      size_t ri = std::find(seen.begin(), seen.end(), h.reg.get()) - seen.begin();
      if (ri == seen.size()) seen.push_back(h.reg.get());
      s += " " + std::to_string((long) mm->offset) + "," + std::to_string((long) mm->size) + "," +
           (p->buffer && p->buffer->ptr ? std::to_string((long) (mm->ptr - p->buffer->ptr)) : std::string("?")) + "," +
           (h.root ? "R" : "s") + std::to_string(ri) + "+" + std::to_string(h.off);
    }
    // reservation-set entries that no harness handle owns (must not exist; part of the state if they do)
    s += " |";
    std::vector<std::string> ghosts;
    for (occa::modeMemory_t *m : p->reservations)
      if (std::find(owned.begin(), owned.end(), m) == owned.end())
        ghosts.push_back(std::to_string((long) m->offset) + "," + std::to_string((long) m->size));
    std::sort(ghosts.begin(), ghosts.end());
    for (auto &g : ghosts) s += " g" + g;
    return s;
  }

  void finish() {}
};

int main(int argc, char **argv) {
  // crash-contained driver: every state expansion runs in a forked child, which appends its situation
  // counters to the driver's file before it exits
  driverPid() = (long) getpid();
  coverMap();
  { occa::device warm = freshSerialDevice(); }   // library start-up and the property template happen once, before the forks
  hbf2::childExitHook() = dumpCover;
  return hbf2::main<PoolSys>(argc, argv, 120);
}
