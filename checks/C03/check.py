#!/usr/bin/env python3
"""C03: memory-pool reservations never overlap and keep their contents (E1 histbfs)."""
import os, sys
sys.path.insert(0, os.path.dirname(os.path.abspath(__file__)))
import poolcheck
from vlib.core import run_main
run_main(lambda: poolcheck.run("C03"))
