"""Shared driver of C03 and C04: one exploration (checks/C03/harness.cpp), two oracles.

The harness judges only the clauses of the oracle named in VP_ORACLE, so a defect of the accounting
(C04) does not fail the placement/contents check (C03) and vice versa.  A crash of the process under
test (sanitizer report, signal) is an observation for both: no clause can be evaluated afterwards."""
import glob, os, sys, time
HERE = os.path.dirname(os.path.abspath(__file__))
sys.path.insert(0, os.path.dirname(os.path.dirname(HERE)))
from vlib.core import Check, san_env, load_replay, sh
from vlib import histbfs

KIND = {"1": "reserve", "2": "release", "3": "slice", "4": "resize", "5": "shrinkToFit", "6": "setAlignment"}

ALPHABET = ("pool created on a fresh Serial device, setAlignment(4) first; reserve(s) s in {1,3,4,5,8,12} (<=4 live roots, filled with a unique byte pattern); "
            "release(i) of any live reservation or slice; slice(i,off,cnt) (off,cnt) in {(0,1),(0,3),(1,3),(3,1),(3,2),(4,4),(5,3)} of any live handle (<=2 live slices); "
            "resize(reserved+d) d in {-1,+1,+5,+12} (target <= 64); shrinkToFit; setAlignment(a) a in {4,8,16}")

ORACLE = {
    "C03": "after every operation: every live handle lies inside [0,size()) and inside the real backing buffer; handles that do not view common bytes of one reservation are "
           "byte-disjoint (ranges taken from the handles' real pointers); overlapping views of one reservation keep aliasing the same bytes; every live reservation and slice reads back "
           "(copyTo into an exact-size heap block, ASan) the pattern written when its reservation was created",
    "C04": "after every operation: reserved() == measure of the union of the live ranges each rounded out to alignment() (sorted-interval reference over the "
           "implementation's offsets/sizes); numReservations() == number of live handles (reservations and slices); size() >= reserved(); no live handle => reserved()==0; "
           "resize(b) with b < reserved() throws",
}


def crash_sig(op, crash, stderr):
    return "crash:%s:%s" % (histbfs._crash_class(crash, stderr), KIND.get(op.split(",")[0], "?"))


def read_cover(d):
    tot = {}
    for f in glob.glob(os.path.join(d, "cov.*")):
        for ln in open(f):
            p = ln.split()
            if len(p) == 2:
                tot[p[0]] = tot.get(p[0], 0) + int(p[1])
    return tot


def run(pid):
    c = Check(pid, "model_checking")
    c.build("asan")
    exe = c.compile(os.path.join(HERE, "harness.cpp"), "harness")
    covdir = os.path.join(c.scratch, "cover")
    os.makedirs(covdir, exist_ok=True)
    env = san_env(c.scratch, {"VP_ORACLE": pid, "VP_COVER_DIR": covdir})
    # smaller ASan quarantine: freed blocks are reused instead of mapping fresh pages for every System (3x faster);
    # histories allocate a few KB, so 16 MB still keeps every freed block of a history quarantined
    env["ASAN_OPTIONS"] += ":quarantine_size_mb=16"
    if c.args.replay:
        r = load_replay(c.args.replay)
        env.pop("VP_COVER_DIR")
        p = sh([exe, "replay", r["replay"]["history"]], env=env)
        print(p.stdout)
        sys.exit(1 if p.returncode else 0)
    depth = 5 if c.tier == "quick" else 6
    depth = int(os.environ.get("VP_DEPTH", depth))
    deadline = c.t0 + c.budget(400, 3000)   # cut-offs, not targets: an idle 16-core machine needs about 1 min (quick) / 6 min (thorough)
    res = histbfs.bfs(c, exe, depth, deadline, env, c.scratch, crash_sig=crash_sig, per_item_timeout=600.0)
    # a worker that ran out of time on an overloaded machine is not an observation: re-run every timeout alone with a
    # generous limit; if the single run passes, the exploration lost a state expansion => harness error, not a verdict
    for sig, detail, hist in res.violations:
        if "timeout" in sig:
            import subprocess
            try:
                p = subprocess.run([exe, "replay", hist or ";"], env=env, cwd=c.scratch, stdout=subprocess.PIPE,
                                   stderr=subprocess.PIPE, text=True, timeout=900)
                if p.returncode == 0:
                    c.harness_error("a worker timed out on history %r but the history passes when run alone (overloaded machine?); re-run the check" % hist)
            except subprocess.TimeoutExpired:
                pass
    # one readable rendering per signature (of its shortest history); describing costs a process start each
    shortest = {}
    for sig, detail, hist in res.violations:
        if sig not in shortest or len(hist) < len(shortest[sig]):
            shortest[sig] = hist
    readable = {sig: histbfs.describe(exe, h, env) for sig, h in shortest.items()}
    for sig, detail, hist in res.violations:
        c.violation(sig, detail + (" :: history: " + readable[sig] if shortest[sig] == hist else ""), {"history": hist})
    if res.depth_completed < 4 and not res.violations and not res.budget_hit:   # out of budget = exit 0 with exhaustive:false
        c.harness_error("BFS did not complete depth 4 within the budget (depth_completed=%d)" % res.depth_completed)
    cover = read_cover(covdir)
    # vacuity guards: the situations the property is about must have been reached
    # (enforced only on runs without violations: violating transitions are not expanded, which cuts the space
    #  behind them, and such a run fails anyway)
    need = ["reserve:fits", "reserve:grow", "reserve:fragmented", "state:two-internal-holes", "repack-moved:resize", "repack-moved:setAlignment",
            "repack-moved:reserve", "slice-outlives-parent", "setAlignment:live", "threw:resize:below", "state:unaligned-offset",
            "release:partial", "release:covered", "slice:covered"]
    if not res.violations and not res.budget_hit:
        for k in need:
            c.vacuity(cover.get(k, 0) > 0, "situation %r was never reached (coverage: %s)" % (k, sorted(cover.items())))
    # transitions on which the harness evaluated the oracle on the implementation state (its own counter)
    judged = cover.get("judged-transitions", res.transitions)
    c.set_model_checking(res.states, res.transitions, judged, res.samples,
                         exhaustive=(res.depth_completed >= depth or res.exhaustive))
    c.coverage.update({
        "depth_completed": res.depth_completed, "depth_target": depth, "per_depth": res.per_depth,
        "budget_hit": res.budget_hit, "crashes": res.crashes,
        "alphabet": ALPHABET, "oracle": ORACLE[pid],
        "situations_reached": {k: cover[k] for k in sorted(cover)},
        "distinct_situations": len(cover),
        "distinct_violation_signatures": len(res.sig_counts),
        "explanation": "every transition is executed on the real occa::memoryPool of a fresh Serial device (exploration runs on the implementation, so every explored trace is an implementation trace; traces_validated_against_impl is the harness's own count of judged transitions and also contains those of a layer that was cut off by the budget or lost with a dying worker); situation counts are over judged transitions (>= because discarded layers also count)",
    })
    c.assumptions += [
        "state key = implementation state (alignment, size, reserved, backing-buffer size, reservation set with offsets/sizes/pointer deltas) + aliasing relation of the live handles; handles are anonymous (operations address the i-th handle in (offset,size) order), which merges states that differ only in harness slot names",
        "zero-size reservations/slices, handle copies, free() vs. drop and invalid slice arguments are not in the alphabet (C01/C02)",
        "buffer contents are a function of the reservation patterns and not part of the key",
    ]
    c.finish()
