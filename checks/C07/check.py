#!/usr/bin/env python3
"""C07: editing an included header always invalidates stale cached kernels.
Explicit-state BFS over header-edit histories; after every edit the kernel is built and run by a fresh
OS process sharing one cache directory; the printed values must be those of the current file contents
(reference: gcc -E on the same files)."""
import hashlib, json, os, shutil, subprocess, sys, time
from concurrent.futures import ThreadPoolExecutor
sys.path.insert(0, os.path.dirname(os.path.dirname(os.path.dirname(os.path.abspath(__file__)))))
from vlib.core import Check, load_replay, NCPU, run_main
from vlib import fsx

KERNEL = '''#define VA 0
#define VB 0
#define VC 0
#include "a.h"
#include "b.h"
@kernel void k(int *out) {
  for (int o = 0; o < 1; ++o; @outer) {
    for (int i = 0; i < 1; ++i; @inner) {
      out[0] = VA;
      out[1] = VB;
      out[2] = VC;
    }
  }
}
'''
TEXTS = {
    "A1": "#undef VA\n#define VA 1\n",
    "A2": "#undef VA\n#define VA 2\n",
    "B1": "#undef VB\n#define VB 1\n",
    "B2": "#undef VB\n#define VB 2\n",
    "IC": '#include "c.h"\n',
    "C1": "#undef VC\n#define VC 1\n",
    "C2": "#undef VC\n#define VC 2\n",
}
# alphabet: set(file, text).  a.h and b.h may get each other's text (identical contents in two files),
# may include c.h (include-graph change) and may be reverted.
OPS = [("a.h", "A1"), ("a.h", "A2"), ("a.h", "B1"), ("a.h", "IC"),
       ("b.h", "B1"), ("b.h", "B2"), ("b.h", "A1"), ("b.h", "IC"),
       ("c.h", "C1"), ("c.h", "C2")]
INIT = {"a.h": "A1", "b.h": "B1", "c.h": "C1"}
import threading
RETRY_LOCK = threading.Lock()


def reference(files, workdir):
    """values the kernel must print, from the system C preprocessor on the same files."""
    d = os.path.join(workdir, "ref-" + hashlib.sha1(json.dumps(files, sort_keys=True).encode()).hexdigest()[:10])
    os.makedirs(d, exist_ok=True)
    for f, t in files.items():
        open(os.path.join(d, f), "w").write(TEXTS[t])
    open(os.path.join(d, "k.c"), "w").write('#define VA 0\n#define VB 0\n#define VC 0\n#include "a.h"\n#include "b.h"\nRESULT VA VB VC\n')
    p = subprocess.run(["gcc", "-E", "-P", "k.c"], cwd=d, stdout=subprocess.PIPE, stderr=subprocess.PIPE, text=True)
    shutil.rmtree(d, ignore_errors=True)
    for ln in p.stdout.split("\n"):
        if ln.startswith("RESULT"):
            return [int(x) for x in ln.split()[1:4]]
    raise RuntimeError("gcc -E reference failed: " + p.stderr)


def cache_key(cache):
    """canonical cache state: per hash directory the sorted file names and the dependency table of build.json"""
    root = os.path.join(cache, "cache")
    out = []
    if os.path.isdir(root):
        for h in sorted(os.listdir(root)):
            d = os.path.join(root, h)
            names = sorted(os.listdir(d))
            deps = None
            bj = os.path.join(d, "build.json")
            if os.path.exists(bj):
                try:
                    deps = json.load(open(bj)).get("kernel", {}).get("dependencies")
                except Exception:
                    deps = "unreadable"
            out.append((h, names, json.dumps(deps, sort_keys=True)))
    return hashlib.sha1(json.dumps(out).encode()).hexdigest()


def main():
    c = Check("C07", "model_checking")
    pfs, kprobe = fsx.build_tools(c, "rel")
    src = os.path.join(c.scratch, "src")     # fixed location: dependency paths are part of build.json
    os.makedirs(src)
    open(os.path.join(src, "k.okl"), "w").write(KERNEL)
    spec = fsx.write_spec(os.path.join(c.scratch, "spec.json"), "Serial", [{"file": os.path.join(src, "k.okl"), "kernel": "k", "nout": 3}])
    refcache = {}

    def ref(files):
        k = json.dumps(files, sort_keys=True)
        if k not in refcache:
            refcache[k] = reference(files, c.scratch)
        return refcache[k]

    # A node is a saved cache directory (<scratch>/n-*/occa).  Absolute paths are recorded in build.json
    # (dependency table) and may enter cache keys, so EVERY build runs at the same absolute path
    # <scratch>/work: each worker bind-mounts its private slot directory there inside its own mount
    # namespace (unshare -m).  If mount namespaces are unavailable the BFS runs with one worker in the
    # real directory.
    WORK = os.path.join(c.scratch, "work")
    os.makedirs(WORK, exist_ok=True)
    probe = subprocess.run(["unshare", "-m", "sh", "-c", "mount --bind %s %s" % (src, WORK)], capture_output=True)
    use_ns = probe.returncode == 0 and not os.environ.get("VP_C07_NO_NS")
    nworkers = NCPU if use_ns else 1

    def run_in_work(sdir, timeout):
        sp = os.path.join(WORK, "spec.json")
        env = fsx.base_env(os.path.join(WORK, "occa"))
        if use_ns:
            prefix = ["unshare", "-m", "sh", "-c", 'mount --bind "$0" "$1" && cd "$1/src" && shift 1 && exec "$@"', sdir, WORK]
            return fsx.run_probe(kprobe, sp, env, timeout=timeout, prefix=prefix)
        return fsx.run_probe(kprobe, sp, env, timeout=timeout, cwd=os.path.join(WORK, "src"))

    def run_step(slot, parent_dir, files, out_dir):
        """copy parent's cache into the slot, write current files, build+run in a fresh process, save cache to out_dir."""
        sdir = os.path.join(c.scratch, "slot%d" % slot) if use_ns else WORK

        def prepare():
            shutil.rmtree(sdir, ignore_errors=True) if use_ns else [shutil.rmtree(os.path.join(sdir, x), ignore_errors=True) for x in ("src", "occa")]
            os.makedirs(os.path.join(sdir, "src"), exist_ok=True)
            if parent_dir:
                shutil.copytree(os.path.join(parent_dir, "occa"), os.path.join(sdir, "occa"))
            for f, t in files.items():
                open(os.path.join(sdir, "src", f), "w").write(TEXTS[t])
            open(os.path.join(sdir, "src", "k.okl"), "w").write(KERNEL)
            fsx.write_spec(os.path.join(sdir, "spec.json"), "Serial", [{"file": os.path.join(WORK, "src", "k.okl"), "kernel": "k", "nout": 3}])
        prepare()
        pr = run_in_work(sdir, 60)
        if pr.timed_out:
            # re-run the deterministic step alone with a longer limit before calling it a hang
            prepare()
            with RETRY_LOCK:
                pr = run_in_work(sdir, 400)
        key = cache_key(os.path.join(sdir, "occa"))
        if out_dir:
            shutil.rmtree(out_dir, ignore_errors=True)
            os.makedirs(out_dir)
            if os.path.isdir(os.path.join(sdir, "occa")):
                shutil.copytree(os.path.join(sdir, "occa"), os.path.join(out_dir, "occa"))
        if use_ns:
            shutil.rmtree(sdir, ignore_errors=True)
        return pr, key

    def judge(pr, files):
        exp = ref(files)
        got = pr.results.get(0)
        if pr.timed_out:
            return ("build-hangs", "build+run did not finish in 60 s nor, re-run alone, in 400 s")
        if pr.rc < 0 or pr.rc >= 128:
            return ("build-crashes:signal", "process died: %s" % pr.summary())
        if pr.rc != 0:
            return ("build-fails", pr.summary())
        if got != exp:
            return ("stale-or-wrong-output", "printed %s, current files mean %s" % (got, exp))
        return None

    def apply_hist(hist):
        files = dict(INIT)
        for oi in hist:
            f, t = OPS[oi]
            files[f] = t
        return files

    def hist_str(hist):
        return "build(a=A1,b=B1,c=C1); " + "; ".join("%s:=%s, build" % OPS[oi] for oi in hist)

    if c.args.replay:
        r = load_replay(c.args.replay)["replay"]
        hist = r["history"]
        parent = None
        bad = False
        for n in range(0, len(hist) + 1):
            files = apply_hist(hist[:n])
            out = os.path.join(c.scratch, "replay-%d" % n)
            pr, key = run_step(0, parent, files, out)
            v = judge(pr, files)
            print("step %d %s files=%s -> %s (expected %s) %s" % (n, ("%s:=%s" % OPS[hist[n - 1]]) if n else "(initial build)", files, pr.results.get(0), ref(files), v or "ok"))
            parent = out
            bad = bad or bool(v)
        print("replay:", "VIOLATION" if bad else "ok")
        sys.exit(1 if bad else 0)

    depth_target = 3 if c.tier == "quick" else 4
    deadline = c.t0 + c.budget(150, 1500)
    # root
    root_dir = os.path.join(c.scratch, "n-root")
    pr, key = run_step(0, None, dict(INIT), root_dir)
    v = judge(pr, INIT)
    if v:
        c.violation(v[0] + ":initial", v[1], {"history": []})
        c.set_model_checking(1, 1, 1, ["initial build"], exhaustive=False)
        c.finish()
    seen = {(json.dumps(INIT, sort_keys=True), key)}
    frontier = [((), root_dir)]
    states, transitions = 1, 0
    per_depth = []
    depth_completed = 0
    outcomes = {}
    samples = []
    nid = [0]
    budget_hit = False
    for depth in range(1, depth_target + 1):
        jobs = []
        for hist, ndir in frontier:
            files = apply_hist(hist)
            for oi, (f, t) in enumerate(OPS):
                if files[f] == t:
                    continue          # not an edit
                jobs.append((hist + (oi,), ndir))
        keep_children = depth < depth_target

        new_frontier = []
        layer_new = 0
        layer_trans = 0
        layer_viol = 0
        complete = True
        # slots must be unique among *concurrently running* jobs: use a pool of NCPU slots
        import queue
        slots = queue.Queue()
        for s in range(nworkers):
            slots.put(s + 1)

        def work2(j):
            s = slots.get()
            try:
                if time.time() > deadline:
                    return None
                hist, pdir = jobs[j]
                files = apply_hist(hist)
                out = os.path.join(c.scratch, "n-%d-%d" % (depth, j)) if keep_children else None
                pr, key = run_step(s, pdir, files, out)
                return pr, key, out, files
            finally:
                slots.put(s)

        with ThreadPoolExecutor(max_workers=nworkers) as ex:
            for j, res in enumerate(ex.map(work2, range(len(jobs)))):
                if res is None:
                    complete = False
                    continue
                pr, key, out, files = res
                hist = jobs[j][0]
                layer_trans += 1
                v = judge(pr, files)
                cls = v[0] if v else "ok:%s" % (pr.results.get(0),)
                outcomes[cls] = outcomes.get(cls, 0) + 1
                if v:
                    layer_viol += 1
                    last = OPS[hist[-1]]
                    c.violation(v[0], "%s | history: %s" % (v[1], hist_str(hist)), {"history": list(hist)})
                    if out:
                        shutil.rmtree(out, ignore_errors=True)
                    continue
                skey = (json.dumps(files, sort_keys=True), key)
                if skey in seen:
                    if out:
                        shutil.rmtree(out, ignore_errors=True)
                    continue
                seen.add(skey)
                layer_new += 1
                if out:
                    new_frontier.append((hist, out))
                if len(samples) < 5 and j % max(1, len(jobs) // 5) == 0:
                    samples.append({"history": hist_str(hist), "printed": pr.results.get(0), "expected": ref(files)})
        if not complete:
            budget_hit = True
            break
        for _, d in frontier:
            if d != root_dir or depth >= 1:
                shutil.rmtree(d, ignore_errors=True)
        states += layer_new
        transitions += layer_trans
        per_depth.append({"depth": depth, "builds": layer_trans, "new_states": layer_new, "violating": layer_viol})
        depth_completed = depth
        frontier = new_frontier
    c.vacuity(depth_completed >= 2 or budget_hit, "BFS did not complete depth 2")
    c.vacuity(len([k for k in outcomes if k.startswith("ok:")]) >= 6 or budget_hit, "fewer than 6 distinct printed value triples: edits are not observable")
    c.set_model_checking(
        states=states, transitions=max(1, transitions), traces_validated=transitions, samples=samples or ["initial build only"],
        exhaustive=(depth_completed >= depth_target), depth_completed=depth_completed, depth_target=depth_target,
        per_depth=per_depth, distinct_outcomes=len(outcomes), budget_hit=budget_hit,
        alphabet="set(file,text): a.h in {A1,A2,B1,include c.h}, b.h in {B1,B2,A1,include c.h}, c.h in {C1,C2}; a build+run in a fresh OS process after every edit; one shared cache directory per history",
        oracle="printed (VA,VB,VC) == values computed by gcc -E on the current files; crash, hang or failure of the build process is a violation",
        explanation="state = (current file contents, canonical cache state: hash directories, their files and the dependency table of each build.json); every transition is a real build in a fresh process")
    c.assumptions += ["Serial mode; edits change contents, the include graph (a.h/b.h may include c.h) and may revert to earlier contents or make two files identical",
                      "every build runs at one fixed absolute path (per-worker mount namespace with a bind mount; sequential fallback without namespaces), so recorded dependency paths and any path-dependent key are identical across workers"]
    c.coverage["mount_namespaces"] = use_ns
    c.finish()


run_main(main)
