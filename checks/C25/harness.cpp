// C25: JSON path access and merging follow nested-dictionary semantics.  System for E1 histbfs.
//
// Implementation under test: one occa::json value (initially undefined, as `occa::json props;`).
// Reference model: nested std::map (Model below), written from the property sentence:
//   - writes create missing intermediate objects
//   - reads of missing paths return an undefined value without creating anything
//   - += merges objects recursively with the right-hand side winning
// After every operation the whole implementation state is compared with the model (typed canonical
// form, so phantom entries are visible) and every query path is read through every read API.
#include <map>
#include <occa/types/json.hpp>
#include <occa/utils/exception.hpp>
#include "histbfs.hpp"

//---[ reference model ]------------------------------------------------------------------------------
struct Model {
  enum Kind { NONE, NUM, STR, OBJ };
  Kind kind;
  int num;
  std::string str;
  std::map<std::string, Model> obj;
  Model() : kind(NONE), num(0) {}
  static Model number(int v) { Model m; m.kind = NUM; m.num = v; return m; }
  static Model string(const std::string &s) { Model m; m.kind = STR; m.str = s; return m; }
  static Model object() { Model m; m.kind = OBJ; return m; }

  std::string canon() const {
    switch (kind) {
    case NONE: return "N";
    case NUM: return "i" + std::to_string(num);
    case STR: return "s'" + str + "'";
    case OBJ: {
      std::string s = "{";
      for (auto &kv : obj) s += kv.first + ":" + kv.second.canon() + ",";
      return s + "}";
    }}
    return "?";
  }
};

static std::vector<std::string> splitPath(const std::string &p) {
  std::vector<std::string> out;
  size_t i = 0;
  while (i < p.size()) {
    size_t j = p.find('/', i);
    if (j == std::string::npos) j = p.size();
    out.push_back(p.substr(i, j - i));
    i = j + 1;
  }
  return out;
}

// read: NULL when the path does not resolve (missing key, or a non-object on the way)
static const Model* modelGet(const Model &root, const std::string &path) {
  const Model *m = &root;
  for (const std::string &k : splitPath(path)) {
    if (m->kind != Model::OBJ) return NULL;
    auto it = m->obj.find(k);
    if (it == m->obj.end()) return NULL;
    m = &it->second;
  }
  return m;
}

// write: creates missing intermediate objects; returns false (nothing changed) when an existing
// non-object value is in the way
static bool modelSet(Model &root, const std::string &path, const Model &value, bool *created = NULL) {
  // first pass: is a non-object in the way?
  {
    const Model *m = &root;
    if (m->kind != Model::OBJ && m->kind != Model::NONE) return false;
    for (const std::string &k : splitPath(path)) {
      if (m->kind == Model::NONE) break;
      if (m->kind != Model::OBJ) return false;
      auto it = m->obj.find(k);
      if (it == m->obj.end()) break;
      m = &it->second;
    }
  }
  Model *m = &root;
  std::vector<std::string> keys = splitPath(path);
  for (size_t i = 0; i < keys.size(); ++i) {
    if (m->kind == Model::NONE) { m->kind = Model::OBJ; if (created) *created = true; }
    if (!m->obj.count(keys[i]) && created && i + 1 < keys.size()) *created = true;
    m = &m->obj[keys[i]];
  }
  *m = value;
  return true;
}

static void modelRemove(Model &root, const std::string &path) {
  std::vector<std::string> keys = splitPath(path);
  Model *m = &root;
  for (size_t i = 0; i < keys.size(); ++i) {
    if (m->kind != Model::OBJ) return;
    if (i + 1 == keys.size()) { m->obj.erase(keys[i]); return; }
    auto it = m->obj.find(keys[i]);
    if (it == m->obj.end()) return;
    m = &it->second;
  }
}

// recursive merge, right-hand side wins; `situation` collects what kinds of conflict occurred
static void modelMerge(Model &dst, const Model &src, std::string &situation) {
  if (dst.kind == Model::NONE) dst.kind = Model::OBJ;
  for (auto &kv : src.obj) {
    auto it = dst.obj.find(kv.first);
    if (it == dst.obj.end()) { dst.obj[kv.first] = kv.second; if (situation.find("new-key") == std::string::npos) situation += "+new-key"; continue; }
    if (kv.first.find('/') != std::string::npos && situation.find("slash-in-key") == std::string::npos) situation += "+slash-in-key";
    if (kv.second.kind == Model::OBJ && it->second.kind == Model::OBJ) {
      if (situation.find("object-into-object") == std::string::npos) situation += "+object-into-object";
      modelMerge(it->second, kv.second, situation);
    } else {
      const char *s = (kv.second.kind == Model::OBJ) ? "+object-over-scalar" : (it->second.kind == Model::OBJ ? "+scalar-over-object" : "+scalar-over-scalar");
      if (situation.find(s) == std::string::npos) situation += s;
      it->second = kv.second;
    }
  }
}

//---[ implementation side helpers ]------------------------------------------------------------------
static std::string canonImpl(const occa::json &j) {
  switch (j.type) {
  case occa::json::none_: return "N";
  case occa::json::null_: return "z";
  case occa::json::number_: return std::string(j.isBool() ? "b" : "i") + std::to_string((int) j.value_.number);
  case occa::json::string_: return "s'" + j.value_.string + "'";
  case occa::json::array_: {
    std::string s = "A[";
    for (auto &e : j.value_.array) s += canonImpl(e) + ",";
    return s + "]";
  }
  case occa::json::object_: {
    std::string s = "{";
    for (auto &kv : j.value_.object) s += kv.first + ":" + canonImpl(kv.second) + ",";
    return s + "}";
  }}
  return "?type" + std::to_string((int) j.type);
}

static occa::json toJson(const Model &m) {
  switch (m.kind) {
  case Model::NONE: return occa::json();
  case Model::NUM: return occa::json((int32_t) m.num);
  case Model::STR: return occa::json(m.str);
  case Model::OBJ: {
    occa::jsonObject o;
    for (auto &kv : m.obj) o[kv.first] = toJson(kv.second);
    return occa::json(o);
  }}
  return occa::json();
}

//---[ alphabets ]------------------------------------------------------------------------------------
static const char *PATHS[] = {"a", "b", "a/a", "a/b", "b/a", "b/b",
                              "a/a/a", "a/a/b", "a/b/a", "a/b/b", "b/a/a", "b/a/b", "b/b/a", "b/b/b"};
static const int NPATHS = 14;
static const char *QUERIES[] = {"a", "b", "a/a", "a/b", "b/a", "b/b",
                                "a/a/a", "a/a/b", "a/b/a", "a/b/b", "b/a/a", "b/a/b", "b/b/a", "b/b/b",
                                "", "c", "a/c", "a/a/a/a", "a/b/c/a"};
static const int NQUERIES = 19;
static const int NVALUES = 4;          // 1, 2, "s", {}
static const char *KEYS[] = {"a", "b", "a/b"};        // set() takes the key literally: "a/b" is ONE key
static const int NKEYS = 3;

static Model valueModel(int v) {
  switch (v) {
  case 0: return Model::number(1);
  case 1: return Model::number(2);
  case 2: return Model::string("s");
  default: return Model::object();
  }
}
static const char *VALUE_NAMES[] = {"1", "2", "\"s\"", "{}"};

static Model mk(std::initializer_list<std::pair<const char*, Model> > kv) {
  Model m = Model::object();
  for (auto &p : kv) m.obj[p.first] = p.second;
  return m;
}
static std::vector<Model> &mergeObjects() {
  static std::vector<Model> v;
  if (v.empty()) {
    const Model one = Model::number(1), two = Model::number(2), s = Model::string("s");
    v.push_back(mk({}));
    v.push_back(mk({{"a", one}}));
    v.push_back(mk({{"a", two}, {"b", two}}));
    v.push_back(mk({{"b", s}}));
    v.push_back(mk({{"a", mk({})}}));
    v.push_back(mk({{"a", mk({{"a", one}})}}));
    v.push_back(mk({{"a", mk({{"b", two}})}}));
    v.push_back(mk({{"b", mk({{"a", one}})}}));
    v.push_back(mk({{"a", mk({{"a", two}, {"b", one}})}}));
    v.push_back(mk({{"a", mk({{"a", one}})}, {"b", mk({{"b", one}})}}));
    v.push_back(mk({{"a", s}}));
    v.push_back(mk({{"b", mk({})}}));
    v.push_back(mk({{"a/b", mk({{"a", one}})}}));        // literal key containing the path separator
    v.push_back(mk({{"a/b", mk({{"b", two}})}}));
  }
  return v;
}

enum { SET = 1, REMOVE, MERGE, NCREAD, SETKEY };

struct JsonSys {
  hb::Ctx &ctx;
  occa::json j;
  Model model;

  JsonSys(hb::Ctx &c) : ctx(c) {}

  static std::string kindName(const hb::Op &o) {
    static const char *n[] = {"?", "set", "remove", "merge", "nonconst-read", "set-key"};
    return n[o.k];
  }
  static std::string name(const hb::Op &o) {
    switch (o.k) {
    case SET: return std::string("j[\"") + PATHS[o.a] + "\"] = " + VALUE_NAMES[o.b];
    case REMOVE: return std::string("j.remove(\"") + PATHS[o.a] + "\")";
    case MERGE: return "j += " + toJson(mergeObjects()[o.a]).dump(0);
    case NCREAD: return std::string("(void) j[\"") + PATHS[o.a] + "\"]";
    case SETKEY: return std::string("j.set(\"") + KEYS[o.a] + "\", " + VALUE_NAMES[o.b] + ")";
    }
    return "?";
  }

  std::vector<hb::Op> enabled() {
    std::vector<hb::Op> v;
    for (int p = 0; p < NPATHS; ++p) for (int x = 0; x < NVALUES; ++x) v.push_back(hb::Op(SET, p, x));
    for (int p = 0; p < NPATHS; ++p) v.push_back(hb::Op(REMOVE, p));
    for (int m = 0; m < (int) mergeObjects().size(); ++m) v.push_back(hb::Op(MERGE, m));
    for (int p = 0; p < NPATHS; ++p) v.push_back(hb::Op(NCREAD, p));
    for (int k = 0; k < NKEYS; ++k) for (int x = 0; x < NVALUES; ++x) v.push_back(hb::Op(SETKEY, k, x));
    return v;
  }

  void compareState(const std::string &sig, const std::string &what) {
    const std::string ci = canonImpl(j), cm = model.canon();
    if (ci != cm) ctx.fail(sig, what + ": implementation " + ci + " model " + cm);
  }

  void apply(const hb::Op &o) {
    switch (o.k) {
    case SET: {
      Model next = model;
      bool created = false;
      const bool ok = modelSet(next, PATHS[o.a], valueModel(o.b), &created);
      const std::string before = canonImpl(j);
      bool threw = false;
      try {
        j[PATHS[o.a]] = toJson(valueModel(o.b));
      } catch (occa::exception &e) {
        threw = true;
      }
      if (!ok) {
        // a non-object value is in the way: a nested dictionary cannot be written through it.
        // The write must not happen silently and must leave everything as it was.
        if (!threw) ctx.fail("set:through-non-object:no-error", name(o) + " did not raise although a non-object is on the path");
        else if (canonImpl(j) != before) ctx.fail("set:through-non-object:state-changed", name(o) + " raised but changed " + before + " into " + canonImpl(j));
      } else {
        if (threw) { ctx.fail(std::string("set:raised:") + (created ? "creates-intermediate" : "existing-parents"), name(o) + " raised an exception on " + before); return; }
        model = next;
        compareState(std::string("set:state:") + (created ? "creates-intermediate" : "existing-parents"), name(o) + " on " + before);
      }
      break;
    }
    case REMOVE: {
      const bool existed = modelGet(model, PATHS[o.a]) != NULL;
      const std::string before = canonImpl(j);
      modelRemove(model, PATHS[o.a]);
      j.remove(PATHS[o.a]);
      compareState(std::string("remove:state:") + (existed ? "existing-path" : "missing-path"), name(o) + " on " + before);
      break;
    }
    case MERGE: {
      const Model &rhs = mergeObjects()[o.a];
      const occa::json rhsJson = toJson(rhs);
      const std::string before = canonImpl(j);
      std::string situation;
      const occa::json sum = j + rhsJson;                  // operator+ must not modify j
      if (ctx.judging && canonImpl(j) != before) ctx.fail("merge:plus-modifies-lhs", name(o) + ": j + obj changed j from " + before + " to " + canonImpl(j));
      modelMerge(model, rhs, situation);
      j += rhsJson;
      // one feature per merge: the most specific conflict kind that occurred
      {
        static const char *prio[] = {"slash-in-key", "object-into-object", "object-over-scalar", "scalar-over-object", "scalar-over-scalar", "new-key"};
        std::string pick = "empty";
        for (const char *f : prio) if (situation.find(f) != std::string::npos) { pick = f; break; }
        situation = "+" + pick;
      }
      compareState("merge:state:" + situation.substr(1), name(o) + " on " + before);
      if (ctx.judging && canonImpl(sum) != canonImpl(j)) ctx.fail("merge:plus-vs-pluseq:" + situation.substr(1), name(o) + ": (j + obj) = " + canonImpl(sum) + " but j += obj gives " + canonImpl(j));
      if (ctx.judging && canonImpl(rhsJson) != rhs.canon()) ctx.fail("merge:modifies-rhs", name(o) + " changed its right-hand side");
      break;
    }
    case NCREAD: {
      const Model *m = modelGet(model, PATHS[o.a]);
      const std::string before = canonImpl(j);
      bool threw = false;
      std::string got;
      try {
        occa::json &r = j[PATHS[o.a]];
        got = canonImpl(r);
      } catch (occa::exception &e) {
        threw = true;
      }
      // is a non-object in the way? (then a nested dictionary has nothing to return; an error is acceptable)
      Model probe = model;
      const bool reachable = modelSet(probe, PATHS[o.a], Model::number(0));
      if (threw) {
        if (reachable) ctx.fail(std::string("nonconst-read:raised:") + (m ? "existing-path" : "missing-path"), name(o) + " raised on " + before);
        else if (canonImpl(j) != before) ctx.fail("nonconst-read:through-non-object:state-changed", name(o) + " raised but changed the value");
        break;
      }
      if (ctx.judging) {
        const std::string expect = m ? m->canon() : "N";
        if (got != expect) ctx.fail(std::string("nonconst-read:value:") + (m ? "existing-path" : "missing-path"), name(o) + " returned " + got + " model " + expect);
      }
      // reads of missing paths return an undefined value WITHOUT CREATING ANYTHING
      compareState(std::string("read-creates:nonconst-bracket:") + (m ? "existing-path" : "missing-path"), name(o) + " on " + before);
      break;
    }
    case SETKEY: {
      const std::string before = canonImpl(j);
      if (model.kind == Model::NONE) model.kind = Model::OBJ;
      model.obj[KEYS[o.a]] = valueModel(o.b);
      j.set(KEYS[o.a], toJson(valueModel(o.b)));
      compareState("set-key:state", name(o) + " on " + before);
      break;
    }}
    if (ctx.judging && ctx.fails.empty()) reads();
  }

  // every read API on every query path, in the current state
  void reads() {
    const std::string before = canonImpl(j);
    const occa::json &cj = j;
    for (int q = 0; q < NQUERIES; ++q) {
      const std::string path = QUERIES[q];
      const Model *m = modelGet(model, path);
      // the root itself, when still undefined, is an undefined value
      const bool defined = m && m->kind != Model::NONE;
      const std::string sit = m ? "existing-path" : "missing-path";
      const std::string where = "\"" + path + "\" in " + before;

      const occa::json &r = cj[path.c_str()];
      if (r.isInitialized() != defined) ctx.fail("const-read:defined:" + sit, "const j[" + where + "].isInitialized()=" + std::to_string(r.isInitialized()) + " model " + std::to_string(defined));
      else if (defined && canonImpl(r) != m->canon()) ctx.fail("const-read:value:" + sit, "const j[" + where + "] = " + canonImpl(r) + " model " + m->canon());
      const occa::json &r2 = cj[path];                      // std::string overload
      if (canonImpl(r2) != canonImpl(r)) ctx.fail("const-read:string-overload:" + sit, "const j[std::string " + where + "] differs from the const char* overload");

      const occa::json pv = cj.getPathValue(path.c_str());
      if (pv.isInitialized() != defined || (defined && canonImpl(pv) != m->canon()))
        ctx.fail("getPathValue:" + sit, "getPathValue(" + where + ") = " + canonImpl(pv) + " model " + (m ? m->canon() : "N"));

      const int gi = cj.get<int>(path.c_str(), -7);
      const int expectInt = defined ? (m->kind == Model::NUM ? m->num : 0) : -7;
      if (gi != expectInt) ctx.fail("get-int:" + sit, "get<int>(" + where + ", -7) = " + std::to_string(gi) + " model " + std::to_string(expectInt));
      const std::string gs = cj.get<std::string>(path, "dflt");
      if (!defined && gs != "dflt") ctx.fail("get-string:" + sit, "get<std::string>(" + where + ", dflt) = " + gs);
      if (defined && m->kind == Model::STR && gs != m->str) ctx.fail("get-string:" + sit, "get<std::string>(" + where + ") = " + gs + " model " + m->str);

      // has(): the path resolves through objects (an undefined root has nothing)
      const bool expectHas = (m != NULL) && (path.empty() || model.kind == Model::OBJ);
      if (cj.has(path) != expectHas) ctx.fail("has:" + sit, "has(" + where + ") = " + std::to_string(cj.has(path)) + " model " + std::to_string(expectHas));

      // size() of the value found there
      if (defined) {
        const int expectSize = (m->kind == Model::OBJ) ? (int) m->obj.size() : (m->kind == Model::STR ? (int) m->str.size() : 0);
        if (r.size() != expectSize) ctx.fail("size:" + sit, "const j[" + where + "].size() = " + std::to_string(r.size()) + " model " + std::to_string(expectSize));
        if (m->kind == Model::OBJ) {
          occa::strVector keys = r.keys();
          std::string ks, ms;
          for (auto &k : keys) ks += k + ",";
          for (auto &kv : m->obj) ms += kv.first + ",";
          if (ks != ms) ctx.fail("keys:" + sit, "keys of " + where + " = " + ks + " model " + ms);
          if ((int) r.values().size() != expectSize) ctx.fail("values:" + sit, "values() size differs");
        }
      }
      if (!ctx.fails.empty()) return;
    }
    if (cj.size() != (model.kind == Model::OBJ ? (int) model.obj.size() : 0))
      ctx.fail("size:root", "size() = " + std::to_string(cj.size()) + " model " + std::to_string(model.obj.size()));
    // the dumped text is the dump of the model's value (an undefined value dumps as nothing)
    if (model.kind == Model::OBJ && cj.dump(0) != toJson(model).dump(0))
      ctx.fail("dump:state", "dump() = " + cj.dump(0) + " model " + toJson(model).dump(0));
    // reads create nothing
    if (canonImpl(j) != before) ctx.fail("read-creates:const-apis", "const reads changed " + before + " into " + canonImpl(j));
  }

  std::string canon() { return canonImpl(j); }

  void finish() {}
};

int main(int argc, char **argv) { return hb::main<JsonSys>(argc, argv); }
