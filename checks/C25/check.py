#!/usr/bin/env python3
"""C25: JSON path access and merging follow nested-dictionary semantics (E1 histbfs)."""
import os, sys, time
sys.path.insert(0, os.path.dirname(os.path.dirname(os.path.dirname(os.path.abspath(__file__)))))
from vlib.core import Check, san_env, load_replay, sh
from vlib import histbfs

HERE = os.path.dirname(os.path.abspath(__file__))


def fast_env(scratch, extra=None):
    """san_env with a small ASan quarantine: the default 256 MB quarantine makes every allocation of a long-running
    driver touch fresh pages (measured: 3.4x wall, 5x system time); 8 MB still catches use-after-free of recent frees."""
    env = san_env(scratch, extra)
    env["ASAN_OPTIONS"] += ":quarantine_size_mb=8"
    return env

def main():
    c = Check("C25", "model_checking")
    c.build("asan")
    exe = c.compile(os.path.join(HERE, "harness.cpp"), "harness")
    env = fast_env(c.scratch)
    if c.args.replay:
        r = load_replay(c.args.replay)
        p = sh([exe, "replay", r["replay"]["history"]], env=env)
        print(p.stdout)
        sys.exit(1 if p.returncode else 0)
    depth = 3 if c.tier == "quick" else 4
    # The work of a tier is a fixed, bounded set sized by CPU time (quick: 4-7 CPU-minutes = 15-25 s on 16 idle cores).
    # The wall-clock deadline is only a safety net for a heavily loaded machine; it starts after the (possibly long) build.
    deadline = time.time() + c.budget(600, 3000)
    res = histbfs.bfs(c, exe, depth, deadline, env, c.scratch, per_item_timeout=60.0)
    timeouts_retried = 0
    final = []
    for sig, detail, hist in res.violations:
        if sig.startswith("crash:") and "timeout" in sig:
            # a worker exceeded its wall-clock limit (shared, loaded machine).  Re-run the single history alone with a
            # generous limit: only a reproducible hang is a finding.
            timeouts_retried += 1
            import subprocess
            try:
                p = subprocess.run([exe, "replay", hist], stdout=subprocess.PIPE, stderr=subprocess.STDOUT, text=True, env=env, timeout=300)
                if p.returncode == 0:
                    continue
                detail = "replay alone: exit %d :: %s" % (p.returncode, p.stdout[-400:])
                sig = "crash:replay-fails"
            except subprocess.TimeoutExpired:
                sig = "hang:" + sig.split(":")[-1]
        final.append((sig, detail, hist))
    shortest = {}
    for sig, detail, hist in final:
        if sig not in shortest or len(hist) < len(shortest[sig]):
            shortest[sig] = hist
    readable = dict((sig, histbfs.describe(exe, h, env)) for sig, h in shortest.items())
    for sig, detail, hist in final:
        c.violation(sig, "history [%s] :: %s" % (readable[sig] if hist == shortest[sig] else hist, detail), {"history": hist})
    c.coverage["worker_timeouts_retried"] = timeouts_retried
    if res.depth_completed < 2 and not res.budget_hit and not res.violations:
        c.harness_error("BFS did not complete depth 2")
    c.vacuity(res.states >= 200 or res.budget_hit, "at least 200 distinct json states were reached (%d)" % res.states)
    c.set_model_checking(
        states=res.states, transitions=res.transitions, traces_validated=res.transitions, samples=res.samples,
        exhaustive=res.depth_completed >= depth or res.exhaustive,
        depth_completed=res.depth_completed, depth_target=depth, per_depth=res.per_depth, budget_hit=res.budget_hit,
        alphabet="keys {a,b}; 14 paths of depth <= 3; j[path] = v for v in {1, 2, \"s\", {}}; j.remove(path); j += obj for 14 objects of depth <= 2 (two with the literal key \"a/b\"); non-const j[path] read; j.set(key, v) for keys a, b and the literal key \"a/b\"",
        oracle="nested std::map model: after every operation the typed canonical form of the whole value equals the model; on 19 query paths (incl. '', unknown key, too-deep paths) const operator[] (both overloads), getPathValue, get<int>, get<std::string>, has, size, keys, values agree with the model; reads change nothing; operator+ equals += and leaves both operands unchanged; a write through a non-object value raises and changes nothing",
        distinct_violation_signatures=len(res.sig_counts), violation_signature_counts=res.sig_counts,
        explanation="every transition is executed on the real occa::json (exploration runs on the implementation, so every explored trace is an implementation trace)",
    )
    if timeouts_retried:
        # the successors of a history whose worker timed out were not expanded in this run
        c.coverage["exhaustive"] = False
        c.coverage["note"] = "%d worker timeout(s) (machine load): those histories passed when re-run alone, but their successors were not expanded" % timeouts_retried
    c.assumptions += ["state key = typed canonical form of the json value (dump() cannot distinguish an undefined entry from an empty object)",
                      "keys contain no '/' or '\\\\'; arrays are not part of the alphabet",
                      "a write or non-const read through an existing non-object value is expected to raise occa::exception and leave the value unchanged (a nested dictionary cannot be indexed through a scalar)"]
    c.finish()

from vlib.core import run_main
run_main(main)
