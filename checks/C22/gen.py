"""C22 generator: valid single-feature OKL kernels as small trees, every placement of every single rule-breaking edit,
and a boring reference model of the OKL rules named in the property (a tree walk).

Tree nodes (plain dicts):
  {"k": "for", "attr": None|"outer"|"inner"|("tile", first, second), "extra": "<attribute text after the okl attr>",
   "h": header dict {"type","var","init","check","update","form"}, "body": [nodes], "pre": "<attribute text before 'for'>"}
  {"k": "raw", "text": "...", "uses": [names of @shared/@exclusive variables mentioned]}
  {"k": "decl", "attr": "shared"|"exclusive", "text": "...", "name": str, "array": bool, "const": bool}
  {"k": "if", "cond": str, "then": [nodes], "else": [nodes]|None}
  {"k": "while", "cond": str, "body": [nodes]}          (also do-while: "do": True)
  {"k": "switch", "expr": str, "body": [nodes]}         (case labels are raw nodes)
  {"k": "plainfor", "head": "int r = 0; r < 1; ++r", "body": [nodes]}
  {"k": "break"} / {"k": "continue"}
Kernel: {"name", "pre": global text, "gdecls": [decl nodes at global scope], "ret": "void", "args": str, "body": [nodes]}
"""
import copy

# ---------------------------------------------------------------------------------------------------------------------
# loop headers


def H(var, init="0", check=None, update=None, typ="int", form="valid:lt-preinc"):
    return {"type": typ, "var": var, "init": init, "check": check if check is not None else "%s < 4" % var,
            "update": update if update is not None else "++%s" % var, "form": form}


def header_text(h):
    if "rawtext" in h:
        return h["rawtext"]
    init = "%s %s = %s" % (h["type"], h["var"], h["init"])
    return "%s; %s; %s" % (init, h["check"], h["update"])


def FOR(attr, h, body, extra="", pre=""):
    return {"k": "for", "attr": attr, "extra": extra, "pre": pre, "h": h, "body": body}


def RAW(text, uses=()):
    return {"k": "raw", "text": text, "uses": list(uses)}


def DECL(attr, text, name, array=True, const=True):
    return {"k": "decl", "attr": attr, "text": text, "name": name, "array": array, "const": const}


def IF(cond, then, els=None):
    return {"k": "if", "cond": cond, "then": then, "else": els}


def WHILE(cond, body, do=False):
    return {"k": "while", "cond": cond, "body": body, "do": do}


def SWITCH(expr, body):
    return {"k": "switch", "expr": expr, "body": body}


def PLAINFOR(head, body):
    return {"k": "plainfor", "head": head, "body": body}


def KERNEL(name, body, args="const int N, int *a", pre="", ret="void", gdecls=None):
    return {"name": name, "pre": pre, "gdecls": gdecls or [], "ret": ret, "args": args, "body": body,
            "argdecls": [], "helperdecls": [], "post": None}


# ---------------------------------------------------------------------------------------------------------------------
# rendering


def attr_text(node):
    a = node["attr"]
    if a is None:
        t = ""
    elif isinstance(a, tuple):
        parts = ["16"] + ["@" + x for x in a[1:] if x]
        t = "@tile(%s)" % ", ".join(parts)
    else:
        t = "@" + a
    if node.get("extra"):
        t = (t + " " + node["extra"]).strip()
    return t


def render_nodes(nodes, ind, out):
    pad = "  " * ind
    for n in nodes:
        k = n["k"]
        if k == "for":
            at = attr_text(n)
            out.append("%s%sfor (%s%s) {" % (pad, (n["pre"] + " ") if n.get("pre") else "", header_text(n["h"]), ("; " + at) if at else ""))
            render_nodes(n["body"], ind + 1, out)
            out.append(pad + "}")
        elif k == "raw":
            out.append(pad + n["text"])
        elif k == "decl":
            out.append(pad + n["text"])
        elif k == "if":
            out.append("%sif (%s) {" % (pad, n["cond"]))
            render_nodes(n["then"], ind + 1, out)
            if n["else"] is not None:
                out.append(pad + "} else {")
                render_nodes(n["else"], ind + 1, out)
            out.append(pad + "}")
        elif k == "while":
            if n.get("do"):
                out.append(pad + "do {")
                render_nodes(n["body"], ind + 1, out)
                out.append("%s} while (%s);" % (pad, n["cond"]))
            else:
                out.append("%swhile (%s) {" % (pad, n["cond"]))
                render_nodes(n["body"], ind + 1, out)
                out.append(pad + "}")
        elif k == "switch":
            out.append("%sswitch (%s) {" % (pad, n["expr"]))
            render_nodes(n["body"], ind + 1, out)
            out.append(pad + "}")
        elif k == "plainfor":
            out.append("%sfor (%s) {" % (pad, n["head"]))
            render_nodes(n["body"], ind + 1, out)
            out.append(pad + "}")
        elif k == "break":
            out.append(pad + "break;")
        elif k == "continue":
            out.append(pad + "continue;")
        else:
            raise ValueError(k)


def render(kern):
    out = []
    if kern["pre"]:
        out.append(kern["pre"])
    for d in kern["gdecls"]:
        out.append(d["text"])
    for d in kern["helperdecls"]:
        out.append("void h9(int *p) {\n  %s\n  p[0] = 1;\n}" % d["text"])
    args = kern["args"] + "".join(", " + d["text"].rstrip(";") for d in kern["argdecls"])
    out.append("@kernel %s %s(%s) {" % (kern["ret"], kern["name"], args))
    render_nodes(kern["body"], 1, out)
    out.append("}")
    if kern["post"]:
        out.append(render(kern["post"]).rstrip("\n"))
    return "\n".join(out) + "\n"


# ---------------------------------------------------------------------------------------------------------------------
# reference model of the rules in the property text


def expand_tile(n):
    """a @tile(T, x, y) loop stands for two nested loops with the attributes x (block loop) and y (element loop)"""
    a = n["attr"]
    inner = {"k": "for", "attr": a[2], "h": n["h"], "body": n["body"], "extra": "", "pre": "", "from_tile": True}
    return {"k": "for", "attr": a[1], "h": n["h"], "body": [inner], "extra": "", "pre": "", "from_tile": True}


def children(n):
    k = n["k"]
    if k == "for":
        return [n["body"]]
    if k == "if":
        return [n["then"]] + ([n["else"]] if n["else"] is not None else [])
    if k in ("while", "switch", "plainfor"):
        return [n["body"]]
    return []


def reference(kern):
    """returns (sorted list of broken rules, sorted list of reasons why the program is outside the property's rule list)."""
    broken, unjudged = set(), set()
    if kern["ret"] != "void":
        broken.add("return-type")
    if kern["post"]:
        b2, u2 = reference(kern["post"])
        broken.update(b2)
        unjudged.update(u2)
    for d in kern["gdecls"] + kern["argdecls"] + kern["helperdecls"]:
        broken.add("%s-wrong-place" % d["attr"])
        if d["attr"] == "shared":
            if not d["array"]:
                broken.add("shared-not-array")
            elif not d["const"]:
                broken.add("shared-size-not-constant")

    okl = []      # (node, path of okl-loop attrs above it (outermost first), list of okl ancestors)
    leaves = []   # leaf okl loops with their full attr path

    def walk(nodes, anc, ctx):
        """anc: list of enclosing okl loop nodes; ctx: list of enclosing statement kinds from the kernel body downwards,
        items: ("okl", attr) | ("loop",) | ("switch",) | ("other",)"""
        for n in nodes:
            if n["k"] == "for" and isinstance(n["attr"], tuple):
                n = expand_tile(n)
            k = n["k"]
            if k == "for":
                if n["h"]["form"].startswith("invalid:") and n["attr"] in ("outer", "inner"):
                    broken.add("header:" + n["h"]["form"][8:])
                if n["h"]["form"].startswith("unjudged:") and n["attr"] in ("outer", "inner"):
                    unjudged.add("header:" + n["h"]["form"][9:])
                if n["attr"] in ("outer", "inner"):
                    attrs = [a["attr"] for a in anc]
                    if n["attr"] == "inner" and "outer" not in attrs:
                        broken.add("inner-outside-outer")
                    if n["attr"] == "outer" and "inner" in attrs:
                        broken.add("outer-inside-inner")
                    okl.append((n, anc))
                    n["_leaf"] = True
                    for a in anc:
                        a["_leaf"] = False
                    walk(n["body"], anc + [n], ctx + [("okl", n["attr"])])
                else:
                    walk(n["body"], anc, ctx + [("loop",)])
            elif k == "plainfor":
                walk(n["body"], anc, ctx + [("loop",)])
            elif k == "while":
                walk(n["body"], anc, ctx + [("loop",)])
            elif k == "switch":
                walk(n["body"], anc, ctx + [("switch",)])
            elif k == "if":
                walk(n["then"], anc, ctx + [("other",)])
                if n["else"] is not None:
                    walk(n["else"], anc, ctx + [("other",)])
            elif k in ("break", "continue"):
                ti = None
                for ci in range(len(ctx) - 1, -1, -1):
                    c = ctx[ci]
                    if c[0] in ("okl", "loop") or (c[0] == "switch" and k == "break"):
                        ti = ci
                        break
                if ti is None:
                    unjudged.add(k + "-outside-any-loop")
                elif ctx[ti][0] == "okl":
                    via_switch = any(c[0] == "switch" for c in ctx[ti + 1:])
                    broken.add("%s-in-%s-loop%s" % (k, ctx[ti][1], "-via-switch" if via_switch else ""))
            elif k == "decl":
                attrs = [a["attr"] for a in anc]
                if "inner" in attrs or "outer" not in attrs:
                    broken.add("%s-wrong-place" % n["attr"])
                if n["attr"] == "shared":
                    if not n["array"]:
                        broken.add("shared-not-array")
                    elif not n["const"]:
                        broken.add("shared-size-not-constant")
            elif k == "raw":
                if n.get("uses"):
                    attrs = [a["attr"] for a in anc]
                    if "inner" not in attrs:
                        unjudged.add("use-of-shared-or-exclusive-outside-inner")

    walk(kern["body"], [], [])

    outers = [n for (n, anc) in okl if n["attr"] == "outer"]
    inners = [n for (n, anc) in okl if n["attr"] == "inner"]
    if not outers:
        broken.add("no-outer")
    if not inners:
        broken.add("no-inner")
    # per outermost okl loop: all leaf paths must have the same numbers of @outer and @inner levels
    groups = {}
    for (n, anc) in okl:
        if not n.get("_leaf"):
            continue
        path = anc + [n]
        no = sum(1 for p in path if p["attr"] == "outer")
        ni = sum(1 for p in path if p["attr"] == "inner")
        groups.setdefault(id(path[0]), []).append((no, ni))
        if path[0]["attr"] == "outer" and ni == 0:
            broken.add("no-inner")           # an @outer nest (one launch) without any @inner loop
    for counts in groups.values():
        if len(set(counts)) > 1:
            broken.add("nesting-mismatch")
    for (n, anc) in okl:
        n.pop("_leaf", None)
    return sorted(broken), sorted(unjudged)


# ---------------------------------------------------------------------------------------------------------------------
# the 17 single-feature valid kernels (DESIGN.md C20 feature list)


def inner_store(var="i", extra=""):
    return FOR("inner", H(var), [RAW("a[%s] = %s;" % (var, var))], extra=extra)


def base_kernels(thorough=False):
    K = []
    K.append(("base", KERNEL("base", [FOR("outer", H("o", check="o < N"), [inner_store()])])))
    K.append(("nested-outer", KERNEL("nested_outer", [
        FOR("outer", H("o2", check="o2 < N"), [FOR("outer", H("o", check="o < 2"), [inner_store()])])])))
    K.append(("nested-inner", KERNEL("nested_inner", [
        FOR("outer", H("o", check="o < N"), [FOR("inner", H("j", check="j < 2"), [inner_store()])])])))
    K.append(("sibling-inner", KERNEL("sibling_inner", [
        FOR("outer", H("o", check="o < N"), [inner_store(), FOR("inner", H("i2"), [RAW("a[i2] += 1;")])])])))
    K.append(("sibling-outer", KERNEL("sibling_outer", [
        FOR("outer", H("o", check="o < N"), [inner_store()]),
        FOR("outer", H("p", check="p < N"), [FOR("inner", H("i2"), [RAW("a[i2] += p;")])])])))
    K.append(("scalar-arg", KERNEL("scalar_arg", [
        FOR("outer", H("o", check="o < N"), [FOR("inner", H("i"), [RAW("a[i] = x * i;")])])],
        args="const int N, int *a, const float x")))
    K.append(("restrict", KERNEL("restrict_", [
        FOR("outer", H("o", check="o < N"), [FOR("inner", H("i"), [RAW("a[i] = b[i];")])])],
        args="const int N, @restrict int *a, @restrict const int *b")))
    K.append(("helper", KERNEL("helper", [
        FOR("outer", H("o", check="o < N"), [FOR("inner", H("i"), [RAW("a[i] = twice(i);")])])],
        pre="int twice(const int v) {\n  return 2 * v;\n}")))
    K.append(("local-control", KERNEL("local_control", [
        FOR("outer", H("o", check="o < N"), [FOR("inner", H("i"), [
            RAW("int t = i;"),
            IF("t > 1", [RAW("t = t - 1;")], [RAW("t = t + 1;")]),
            WHILE("t < 3", [RAW("++t;")]),
            RAW("a[i] = t;")])])])))
    K.append(("exclusive", KERNEL("exclusive", [
        FOR("outer", H("o", check="o < N"), [
            DECL("exclusive", "@exclusive int e;", "e", array=False),
            FOR("inner", H("i"), [RAW("e = i;", uses=["e"])]),
            FOR("inner", H("i2"), [RAW("a[i2] = e;", uses=["e"])])])])))
    K.append(("shared-barrier", KERNEL("shared_barrier", [
        FOR("outer", H("o", check="o < N"), [
            DECL("shared", "@shared int s[4];", "s"),
            FOR("inner", H("i"), [RAW("s[i] = i;", uses=["s"])]),
            RAW("@barrier();"),
            FOR("inner", H("i2"), [RAW("a[i2] = s[3 - i2];", uses=["s"])])])])))
    K.append(("atomic", KERNEL("atomic", [
        FOR("outer", H("o", check="o < N"), [FOR("inner", H("i"), [RAW("@atomic a[0] += i;")])])])))
    K.append(("max-inner-dims", KERNEL("max_inner_dims", [
        FOR("outer", H("o", check="o < N"), [inner_store()], pre="@max_inner_dims(4)")])))
    K.append(("nobarrier", KERNEL("nobarrier", [
        FOR("outer", H("o", check="o < N"), [
            DECL("shared", "@shared int s[4];", "s"),
            FOR("inner", H("i"), [RAW("s[i] = i;", uses=["s"])], extra="@nobarrier"),
            FOR("inner", H("i2"), [RAW("a[i2] = s[i2];", uses=["s"])])])])))
    K.append(("simd-length", KERNEL("simd_length", [
        FOR("outer", H("o", check="o < N"), [inner_store()], extra="@simd_length(4)")])))
    K.append(("tile", KERNEL("tile", [
        FOR(("tile", "outer", "inner"), H("i", check="i < N"), [RAW("a[i] = i;")])])))
    K.append(("dim", KERNEL("dim", [
        FOR("outer", H("o", check="o < N"), [FOR("inner", H("i"), [RAW("m(i, 1) = i;")])])],
        args="const int N, int *a, int *m @dim(4, 2)")))
    # two structural kernels beyond the C20 feature list: OKL loops in both branches of an if, and under a plain loop
    K.append(("branch-inner", KERNEL("branch_inner", [
        FOR("outer", H("o", check="o < N"), [
            IF("N > 2", [inner_store()], [FOR("inner", H("i2"), [RAW("a[i2] = 0;")])])])])))
    K.append(("plain-loop-around-inner", KERNEL("plain_loop_around_inner", [
        FOR("outer", H("o", check="o < N"), [
            PLAINFOR("int r = 0; r < 2; ++r", [inner_store()])])])))
    if thorough:
        K.append(("nested-outer-inner", KERNEL("nested_outer_inner", [
            FOR("outer", H("o2", check="o2 < N"), [FOR("outer", H("o", check="o < 2"), [
                FOR("inner", H("j", check="j < 2"), [inner_store()])])])])))
        K.append(("sibling-outer-shared", KERNEL("sibling_outer_shared", [
            FOR("outer", H("o", check="o < N"), [
                DECL("shared", "@shared int s[4];", "s"),
                FOR("inner", H("i"), [RAW("s[i] = i;", uses=["s"])]),
                FOR("inner", H("i2"), [RAW("a[i2] = s[i2];", uses=["s"])])]),
            FOR("outer", H("p", check="p < N"), [FOR("inner", H("i3"), [RAW("a[i3] += p;")])])])))
        K.append(("exclusive-nested-inner", KERNEL("exclusive_nested_inner", [
            FOR("outer", H("o", check="o < N"), [
                DECL("exclusive", "@exclusive int e;", "e", array=False),
                FOR("inner", H("j", check="j < 2"), [FOR("inner", H("i"), [RAW("e = i + j;", uses=["e"])])]),
                FOR("inner", H("j2", check="j2 < 2"), [FOR("inner", H("i2"), [RAW("a[i2] = e;", uses=["e"])])])])])))
        K.append(("branch-nested-inner", KERNEL("branch_nested_inner", [
            FOR("outer", H("o", check="o < N"), [
                IF("N > 2",
                   [FOR("inner", H("j", check="j < 2"), [inner_store()])],
                   [FOR("inner", H("j2", check="j2 < 2"), [FOR("inner", H("i2"), [RAW("a[i2] = 0;")])])])])])))
        K.append(("tile-and-plain-outer", KERNEL("tile_and_plain_outer", [
            FOR(("tile", "outer", "inner"), H("i", check="i < N"), [RAW("a[i] = i;")]),
            FOR("outer", H("p", check="p < N"), [FOR("inner", H("i3"), [RAW("a[i3] += p;")])])])))
        K.append(("while-around-inner", KERNEL("while_around_inner", [
            FOR("outer", H("o", check="o < N"), [
                RAW("int t = 0;"),
                WHILE("t < 2", [inner_store(), RAW("++t;")])])])))
    return K


# ---------------------------------------------------------------------------------------------------------------------
# header forms.  The rule text is the one the translator itself publishes in its error messages:
#   init   : one declaration with initialiser of type char/short/int/long/ptrdiff_t/size_t
#   check  : the iterator compared with a bound by one of < <= >= >
#   update : the iterator updated by one of ++ -- += -=  (towards the bound)
def header_forms(v, outermost):
    """(form name, header dict) ; v = iterator name.  'other' = an in-scope variable that is not the iterator."""
    other = "a"
    F = []

    def add(form, **kw):
        h = H(v, **kw)
        h["form"] = form
        F.append(h)

    def addraw(form, text):
        F.append({"type": "int", "var": v, "init": "0", "check": "", "update": "", "form": form, "rawtext": text})
    # valid
    add("valid:lt-preinc")
    add("valid:lt-postinc", update="%s++" % v)
    add("valid:le-addeq", check="%s <= 3" % v, update="%s += 1" % v)
    add("valid:lt-addeq2", update="%s += 2" % v)
    add("valid:bound-left-gt", check="4 > %s" % v)
    add("valid:bound-left-ge", check="3 >= %s" % v, update="%s++" % v)
    add("valid:ge-predec", init="3", check="%s >= 0" % v, update="--%s" % v)
    add("valid:gt-postdec", init="3", check="%s > -1" % v, update="%s--" % v)
    add("valid:gt-subeq", init="4", check="%s > 0" % v, update="%s -= 2" % v)
    add("valid:bound-left-lt-dec", init="3", check="-1 < %s" % v, update="--%s" % v)
    add("valid:bound-left-le-dec", init="3", check="0 <= %s" % v, update="%s -= 1" % v)
    add("valid:type-long", typ="long")
    add("valid:type-short", typ="short")
    add("valid:type-char", typ="char")
    add("valid:runtime-bound", check="%s < N" % v)
    add("valid:runtime-step", update="%s += N" % v)
    add("valid:expr-init", init="N - N")
    # invalid
    addraw("invalid:init-empty", "; %s < 4; ++%s" % (v, v))
    addraw("invalid:init-two-declarators", "int %s = 0, %s2 = 0; %s < 4; ++%s" % (v, v, v, v))
    addraw("invalid:init-no-initializer", "int %s; %s < 4; ++%s" % (v, v, v))
    add("invalid:init-type-float", typ="float")
    add("invalid:init-type-double", typ="double")
    addraw("invalid:check-empty", "int %s = 0; ; ++%s" % (v, v))
    add("invalid:check-ne", check="%s != 4" % v)
    add("invalid:check-eq", check="%s == 0" % v)
    add("invalid:check-other-variable", check="N < 4")
    add("invalid:check-logical-and", check="%s < 4 && %s < N" % (v, v))
    add("invalid:check-not-comparison", check="!%s" % v)
    addraw("invalid:update-empty", "int %s = 0; %s < 4; " % (v, v))
    add("invalid:update-muleq", update="%s *= 2" % v)
    add("invalid:update-assign", update="%s = %s + 1" % (v, v))
    add("invalid:update-other-variable", update="++%s" % other)
    add("invalid:update-away-lt-dec", check="%s < 4" % v, update="--%s" % v)
    add("invalid:update-away-gt-inc", init="3", check="%s > 0" % v, update="++%s" % v)
    add("invalid:update-away-bound-left", init="0", check="4 < %s" % v, update="++%s" % v)
    addraw("invalid:two-clauses", "int %s = 0; %s < 4" % (v, v))
    return F


# ---------------------------------------------------------------------------------------------------------------------
# edits


def blocks_of(kern):
    """every statement list of the kernel body tree as (path description, list object, enclosing okl attrs)"""
    out = []

    def rec(nodes, desc, attrs):
        out.append((desc, nodes, attrs))
        for idx, n in enumerate(nodes):
            sub = children(n)
            for bi, b in enumerate(sub):
                a2 = attrs
                if n["k"] == "for":
                    if isinstance(n["attr"], tuple):
                        a2 = attrs + [x for x in n["attr"][1:] if x]
                    elif n["attr"]:
                        a2 = attrs + [n["attr"]]
                rec(b, "%s/%d%s" % (desc, idx, "" if len(sub) == 1 else ".%d" % bi), a2)

    rec(kern["body"], "body", [])
    return out


def okl_loops(kern):
    out = []

    def rec(nodes, desc):
        for idx, n in enumerate(nodes):
            d = "%s/%d" % (desc, idx)
            if n["k"] == "for":
                out.append((d, n))
            for bi, b in enumerate(children(n)):
                rec(b, d if len(children(n)) == 1 else "%s.%d" % (d, bi))

    rec(kern["body"], "body")
    return out


def fresh_inner(tag, body=None):
    v = "q" + tag
    return FOR("inner", H(v, check="%s < 2" % v), body if body is not None else [RAW("a[%s] = 0;" % v)])


def fresh_outer_nest(tag):
    v = "w" + tag
    return FOR("outer", H(v, check="%s < 2" % v), [fresh_inner(tag)])


def insertables():
    """(name, factory) of statements inserted at every position of every block"""
    return [
        ("inner-loop", lambda: fresh_inner("1")),
        ("outer-nest", lambda: fresh_outer_nest("2")),
        ("break", lambda: {"k": "break"}),
        ("continue", lambda: {"k": "continue"}),
        ("if-break", lambda: IF("N > 2", [{"k": "break"}])),
        ("if-continue", lambda: IF("N > 2", [RAW("a[0] = 1;")], [{"k": "continue"}])),
        ("while-break", lambda: WHILE("a[0] < 0", [{"k": "break"}])),
        ("dowhile-continue", lambda: WHILE("a[0] < 0", [RAW("++a[0];"), {"k": "continue"}], do=True)),
        ("plainfor-break", lambda: PLAINFOR("int r = 0; r < 2; ++r", [IF("r", [{"k": "break"}])])),
        ("plainfor-continue", lambda: PLAINFOR("int r = 0; r < 2; ++r", [{"k": "continue"}])),
        ("switch-break", lambda: SWITCH("N", [RAW("case 0:"), RAW("a[0] = 1;"), {"k": "break"}, RAW("default:"), RAW("a[0] = 2;")])),
        ("switch-continue", lambda: SWITCH("N", [RAW("case 0:"), {"k": "continue"}, RAW("default:"), RAW("a[0] = 2;")])),
        ("shared-array", lambda: DECL("shared", "@shared int s9[4];", "s9")),
        ("shared-array-2d", lambda: DECL("shared", "@shared float s9[2][4];", "s9")),
        ("shared-array-constexpr", lambda: DECL("shared", "@shared int s9[2 * 4];", "s9")),
        ("shared-scalar", lambda: DECL("shared", "@shared int s9;", "s9", array=False)),
        ("shared-pointer", lambda: DECL("shared", "@shared int *s9;", "s9", array=False)),
        ("shared-runtime-size", lambda: DECL("shared", "@shared int s9[N];", "s9", const=False)),
        ("shared-runtime-size-2d", lambda: DECL("shared", "@shared int s9[4][N + 1];", "s9", const=False)),
        ("shared-no-size", lambda: DECL("shared", "@shared int s9[];", "s9", const=False)),
        ("exclusive-scalar", lambda: DECL("exclusive", "@exclusive int e9;", "e9", array=False)),
        ("exclusive-array", lambda: DECL("exclusive", "@exclusive float e9[2];", "e9")),
    ]


def programs(thorough=False):
    """list of dicts: name, base, edit, text, broken (list), unjudged (list)"""
    out = []
    seen = set()

    def emit(base, edit, kern):
        text = render(kern)
        if text in seen:
            return
        seen.add(text)
        broken, unjudged = reference(kern)
        out.append({"name": "%s|%s" % (base, edit), "base": base, "edit": edit, "text": text,
                    "broken": broken, "unjudged": unjudged})

    bases = base_kernels(thorough)
    for bname, k0 in bases:
        emit(bname, "none", k0)
    for bname, k0 in bases:
        # (1) return type
        for rt in ["int", "float", "void *", "const int", "bool"]:
            k = copy.deepcopy(k0)
            k["ret"] = rt
            emit(bname, "ret:" + rt, k)
        # (2) attribute of every okl loop
        for li, (d, _n) in enumerate(okl_loops(k0)):
            n0 = okl_loops(k0)[li][1]
            if isinstance(n0["attr"], tuple):
                alts = [("tile", "outer", None), ("tile", None, "inner"), ("tile", "inner", "outer"), ("tile", None, None),
                        ("tile", "outer", "outer"), ("tile", "inner", "inner")]
            else:
                alts = [a for a in (None, "outer", "inner") if a != n0["attr"]]
            for alt in alts:
                k = copy.deepcopy(k0)
                okl_loops(k)[li][1]["attr"] = alt
                emit(bname, "attr@%s:%s" % (d, alt if not isinstance(alt, tuple) else "tile-%s-%s" % (alt[1], alt[2])), k)
            # swap the attribute with each directly nested okl loop
        # (3) header of every okl loop
        for li, (d, n0) in enumerate(okl_loops(k0)):
            for h in header_forms(n0["h"]["var"], True):
                k = copy.deepcopy(k0)
                n = okl_loops(k)[li][1]
                # keep the original bound expression style out of it: the form defines the whole header
                n["h"] = h
                if h["form"] == "valid:lt-preinc":
                    continue
                emit(bname, "header@%s:%s" % (d, h["form"]), k)
        # (4) insert a statement at every position of every block
        nb = len(blocks_of(k0))
        for bi in range(nb):
            desc, nodes0, _attrs = blocks_of(k0)[bi]
            for pos in range(len(nodes0) + 1):
                for iname, fac in insertables():
                    k = copy.deepcopy(k0)
                    blocks_of(k)[bi][1].insert(pos, fac())
                    emit(bname, "insert@%s[%d]:%s" % (desc, pos, iname), k)
        # (5) @shared / @exclusive at global scope
        for iname, fac in insertables():
            if iname.startswith("shared") or iname.startswith("exclusive"):
                if "runtime" in iname:
                    continue
                if "no-size" in iname:
                    continue
                for where in ("gdecls", "argdecls", "helperdecls"):
                    k = copy.deepcopy(k0)
                    k[where].append(fac())
                    emit(bname, "%s:%s" % (where[:-5] if where != "gdecls" else "global", iname), k)
        # (6) nesting mismatch: next to / in the other branch of every leaf okl loop, a copy that is one @inner deeper
        for li, (d, n0) in enumerate(okl_loops(k0)):
            if isinstance(n0["attr"], tuple) or n0["attr"] != "inner":
                continue
            if any(c["k"] == "for" and c["attr"] for c in n0["body"]):
                continue
            for how in ("sibling-deeper", "else-deeper", "sibling-shallower-body"):
                k = copy.deepcopy(k0)
                # find the parent list of the loop
                target = okl_loops(k)[li][1]
                for (_bd, nodes, _a) in blocks_of(k):
                    if any(x is target for x in nodes):
                        idx = [i for i, x in enumerate(nodes) if x is target][0]
                        deeper = FOR("inner", H("z1", check="z1 < 2"), [FOR("inner", H("z2", check="z2 < 2"), [RAW("a[z2] = z1;")])])
                        if how == "sibling-deeper":
                            nodes.insert(idx + 1, deeper)
                        elif how == "else-deeper":
                            nodes[idx] = IF("N > 2", [target], [deeper])
                        else:
                            # the loop gets a nested @inner in its own body while a plain sibling copy stays shallow
                            shallow = FOR("inner", H("z1", check="z1 < 2"), [RAW("a[z1] = 1;")])
                            target["body"].append(FOR("inner", H("z2", check="z2 < 2"), [RAW("a[z2] = 2;")]))
                            nodes.insert(idx + 1, shallow)
                        break
                emit(bname, "nesting@%s:%s" % (d, how), k)
        # (7) a second launch (sibling outermost @outer nest) with a different depth is allowed
        k = copy.deepcopy(k0)
        k["body"].append(FOR("outer", H("w3", check="w3 < 2"), [
            FOR("inner", H("z1", check="z1 < 2"), [FOR("inner", H("z2", check="z2 < 2"), [RAW("a[z2] = z1;")])])]))
        emit(bname, "append-launch:deeper", k)
        # (8) a second @kernel in the same file: every kernel has to be checked
        for sname, second in [
                ("valid", KERNEL("second", [FOR("outer", H("o", check="o < N"), [inner_store()])])),
                ("no-inner", KERNEL("second", [FOR("outer", H("o", check="o < N"), [RAW("a[o] = o;")])])),
                ("return-type", KERNEL("second", [FOR("outer", H("o", check="o < N"), [inner_store()])], ret="int")),
                ("break", KERNEL("second", [FOR("outer", H("o", check="o < N"), [inner_store(), {"k": "break"}])]))]:
            k = copy.deepcopy(k0)
            k["post"] = second
            emit(bname, "second-kernel:" + sname, k)
    return out


if __name__ == "__main__":
    import sys
    ps = programs("--thorough" in sys.argv)
    nb = sum(1 for p in ps if p["broken"])
    nu = sum(1 for p in ps if p["unjudged"] and not p["broken"])
    print(len(ps), "programs;", nb, "rule-breaking;", nu, "unjudged;", len(ps) - nb - nu, "valid")
    if len(sys.argv) > 1:
        for p in ps:
            if sys.argv[1] in p["name"]:
                print("=====", p["name"], p["broken"], p["unjudged"])
                print(p["text"])
