// C22 driver: every item (one OKL kernel text) is run through the seven real translators in-process and the verdict of
// each (accepted = parser.succeeded(), rejected = returned with errors or threw occa::exception) is printed.
//
// Item line:  <R|N> <hex of program text>     R: per-process parsers reused, N: a new parser per (program, translator)
// Result:     M <mode> <status S|F|X|E|?> <errors> <outBytes> <outHash> <hex first error message>
// A crash of a translator is reported by engines/forkbatch.hpp (XCRASH / XSTDERR).
#include <cstdio>
#include <cstdlib>
#include <string>

#include "forkbatch.hpp"
#include "okl7.hpp"

static void item(long index, const std::string &line) {
  size_t sp = line.find(' ');
  if (sp == std::string::npos) { printf("BADITEM\n"); return; }
  const bool fresh = line[0] == 'N';
  const std::string text = okl7::unhex(line.substr(sp + 1));
  for (int m = 0; m < okl7::MODES; ++m) {
    okl7::Result r = okl7::run(m, text, fresh);
    printf("M %d %c %d %zu %016llx %s\n", m, r.status, r.errors, r.outBytes, r.outHash,
           okl7::hexOf(r.firstError).c_str());
  }
}

int main(int argc, char **argv) {
  if (argc < 2) return 2;
  okl7::installCapture();
  return fb::run(argv[1], item, argc > 2 ? atof(argv[2]) : 60.0);
}
