#!/usr/bin/env python3
"""C22: every backend enforces the same OKL rules (E2 bounded-exhaustive generation).

Programs (gen.py): the 17 single-feature valid kernels, 2 structural ones (OKL loops in both branches of an if, under a
plain loop; thorough: 6 two-feature kernels) and, for each of them, every placement of every single edit
from a fixed list (return type, attribute of each OKL loop, each header form on each OKL loop, each statement of a
22-statement list inserted at every position of every block, @shared/@exclusive at global scope, nesting edits).
A boring reference model of the rules named in the property (tree walk in gen.reference) classifies every program as
rule-breaking (with the broken rules), valid, or outside the rule list (counted, not judged).

Oracle (exactly the property):
  rule-breaking  => every one of the seven translators rejects (succeeded()==false or occa::exception)
  valid          => every translator that supports the kernel's attributes accepts (support table: the documentation
                    names no backend restriction for any attribute used here, so all seven)
Every (program, translator) pair runs on a freshly constructed parser (the way occa::device builds kernels) in the
`rel` build of libocca: verdicts, not memory errors, are judged here (C16 runs the translators under ASan).
"""
import os, re, sys
sys.path.insert(0, os.path.dirname(os.path.dirname(os.path.dirname(os.path.abspath(__file__)))))
HERE = os.path.dirname(os.path.abspath(__file__))
sys.path.insert(0, HERE)
sys.path.insert(0, os.path.join(os.path.dirname(os.path.dirname(HERE)), "engines"))
from vlib.core import Check, san_env, load_replay
from vlib import batch
import forkbatch as fbp
import gen

VARIANT = "rel"
MODES = ["serial", "openmp", "cuda", "hip", "opencl", "metal", "dpcpp"]
RULE_FAMILIES = ["no-outer", "no-inner", "inner-outside-outer", "outer-inside-inner", "nesting-mismatch", "return-type",
                 "break-in-", "continue-in-", "header:", "shared-wrong-place", "exclusive-wrong-place",
                 "shared-not-array", "shared-size-not-constant"]


def hx(s):
    b = s.encode()
    return b.hex() if b else "-"


def unhx(h):
    return "" if h == "-" else bytes.fromhex(h).decode("utf-8", "replace")


def run_programs(exe, texts, workdir, env, fresh=True, chunk=120):
    items = [("N " if fresh else "R ") + hx(t) for t in texts]
    res, complete = batch.run_items([exe, ], items, workdir, env, chunk=chunk, per_item_timeout=30.0, extra_args=["120"])
    out = []
    for r in res:
        crash, err = fbp.crash_of(r)
        d = {"crash": crash, "stderr": err if crash else "", "modes": {}}
        for ln in r.lines:
            f = ln.split(" ")
            if f[0] == "M":
                d["modes"][int(f[1])] = {"status": f[2], "errors": int(f[3]), "bytes": int(f[4]), "hash": f[5], "msg": unhx(f[6])}
        out.append(d)
    return out, complete and len(out) == len(items)


def mode_class(ms):
    """stable name for a set of translators"""
    ms = sorted(ms)
    if len(ms) == 7:
        return "all"
    if ms == [0, 1]:
        return "host-modes"
    if ms == [2, 3, 4, 5, 6]:
        return "launcher-modes"
    return "+".join(MODES[m] for m in ms)


def edit_kind(edit):
    """the edit without its placement: 'insert@body/0[1]:shared-array' -> 'insert:shared-array'"""
    return re.sub(r"@[^:]*", "", edit)


def judge(p, d):
    """returns list of (signature, detail) for one program; empty if the oracle holds"""
    out = []
    if d["crash"]:
        sig = fbp.crash_signature(d["crash"], fbp.symbolize(d["stderr"]))
        return [("no-verdict:" + sig, "translating %s: %s\n%s\n%s" % (p["name"], d["crash"], d["stderr"][:800], p["text"]))]
    if len(d["modes"]) != 7:
        return [("no-verdict:missing-result", "translating %s gave results for %d translators" % (p["name"], len(d["modes"])))]
    odd = [m for m in range(7) if d["modes"][m]["status"] not in "SFX"]
    if odd:
        return [("no-verdict:foreign-exception:" + mode_class(odd), "%s: %s threw a non-occa exception: %s" % (
            p["name"], mode_class(odd), d["modes"][odd[0]]["msg"]))]
    acc = [m for m in range(7) if d["modes"][m]["status"] == "S"]
    rej = [m for m in range(7) if d["modes"][m]["status"] != "S"]
    if p["broken"]:
        if acc:
            out.append(("accepted-rule-break:%s:%s" % ("+".join(p["broken"]), mode_class(acc)),
                        "kernel %s breaks %s but is accepted by %s (rejected by %s)\n%s" % (
                            p["name"], p["broken"], [MODES[m] for m in acc], [MODES[m] for m in rej], p["text"])))
    elif not p["unjudged"]:
        if rej:
            out.append(("rejected-valid:%s:%s" % (edit_kind(p["edit"]) if p["edit"] != "none" else "base-" + p["base"], mode_class(rej)),
                        "kernel %s follows the rules but is rejected by %s: %s\n%s" % (
                            p["name"], [MODES[m] for m in rej], d["modes"][rej[0]]["msg"], p["text"])))
    return out


def main():
    c = Check("C22", "exploration")
    c.build(VARIANT)
    exe = c.compile(os.path.join(HERE, "driver.cpp"), "driver", variant=VARIANT)
    env = san_env(c.scratch)

    if c.args.replay:
        r = load_replay(c.args.replay)["replay"]
        res, _ = run_programs(exe, [r["text"]], c.scratch, env)
        d = res[0]
        print(r["text"])
        print("reference: broken rules =", r["broken"], " outside rule list =", r["unjudged"])
        for m in range(7):
            if m in d["modes"]:
                x = d["modes"][m]
                print("  %-7s %s %s" % (MODES[m], {"S": "accepted", "F": "rejected", "X": "rejected (occa::exception)"}.get(x["status"], x["status"]), x["msg"]))
        if d["crash"]:
            print("  crash:", d["crash"], d["stderr"][:1500])
        v = judge(r, d)
        for sig, detail in v:
            print("FAILS:", sig)
        sys.exit(1 if v else 0)

    progs = gen.programs(thorough=(c.tier == "thorough"))
    res, complete = run_programs(exe, [p["text"] for p in progs], os.path.join(c.scratch, "run"), env)
    if not complete:
        c.harness_error("driver run incomplete (%d of %d programs)" % (len(res), len(progs)))

    n_broken = n_valid = n_unjudged = 0
    rules_seen, classes, msgs = {}, set(), set()
    per_mode_acc = [0] * 7
    samples = []
    for p, d in zip(progs, res):
        if p["broken"]:
            n_broken += 1
            for r_ in p["broken"]:
                rules_seen[r_] = rules_seen.get(r_, 0) + 1
        elif p["unjudged"]:
            n_unjudged += 1
        else:
            n_valid += 1
        vec = "".join(d["modes"][m]["status"] if m in d["modes"] else "!" for m in range(7))
        first = next((d["modes"][m]["msg"] for m in range(7) if m in d["modes"] and d["modes"][m]["status"] != "S"), "")
        first = re.sub(r"\[[^\]]*\]", "[]", first)
        classes.add((vec, first))
        if first:
            msgs.add(first)
        for m in range(7):
            if m in d["modes"] and d["modes"][m]["status"] == "S":
                per_mode_acc[m] += 1
        for sig, detail in judge(p, d):
            c.violation(sig, detail, {"name": p["name"], "text": p["text"], "broken": p["broken"], "unjudged": p["unjudged"],
                                      "base": p["base"], "edit": p["edit"]})
    for i in (0, len(progs) // 2, len(progs) - 1):
        p, d = progs[i], res[i]
        samples.append({"program": p["name"], "reference": p["broken"] or ("unjudged" if p["unjudged"] else "valid"),
                        "verdicts": "".join(d["modes"][m]["status"] if m in d["modes"] else "!" for m in range(7))})

    # vacuity guards
    for fam in RULE_FAMILIES:
        c.vacuity(any(r_.startswith(fam) for r_ in rules_seen), "no generated program breaks a rule of family '%s'" % fam)
    c.vacuity(n_valid >= 500 and n_broken >= 1000, "too few programs (valid %d, rule-breaking %d)" % (n_valid, n_broken))
    c.vacuity(len(msgs) >= 12, "fewer than 12 distinct rejection messages observed (%d)" % len(msgs))
    c.vacuity(all(a > 0 for a in per_mode_acc), "a translator accepted nothing: %s" % per_mode_acc)

    c.set_exploration(
        evaluations=7 * len(progs), distinct_nontrivial=len(classes),
        rule="rule-breaking kernel => rejected by all 7 translators; rule-following kernel => accepted by all 7 (no attribute used here is documented as unsupported on any backend)",
        samples=samples, exhaustive=True,
        programs=len(progs), rule_breaking=n_broken, valid=n_valid, outside_rule_list_not_judged=n_unjudged,
        programs_per_broken_rule=dict(sorted(rules_seen.items())),
        distinct_rejection_messages=len(msgs), accepted_per_translator=dict(zip(MODES, per_mode_acc)),
        variant="rel (fresh parser per program and translator)",
        bound="%d base kernels (17 single-feature + 2 structural%s) x every placement of one edit: 5 return types, every other attribute on each OKL loop (6 @tile attribute pairs), 36 header forms (17 valid, 19 invalid) on each OKL loop, 22 statements at every position of every block, 9 @shared/@exclusive declarations at global scope, as kernel argument and in a helper function, 3 nesting edits per leaf @inner loop, 1 appended launch, 4 second kernels" % (len(set(p["base"] for p in progs)), ", 6 two-feature kernels" if c.tier == "thorough" else ""))
    c.assumptions += [
        "reference model of the rules = gen.reference (tree walk); header validity follows the translator's own published rule text (init: one integer declaration with initialiser; check: iterator compared by < <= > >=; update: ++ -- += -= towards the bound)",
        "programs that are outside the property's rule list (use of @shared/@exclusive outside @inner after an attribute edit, break outside any loop) are counted, not judged",
        "support table: docs/guide/okl names no backend restriction for @tile/@dim/@shared/@exclusive/@barrier/@atomic(simple update)/@restrict/@max_inner_dims/@nobarrier/@simd_length, so every valid kernel must be accepted by all seven translators",
    ]
    c.finish()


from vlib.core import run_main
run_main(main)
