#!/usr/bin/env python3
"""C30: with sharable devices, concurrent handle use is race-free.
Stateless model checking of 2-3 real threads on the ENABLE_SHARABLE_DEVICE build under a serialising
scheduler (scheduling points = mutex lock/unlock, thread start/exit), all schedules up to a preemption
bound; oracle = live-object counters, memory accounting, handle validity at quiescence, ASan.
Thorough tier adds a separate free-running ThreadSanitizer pass of the same bodies."""
import json, os, re, resource, subprocess, sys, time
from concurrent.futures import ThreadPoolExecutor
sys.path.insert(0, os.path.dirname(os.path.dirname(os.path.dirname(os.path.abspath(__file__)))))
from vlib.core import Check, load_replay, NCPU, run_main, san_env

HERE = os.path.dirname(os.path.abspath(__file__))
import threading
RETRY_LOCK = threading.Lock()


class X:
    pass


def run_schedule(exe, scn, prefix, env, timeout=60):
    arg = ",".join(str(c) for c in prefix) if prefix else "-"
    try:
        p = subprocess.run([exe, scn, arg], stdout=subprocess.PIPE, stderr=subprocess.PIPE, env=env, timeout=timeout,
                           preexec_fn=lambda: resource.setrlimit(resource.RLIMIT_CPU, (8, 9)))
        out, err, rc, to = p.stdout.decode("utf-8", "replace"), p.stderr.decode("utf-8", "replace"), p.returncode, False
        if rc in (-24, -9) :      # SIGXCPU / SIGKILL from the CPU-time limit: an endless loop (load-independent)
            to = True
    except subprocess.TimeoutExpired as e:
        out, err, rc, to = (e.stdout or b"").decode("utf-8", "replace"), (e.stderr or b"").decode("utf-8", "replace"), -9, True
    x = X()
    x.points, x.choices, x.kinds = [], [], []
    x.fails, x.deadlock, x.diverged, x.oracle, x.misuse = [], False, False, None, 0
    for ln in out.split("\n"):
        if ln.startswith("POINT "):
            m = re.match(r"POINT (\d+) re=(\d) chosen=(\d+) kind=(\S+) enabled=(\S+)", ln)
            en = [int(v) for v in m.group(5).split(",")]
            x.points.append({"enabled": en, "running_enabled": m.group(2) == "1", "cand": True})
            x.choices.append(en.index(int(m.group(3))))
            x.kinds.append("T%s:%s" % (m.group(3), m.group(4)))
        elif ln.startswith("FAIL "):
            sig, _, detail = ln[5:].partition("\t")
            x.fails.append((sig, detail))
        elif ln.startswith("DEADLOCK"):
            x.deadlock = True
        elif ln.startswith("DIVERGED"):
            x.diverged = True
        elif ln.startswith("ORACLE "):
            x.oracle = ln.split()[1]
        elif ln.startswith("MISUSE "):
            x.misuse = int(ln.split()[1])
    x.rc, x.err, x.timeout = rc, err, to
    return x


def parse_run(out, err, rc, to):
    x = X()
    x.points, x.choices, x.kinds = [], [], []
    x.fails, x.deadlock, x.diverged, x.oracle, x.misuse = [], False, False, None, 0
    for ln in out.split("\n"):
        if ln.startswith("POINT "):
            m = re.match(r"POINT (\d+) re=(\d) chosen=(\d+) kind=(\S+) enabled=(\S+)", ln)
            if not m:
                continue
            en = [int(v) for v in m.group(5).split(",")]
            x.points.append({"enabled": en, "running_enabled": m.group(2) == "1", "cand": True})
            x.choices.append(en.index(int(m.group(3))))
            x.kinds.append("T%s:%s" % (m.group(3), m.group(4)))
        elif ln.startswith("FAIL "):
            sig, _, detail = ln[5:].partition("\t")
            x.fails.append((sig, detail))
        elif ln.startswith("DEADLOCK"):
            x.deadlock = True
        elif ln.startswith("DIVERGED"):
            x.diverged = True
        elif ln.startswith("ORACLE "):
            x.oracle = ln.split()[1]
        elif ln.startswith("MISUSE "):
            x.misuse = int(ln.split()[1])
    x.rc, x.err, x.timeout = rc, err, to
    return x


def run_batch(exe, scn, prefixes, env, workdir, tag, deadline):
    """run many schedules in one harness process (fork per schedule after library start-up)."""
    if time.time() > deadline:
        return None
    path = os.path.join(workdir, "batch-%s.txt" % tag)
    with open(path, "w") as f:
        for p in prefixes:
            f.write((",".join(str(c) for c in p) if p else "-") + "\n")
    try:
        pr = subprocess.run([exe, scn, "@" + path], stdout=subprocess.PIPE, stderr=subprocess.PIPE, env=env, timeout=600 + 10 * len(prefixes))
        out = pr.stdout.decode("utf-8", "replace")
    except subprocess.TimeoutExpired as e:
        out = (e.stdout or b"").decode("utf-8", "replace")
    res = []
    blocks = out.split("BEGIN ")[1:]
    for i, p in enumerate(prefixes):
        if i >= len(blocks):
            res.append(None)      # batch process died: caller re-runs these singly
            continue
        body = blocks[i]
        m = re.search(r"\nEND \d+ (-?\d+)", body)
        rc = int(m.group(1)) if m else -1
        text = body[:m.start()] if m else body
        res.append(parse_run(text, text, rc, rc in (-24, -9)))
    os.unlink(path)
    return res


def crash_signature(err):
    cls = "crash"
    m = re.search(r"ERROR: AddressSanitizer: ([a-zA-Z\-]+)", err)
    if m:
        cls = "asan-" + m.group(1)
    fn = "?"
    for ln in err.split("\n"):
        m = re.search(r"#\d+ 0x[0-9a-f]+ in (occa::[^(]+)", ln)
        if m:
            fn = re.sub(r"<[^<>]*>", "", m.group(1)).replace("occa::", "").replace("gc::", "").strip()
            break
    return cls, fn


def preemptions_before(x, i):
    return sum(1 for j in range(i) if x.points[j]["running_enabled"] and x.choices[j] != 0)


def successors(x, prefix_len, bound):
    out = []
    for i in range(max(prefix_len, 1), len(x.points)):   # point 0 = who starts: identical/symmetric handled by exploring it too below
        p = x.points[i]
        cost = preemptions_before(x, i) + (1 if p["running_enabled"] else 0)
        if cost > bound:
            continue
        for alt in range(1, len(p["enabled"])):
            out.append(x.choices[:i] + [alt])
    return out


def main():
    c = Check("C30", "model_checking")
    c.build("shr")
    exe = c.compile(os.path.join(HERE, "harness.cpp"), "harness", variant="shr")
    env = san_env(c.scratch, {"ASAN_OPTIONS": "detect_leaks=0:exitcode=77:abort_on_error=0"})
    scns = []
    for ln in subprocess.run([exe, "list"], stdout=subprocess.PIPE, env=env, text=True).stdout.split("\n"):
        if ln.strip():
            scns.append((ln.split()[0], int(ln.split()[1])))

    def judge(scn, x):
        v = []
        if x.diverged:
            return [("HARNESS-DIVERGED", "")]
        # memory-unsafety shows up as different symptoms of one cause depending on the schedule
        # (use-after-free, SEGV, double free, or an endless walk of a corrupted ring): one signature per scenario
        if x.timeout:
            v.append(("unsafe:%s" % scn, "hang: schedule exceeded 8 s of CPU time (a schedule needs < 1 s) or the wall-clock limit when re-run alone"))
        elif x.deadlock:
            v.append(("deadlock:%s" % scn, "no enabled thread; trace tail: %s" % " ".join(x.kinds[-6:])))
        elif x.rc not in (0, 1) or x.oracle is None:
            cls, fn = crash_signature(x.err)
            first = next((l.strip() for l in x.err.split("\n") if "ERROR:" in l or "SUMMARY" in l), x.err.strip()[-200:])
            v.append(("unsafe:%s" % scn, "%s in %s, exit %s: %s" % (cls, fn, x.rc, first[:300])))
        for sig, detail in x.fails:
            v.append(("oracle-%s:%s" % (sig, scn), detail))
        return v

    def sched_str(x):
        # compact: list of (thread, kind) at switches
        out, last = [], None
        for k in x.kinds:
            t = k.split(":")[0]
            if t != last:
                out.append(k)
                last = t
        return " -> ".join(out)[:500]

    if c.args.replay:
        r = load_replay(c.args.replay)["replay"]
        x = run_schedule(exe, r["scenario"], r["choices"], env)
        for k in x.kinds:
            print("  ", k)
        v = judge(r["scenario"], x)
        print(x.err[-3000:] if v else "")
        print("verdict:", v or "ok")
        sys.exit(1 if v else 0)

    deadline = c.t0 + c.budget(300, 1800)
    total, transitions = 0, 0
    completed = []
    outcomes = {}
    samples = []
    exhaustive = True
    for scn, nthr in ([] if os.environ.get("VP_C30_TSAN_ONLY") else scns):
        if c.tier == "quick":
            bound = 2 if nthr == 2 else 1
        else:
            bound = 3 if nthr == 2 else 2
        x0 = run_schedule(exe, scn, [], env)
        done = 1
        queue = [(x0, 0)]
        # also explore who starts (point 0 alternatives are free: nobody is running)
        level_front = []
        for alt in range(1, len(x0.points[0]["enabled"]) if x0.points else 1):
            level_front.append([alt])
        allx = [([], x0)]
        frontier = successors(x0, 0, bound) + level_front
        seen_prefix = set()
        scen_viol = {}
        while frontier:
            if time.time() > deadline:
                exhaustive = False
                break
            batch = [p for p in frontier if tuple(p) not in seen_prefix]
            for p in batch:
                seen_prefix.add(tuple(p))
            nxt = []
            chunks = [batch[i::NCPU] for i in range(NCPU) if batch[i::NCPU]]
            def one(ci):
                r = run_batch(exe, scn, chunks[ci], env, c.scratch, "%s-%d" % (scn, ci), deadline)
                if r is None:
                    return None
                for k, x in enumerate(r):
                    if x is None or (x.timeout and x.rc not in (-24, -9)):
                        r[k] = run_schedule(exe, scn, chunks[ci][k], env, timeout=300)
                return r
            with ThreadPoolExecutor(max_workers=NCPU) as ex:
                for ci, r in enumerate(ex.map(one, range(len(chunks)))):
                    if r is None:
                        exhaustive = False
                        continue
                    for pref, x in zip(chunks[ci], r):
                        done += 1
                        allx.append((pref, x))
                        nxt.extend(successors(x, len(pref), bound))
            frontier = nxt
            if not exhaustive:
                break
        for pref, x in allx:
            transitions += len(x.points)
            v = judge(scn, x)
            if any(s == "HARNESS-DIVERGED" for s, _ in v):
                c.harness_error("schedule prefix %s of %s diverged on replay" % (pref, scn))
            key = ",".join(sorted(s for s, _ in v)) or "ok"
            outcomes[(scn, key)] = outcomes.get((scn, key), 0) + 1
            for sig, detail in v:
                c.violation(sig, detail + " | schedule: " + sched_str(x), {"scenario": scn, "choices": x.choices if x.choices else pref})
        total += done
        if frontier == [] and exhaustive:
            completed.append({"scenario": scn, "threads": nthr, "preemption_bound": bound, "schedules": done, "sync_points_default_schedule": len(x0.points)})
        if len(samples) < 6:
            samples.append({"scenario": scn, "schedule": sched_str(allx[len(allx) // 2][1]), "choices": allx[len(allx) // 2][1].choices})
        if not exhaustive:
            break

    tsan_info = None
    if c.tier == "thorough":
        tsan_info = tsan_pass(c, scns, env)
    c.vacuity(total >= 50 or not exhaustive or os.environ.get("VP_C30_TSAN_ONLY"), "fewer than 50 schedules explored")
    c.set_model_checking(
        states=total, transitions=max(1, transitions), traces_validated=total, samples=samples, exhaustive=exhaustive,
        schedules_explored=total, scenarios_completed=completed,
        distinct_outcome_classes=len(outcomes), outcome_classes={"%s | %s" % k: n for k, n in sorted(outcomes.items())},
        tsan_free_running_pass=tsan_info,
        rule="per scenario: all schedules of the thread bodies with at most <bound> preemptions (iterative context bounding, DFS over choice prefixes); scheduling points = pthread_mutex_lock (before acquisition) / unlock (after release) / thread start / exit, interposed in the harness executable; mutex ownership is modelled so a contended lock disables the thread",
        explanation="states = complete executions (schedules); every execution runs the real libocca (ENABLE_SHARABLE_DEVICE build, ASan) in a fresh process")
    c.assumptions += ["races on plain (non-mutex) accesses are invisible to the serialising scheduler: they are covered only by the free-running ThreadSanitizer pass (thorough tier, supporting evidence)",
                      "kernel build+run bodies are not explored (too many steps); handle copy/destroy, malloc/free, slices, streams, device handles are",
                      "Serial-mode device in the sharable build"]
    c.finish()


def tsan_pass(c, scns, env):
    """free-running pass under ThreadSanitizer (scheduler not linked): reports on libocca frames are observations"""
    c.build("shr-tsan")
    exe = c.compile(os.path.join(HERE, "harness.cpp"), "harness-tsan", variant="shr-tsan", extra=["-DVT_NOSCHED"])
    env = dict(env)
    env["VT_FREE"] = "1"
    env["TSAN_OPTIONS"] = "exitcode=66:halt_on_error=0:second_deadlock_stack=1"
    runs, reports = 0, {}
    for scn, _ in scns:
        for rep in range(6):
            p = subprocess.run([exe, scn, "-"], stdout=subprocess.PIPE, stderr=subprocess.PIPE, env=env, text=True, timeout=120)
            runs += 1
            for blk in p.stderr.split("WARNING: ThreadSanitizer:")[1:]:
                kind = blk.split("(")[0].strip().replace(" ", "-")
                fn = "?"
                for ln in blk.split("\n"):
                    m = re.search(r"#\d+ (occa::[^(]+)", ln)
                    if m:
                        fn = re.sub(r"<[^<>]*>", "", m.group(1)).replace("occa::", "").strip()
                        break
                sig = "tsan-%s:%s:%s" % (kind, scn, fn)
                if sig not in reports:
                    reports[sig] = blk[:1200]
                    # supporting evidence only: a free-running pass is a sample (and ThreadSanitizer's reporting
                    # depends on timing), so its reports are recorded in the evidence, never judged
    return {"runs": runs, "distinct_reports": len(reports), "report_signatures": sorted(reports),
            "note": "supporting evidence only (free-running sample); not part of the verdict"}


run_main(main)
