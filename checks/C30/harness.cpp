// C30 harness: scenarios of 2-3 threads using handles of shared objects on ONE device in the
// ENABLE_SHARABLE_DEVICE build, run under the serialising scheduler (engines/thr/vthr.hpp).
// usage: harness <scenario> <choices: comma separated ints or '-'>   |   harness list
// With VT_FREE=1 the bodies run as free-running threads (no scheduler; for the ThreadSanitizer pass).
#include <occa.hpp>
#include <occa/internal/utils/verif.hpp>
#include <occa/internal/core/device.hpp>
#include <occa/internal/core/memory.hpp>
#include <occa/internal/core/buffer.hpp>
#ifndef VT_NOSCHED
#include "thr/vthr.hpp"
#endif
#include <sstream>
#include <cstring>
#include <unistd.h>
#include <sys/wait.h>
#include <sys/resource.h>
#include <thread>

using occa::verif::live;
typedef std::function<void()> body_t;

static occa::device *dev;
static std::vector<std::string> fails;
static void fail(const std::string &sig, const std::string &detail) { fails.push_back(sig + "\t" + detail); }
static std::string S(long v) { return std::to_string(v); }

struct Scenario {
  const char *name;
  int nthreads;
  std::function<std::vector<body_t>()> setup;   // creates shared objects, returns thread bodies
  std::function<void()> check;                  // oracle at quiescence (all threads joined)
};

// shared objects of the current scenario
static occa::memory *gm = NULL, *h1 = NULL, *h2 = NULL, *h3 = NULL;
static occa::device *d1 = NULL, *d2 = NULL;
static occa::stream *s1 = NULL, *s2 = NULL;
static occa::memoryPool *gp = NULL;

static void expectQuiescent(long buffers, long memories, long bytes, const char *what) {
  if (live(occa::verif::kBuffer) != buffers)
    fail("live-buffers", std::string(what) + ": live backend buffers=" + S(live(occa::verif::kBuffer)) + " expected " + S(buffers));
  if (live(occa::verif::kMemory) != memories)
    fail("live-memories", std::string(what) + ": live backend memory objects=" + S(live(occa::verif::kMemory)) + " expected " + S(memories));
  if ((long) dev->memoryAllocated() != bytes)
    fail("memoryAllocated", std::string(what) + ": memoryAllocated()=" + S(dev->memoryAllocated()) + " expected " + S(bytes));
}

static std::vector<Scenario> scenarios() {
  std::vector<Scenario> v;
  // A: two threads copy and destroy handles of one memory that main keeps alive
  v.push_back({"copy-destroy-shared", 2,
    [] { gm = new occa::memory(dev->malloc<char>(16));
         body_t b = [] { occa::memory c(*gm); occa::memory e; e = c; };
         return std::vector<body_t>{b, b}; },
    [] { if (!gm->isInitialized()) fail("lost-reference", "main's handle became uninitialized");
         expectQuiescent(1, 1, 16, "two threads copied+destroyed handles, main still holds one");
         if (gm->getModeMemory()->memoryRing.length() != 1) fail("ring-length", "handle ring has " + S(gm->getModeMemory()->memoryRing.length()) + " entries, expected 1");
         delete gm; expectQuiescent(0, 0, 0, "after dropping the last handle"); }});
  // B: the last two handles of one memory are dropped by two threads
  v.push_back({"drop-last-two-handles", 2,
    [] { h1 = new occa::memory(dev->malloc<char>(16)); h2 = new occa::memory(*h1);
         return std::vector<body_t>{ [] { delete h1; }, [] { delete h2; } }; },
    [] { expectQuiescent(0, 0, 0, "both handles dropped"); }});
  // C: two threads allocate and release memory on the shared device
  v.push_back({"malloc-free", 2,
    [] { body_t b = [] { occa::memory a = dev->malloc<char>(8); a.free(); };
         return std::vector<body_t>{b, b}; },
    [] { expectQuiescent(0, 0, 0, "both allocations released");
         long mx = dev->maxMemoryAllocated();
         if (mx != 8 && mx != 16) fail("maxMemoryAllocated", "maxMemoryAllocated()=" + S(mx) + " expected 8 or 16"); }});
  // D: two threads copy and destroy handles of the shared device
  v.push_back({"device-handles", 2,
    [] { body_t b = [] { occa::device c(*dev); occa::device e; e = c; };
         return std::vector<body_t>{b, b}; },
    [] { if (!dev->isInitialized()) fail("lost-reference", "device handle became uninitialized");
         if (live(occa::verif::kDevice) != 1) fail("live-devices", "live devices=" + S(live(occa::verif::kDevice)));
         if (dev->getModeDevice()->deviceRing.length() != 1) fail("ring-length", "device ring has " + S(dev->getModeDevice()->deviceRing.length()) + " entries, expected 1"); }});
  // E: streams created and dropped concurrently
  v.push_back({"streams", 2,
    [] { body_t b = [] { occa::stream s = dev->createStream(); occa::stream t(s); };
         return std::vector<body_t>{b, b}; },
    [] { if (live(occa::verif::kStream) != 1) fail("live-streams", "live streams=" + S(live(occa::verif::kStream)) + " expected 1 (the device's initial stream)"); }});
  // F: one thread copies a handle while another allocates + frees on the same device
  v.push_back({"copy-vs-malloc", 2,
    [] { gm = new occa::memory(dev->malloc<char>(16));
         return std::vector<body_t>{ [] { occa::memory c(*gm); occa::memory e(c); },
                                     [] { occa::memory a = dev->malloc<char>(8); occa::memory b2(a); } }; },
    [] { expectQuiescent(1, 1, 16, "copies dropped, temporary allocation released");
         delete gm; expectQuiescent(0, 0, 0, "after dropping the last handle"); }});
  // G: three threads, each copies and drops a handle of the shared memory
  v.push_back({"copy-destroy-3", 3,
    [] { gm = new occa::memory(dev->malloc<char>(16));
         body_t b = [] { occa::memory c(*gm); };
         return std::vector<body_t>{b, b, b}; },
    [] { expectQuiescent(1, 1, 16, "three threads copied+destroyed");
         if (gm->getModeMemory()->memoryRing.length() != 1) fail("ring-length", "handle ring has " + S(gm->getModeMemory()->memoryRing.length()) + " entries, expected 1");
         delete gm; expectQuiescent(0, 0, 0, "after dropping the last handle"); }});
  // H: slices (second backend memory object on the same buffer) created and dropped concurrently
  v.push_back({"slices", 2,
    [] { gm = new occa::memory(dev->malloc<char>(16));
         return std::vector<body_t>{ [] { occa::memory s = gm->slice(0, 8); }, [] { occa::memory s = gm->slice(8, 8); } }; },
    [] { expectQuiescent(1, 1, 16, "slices dropped"); delete gm; expectQuiescent(0, 0, 0, "after dropping the last handle"); }});
  return v;
}

int runOne(Scenario *scn, const char *choicesArg);

int main(int argc, char **argv) {
  setvbuf(stdout, NULL, _IOLBF, 0);
  std::vector<Scenario> sc = scenarios();
  if (argc >= 2 && std::string(argv[1]) == "list") {
    for (auto &s : sc) printf("%s %d\n", s.name, s.nthreads);
    return 0;
  }
  if (argc < 3) return 2;
  Scenario *scn = NULL;
  for (auto &s : sc) if (argv[1] == std::string(s.name)) scn = &s;
  if (!scn) return 2;
  if (argv[2][0] == '@') {
    // batch mode: one schedule per line of the file; every schedule runs in a forked child of this
    // (already initialised, still single-threaded) process, so the start-up cost is paid once
    FILE *f = fopen(argv[2] + 1, "r");
    if (!f) return 2;
    char line[65536];
    long n = 0;
    while (fgets(line, sizeof line, f)) {
      size_t len = strlen(line);
      while (len && (line[len - 1] == '\n' || line[len - 1] == ' ')) line[--len] = 0;
      printf("BEGIN %ld\n", n);
      fflush(stdout);
      pid_t pid = fork();
      if (pid == 0) {
        struct rlimit rl = {8, 9};
        setrlimit(RLIMIT_CPU, &rl);
        dup2(1, 2);
        _exit(runOne(scn, line));
      }
      int st = 0;
      waitpid(pid, &st, 0);
      int code = WIFEXITED(st) ? WEXITSTATUS(st) : -WTERMSIG(st);
      printf("\nEND %ld %d\n", n, code);
      fflush(stdout);
      ++n;
    }
    return 0;
  }
  return runOne(scn, argv[2]);
}

int runOne(Scenario *scn, const char *choicesArg) {
  std::vector<int> prefix;
  if (std::string(choicesArg) != "-") {
    std::stringstream ss(choicesArg);
    std::string tok;
    while (std::getline(ss, tok, ',')) prefix.push_back(atoi(tok.c_str()));
  }
  occa::device device({{"mode", "Serial"}});
  dev = &device;
  std::vector<body_t> bodies = scn->setup();
  int rc = 0;
  try {
    if (getenv("VT_FREE")) {
      std::vector<std::thread> ts;
      for (auto &b : bodies) ts.emplace_back(b);
      for (auto &t : ts) t.join();
    } else {
#ifndef VT_NOSCHED
      vt::run(bodies, prefix);
      vt::printTrace();
      printf("MISUSE %d\n", vt::misuse);
#endif
    }
    scn->check();
  } catch (occa::exception &e) {
    fail("exception", e.toString().substr(0, 300));
  }
  for (auto &f : fails) {
    std::string g = f;
    for (auto &ch : g) if (ch == '\n') ch = ' ';
    printf("FAIL %s\n", g.c_str());
    rc = 1;
  }
  printf("ORACLE %s\n", rc ? "fail" : "ok");
  fflush(stdout);
  _exit(rc);   // skip static destructors: the verdict is already out
  return rc;
}
