#!/usr/bin/env python3
"""C05: device memory accounting returns to zero and tracks live allocations (E1 histbfs)."""
import glob, os, sys
HERE = os.path.dirname(os.path.abspath(__file__))
sys.path.insert(0, os.path.dirname(os.path.dirname(HERE)))
from vlib.core import Check, san_env, load_replay, sh
from vlib import histbfs

KIND = {"1": "malloc", "2": "wrapMemory", "3": "clone", "4": "free", "5": "pool.create", "6": "pool.reserve", "7": "pool.release",
        "8": "pool.resize", "9": "pool.shrinkToFit", "10": "pool.setAlignment", "11": "pool.free"}


def crash_sig(op, crash, stderr):
    return "crash:%s:%s" % (histbfs._crash_class(crash, stderr), KIND.get(op.split(",")[0], "?"))


def read_cover(d):
    tot = {}
    for f in glob.glob(os.path.join(d, "cov.*")):
        for ln in open(f):
            p = ln.split()
            if len(p) == 2:
                tot[p[0]] = tot.get(p[0], 0) + int(p[1])
    return tot


def main():
    c = Check("C05", "model_checking")
    c.build("asan")
    exe = c.compile(os.path.join(HERE, "harness.cpp"), "harness")
    covdir = os.path.join(c.scratch, "cover")
    os.makedirs(covdir, exist_ok=True)
    env = san_env(c.scratch, {"VP_COVER_DIR": covdir})
    # smaller ASan quarantine: freed blocks are reused instead of mapping fresh pages for every System (3x faster);
    # histories allocate a few KB, so 16 MB still keeps every freed block of a history quarantined
    env["ASAN_OPTIONS"] += ":quarantine_size_mb=16"
    if c.args.replay:
        r = load_replay(c.args.replay)
        env.pop("VP_COVER_DIR")
        p = sh([exe, "replay", r["replay"]["history"]], env=env)
        print(p.stdout)
        sys.exit(1 if p.returncode else 0)
    depth = 6 if c.tier == "quick" else 8
    depth = int(os.environ.get("VP_DEPTH", depth))
    deadline = c.t0 + c.budget(400, 3000)   # cut-offs, not targets
    res = histbfs.bfs(c, exe, depth, deadline, env, c.scratch, crash_sig=crash_sig, per_item_timeout=600.0)
    # a worker that ran out of time on an overloaded machine is not an observation: re-run every timeout alone with a
    # generous limit; if the single run passes, the exploration lost a state expansion => harness error, not a verdict
    for sig, detail, hist in res.violations:
        if "timeout" in sig:
            import subprocess
            try:
                p = subprocess.run([exe, "replay", hist or ";"], env=env, cwd=c.scratch, stdout=subprocess.PIPE,
                                   stderr=subprocess.PIPE, text=True, timeout=900)
                if p.returncode == 0:
                    c.harness_error("a worker timed out on history %r but the history passes when run alone (overloaded machine?); re-run the check" % hist)
            except subprocess.TimeoutExpired:
                pass
    # one readable rendering per signature (of its shortest history); describing costs a process start each
    shortest = {}
    for sig, detail, hist in res.violations:
        if sig not in shortest or len(hist) < len(shortest[sig]):
            shortest[sig] = hist
    readable = {sig: histbfs.describe(exe, h, env) for sig, h in shortest.items()}
    for sig, detail, hist in res.violations:
        c.violation(sig, detail + (" :: history: " + readable[sig] if shortest[sig] == hist else ""), {"history": hist})
    if res.depth_completed < 4 and not res.violations and not res.budget_hit:   # out of budget = exit 0 with exhaustive:false
        c.harness_error("BFS did not complete depth 4 within the budget (depth_completed=%d)" % res.depth_completed)
    cover = read_cover(covdir)
    need = ["op:malloc:plain", "op:malloc:uhp", "op:malloc:uhp-own", "op:malloc:uhp-nosrc", "op:malloc:src-copy", "op:wrapMemory:wrap",
            "op:free:wrap", "op:free:plain", "op:clone:of-reservation", "op:clone:of-wrap",
            "op:pool.resize:live", "op:pool.resize:empty", "op:pool.setAlignment:live", "op:pool.shrinkToFit:live", "op:pool.free:live",
            "realloc-with-live-reservations", "threw:pool.resize:live", "state:pool-and-memory", "state:pool-two-reservations",
            "state:three-memories", "finish"]
    need += ["op:free:uhp", "op:free:uhp-own", "op:clone:of-uhp"]
    # enforced only on runs without violations: violating transitions are not expanded, which cuts the space behind
    # them, and such a run fails anyway
    if not res.violations and not res.budget_hit:
        for k in need:
            c.vacuity(cover.get(k, 0) > 0, "situation %r was never reached (coverage: %s)" % (k, sorted(cover.items())))
    # transitions on which the harness evaluated the oracle on the implementation state (its own counter)
    judged = cover.get("judged-transitions", res.transitions)
    c.set_model_checking(res.states, res.transitions, judged, res.samples,
                         exhaustive=(res.depth_completed >= depth or res.exhaustive))
    c.coverage.update({
        "depth_completed": res.depth_completed, "depth_target": depth, "per_depth": res.per_depth,
        "budget_hit": res.budget_hit, "crashes": res.crashes,
        "alphabet": "fresh Serial device; malloc(n) n in {3,8}; malloc(5, host pointer, use_host_pointer x own_host_pointer in all 4 combinations); malloc(5, no source, use_host_pointer+own_host_pointer); "
                    "wrapMemory(host,6); clone of any live memory or pool reservation; release of a memory by dropping its handle or by free() (<=3 live memories); "
                    "createMemoryPool (default alignment 128), pool.reserve(s) s in {3,8} (<=2 live), release of a reservation, pool.resize(b) b in {0,8,40}, shrinkToFit, setAlignment(a) a in {4,16}, pool release by drop or free() (with live reservations too)",
        "oracle": "after every operation: memoryAllocated() == sum of bytes of live malloc/clone allocations + byte size of the live pool backing buffer, wrapMemory counting nothing; "
                  "a malloc on a host pointer with use_host_pointer counts either its bytes while live or nothing - decided by the first such allocation of the history, then fixed, and never after its release; "
                  "maxMemoryAllocated() == running maximum of that value (the moment in which a pool re-allocation holds old and new backing buffer may or may not be included); "
                  "closing oracle after every transition: releasing every memory and the pool brings memoryAllocated() to 0",
        "situations_reached": {k: cover[k] for k in sorted(cover)},
        "distinct_situations": len(cover),
        "distinct_violation_signatures": len(res.sig_counts),
        "explanation": "every transition is executed on the real occa::device/memory/memoryPool (exploration runs on the implementation, so every explored trace is an implementation trace; traces_validated_against_impl is the harness's own count of judged transitions and also contains those of a layer that was cut off by the budget or lost with a dying worker)",
    })
    c.assumptions += [
        "state key = bytesAllocated, maxBytesAllocated, model maxima, allocation table (kind, bytes, counted), pool state (alignment, size, reserved, backing size, reservation offsets/sizes); memory handles are anonymous (addressed by position in the sorted table)",
        "pool backing-buffer bytes are read from the implementation's buffer object (correctness of size() itself is C04); detach() is excluded by the property; only Serial mode",
    ]
    c.finish()


from vlib.core import run_main
run_main(main)
