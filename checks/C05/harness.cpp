// C05: device memory accounting (memoryAllocated / maxMemoryAllocated) over allocation histories on a
// fresh Serial device.  System for E1 histbfs.
//
// Reference model: allocation table.  memoryAllocated() must equal
//     sum of bytes of live malloc/clone allocations + bytes of the live pool backing buffer,
// wrapped memory counting nothing.  A malloc that is handed a host pointer with use_host_pointer may
// be treated as "counted while live" or as "wrapped" (the property fixes only the return to zero) -
// but the same way for the whole history, and never after its release.
// maxMemoryAllocated() must equal the running maximum of memoryAllocated(); the counter may or may
// not include the moment in which a pool re-allocation holds the old and the new backing buffer at
// the same time (both readings of "has taken" are accepted, nothing else).
#include <algorithm>
#include <map>
#include <unistd.h>
#include <fcntl.h>
#include <occa.hpp>
#include <occa/internal/core/device.hpp>
#include <occa/internal/core/memory.hpp>
#include <occa/internal/core/buffer.hpp>
#include <occa/internal/core/memoryPool.hpp>
#include <occa/internal/utils/verif.hpp>
#include <occa/internal/modes.hpp>
#include "histbfs_fork2.hpp"

// A fresh Serial device per System.  occa::device("{mode:'Serial'}") spends ~0.5 ms layering the
// settings into the device properties; that layering is done once per process (by a normal public
// construction) and every System then builds its own device object from the resulting properties,
// exactly as device::setup does (newModeDevice + initial stream).
static occa::device freshSerialDevice() {
  static occa::json *tmpl = NULL;
  if (!tmpl) {
    occa::device first(std::string("{mode: 'Serial'}"));
    tmpl = new occa::json(first.properties());
  }
  occa::device d(occa::newModeDevice(*tmpl));
  d.setStream(d.createStream());
  return d;
}

enum { MALLOC = 1, WRAP, CLONE, FREE, POOL_CREATE, POOL_RESERVE, POOL_RELEASE, POOL_RESIZE, POOL_SHRINK, POOL_SETALIGN, POOL_FREE };
// malloc variants
enum { V_PLAIN = 0, V_SRC_00, V_SRC_01, V_SRC_10, V_SRC_11, V_NOSRC_11, V_WRAP, V_CLONE };
static const char *VNAME[] = {"plain", "src,uhp=0,own=0", "src,uhp=0,own=1", "src,uhp=1,own=0", "src,uhp=1,own=1", "nosrc,uhp=1,own=1", "wrap", "clone"};
static const char *VSHORT[] = {"plain", "src-copy", "src-copy-own", "uhp", "uhp-own", "uhp-nosrc", "wrap", "clone"};
static const int PLAIN_SIZES[] = {3, 8};
static const int HOST_SIZE = 5, WRAP_SIZE = 6;
static const int POOL_RES_SIZES[] = {3, 8};
static const int POOL_RESIZES[] = {0, 8, 40};
static const int POOL_ALIGNS[] = {4, 16};
static const int MAX_MEMS = 3, MAX_RES = 2;

static std::map<std::string, long> &coverMap() { static std::map<std::string, long> m; return m; }
static void cov(const std::string &k, long n = 1) { coverMap()[k] += n; }
static long &driverPid() { static long p = 0; return p; }
static void dumpCover() {
  const char *d = getenv("VP_COVER_DIR");
  if (!d) return;
  std::string path = std::string(d) + "/cov." + std::to_string(driverPid() ? driverPid() : (long) getpid());
  std::string out;
  for (auto &kv : coverMap()) out += kv.first + " " + std::to_string(kv.second) + "\n";
  int fd = open(path.c_str(), O_WRONLY | O_CREAT | O_APPEND, 0644);
  if (fd >= 0) { (void) !write(fd, out.data(), out.size()); close(fd); }
}

struct MemH {
  occa::memory mem;
  int variant;
  long bytes;
  long counted;        // bytes this allocation contributes to memoryAllocated() while live (model)
  uint8_t *host;       // harness-owned host block handed to OCCA (NULL if none)
  bool freeHost;       // harness frees `host` after releasing the memory (not when ownership was passed)
};

struct ResH {
  occa::memory mem;
  long bytes;
};

struct AllocSys {
  hb::Ctx &ctx;
  occa::device dev;
  occa::memoryPool pool;
  bool havePool;
  std::vector<MemH> ms;
  std::vector<ResH> rs;
  int uhpMode;         // -1 unknown, 0 wrapped (counts nothing), 1 counted while live
  long mObs, mTrans;   // running maxima of the model value: observed after operations / including re-allocation moments

  AllocSys(hb::Ctx &c) : ctx(c), havePool(false), uhpMode(-1), mObs(0), mTrans(0) {
    static bool reg = false;
    if (!reg) { reg = true; coverMap(); atexit(dumpCover); }   // map first: it must outlive the handler
    dev = freshSerialDevice();
  }
  ~AllocSys() { releaseAll(); dev = occa::device(); }

  void releaseMem(size_t i) {
    MemH h = ms[i];
    ms.erase(ms.begin() + i);
    uint8_t *host = h.host; bool fh = h.freeHost;
    h.mem = occa::memory();
    if (host && fh) ::free(host);
  }
  void releaseAll() {
    while (!ms.empty()) {
      uint8_t *host = ms.back().host; bool fh = ms.back().freeHost;
      ms.pop_back();
      if (host && fh) ::free(host);
    }
    rs.clear();
    pool = occa::memoryPool();
    havePool = false;
  }

  static std::string kindName(const hb::Op &o) {
    static const char *n[] = {"?", "malloc", "wrapMemory", "clone", "free", "pool.create", "pool.reserve", "pool.release", "pool.resize",
                              "pool.shrinkToFit", "pool.setAlignment", "pool.free"};
    return (o.k >= 1 && o.k <= 11) ? n[o.k] : "?";
  }
  static std::string name(const hb::Op &o) {
    std::string s = kindName(o);
    switch (o.k) {
    case MALLOC: s += "(" + std::to_string(o.a) + "," + VNAME[o.b] + ")"; break;
    case WRAP: s += "(" + std::to_string(o.a) + ")"; break;
    case CLONE: s += std::string("(") + (o.b ? "res#" : "mem#") + std::to_string(o.a) + ")"; break;
    case FREE: s += "(mem#" + std::to_string(o.a) + (o.b ? ",free())" : ",drop)"); break;
    case POOL_RESERVE: case POOL_RESIZE: case POOL_SETALIGN: s += "(" + std::to_string(o.a) + ")"; break;
    case POOL_RELEASE: s += "(res#" + std::to_string(o.a) + ")"; break;
    case POOL_FREE: s += o.a ? "(free())" : "(drop)"; break;
    }
    return s;
  }

  // ---- reference side -------------------------------------------------------------------------
  long poolBacking() const {
    occa::modeMemoryPool_t *p = pool.getModeMemoryPool();
    return (p && p->buffer) ? (long) p->buffer->size : 0;
  }
  long modelAllocated() const {
    long t = 0;
    for (auto &m : ms) t += m.counted;
    return t + poolBacking();
  }
  static long buffersConstructed() { return occa::verif::counters().constructed[occa::verif::kBuffer].load(); }

  std::vector<hb::Op> enabled() {
    std::vector<hb::Op> v;
    if ((int) ms.size() < MAX_MEMS) {
      for (int n : PLAIN_SIZES) v.push_back(hb::Op(MALLOC, n, V_PLAIN));
      for (int var = V_SRC_00; var <= V_NOSRC_11; ++var) v.push_back(hb::Op(MALLOC, HOST_SIZE, var));
      v.push_back(hb::Op(WRAP, WRAP_SIZE));
      for (int i = 0; i < (int) ms.size(); ++i) v.push_back(hb::Op(CLONE, i, 0));
      for (int i = 0; i < (int) rs.size(); ++i) v.push_back(hb::Op(CLONE, i, 1));
    }
    for (int i = 0; i < (int) ms.size(); ++i) { v.push_back(hb::Op(FREE, i, 0)); v.push_back(hb::Op(FREE, i, 1)); }
    if (!havePool) v.push_back(hb::Op(POOL_CREATE));
    else {
      if ((int) rs.size() < MAX_RES) for (int s : POOL_RES_SIZES) v.push_back(hb::Op(POOL_RESERVE, s));
      for (int i = 0; i < (int) rs.size(); ++i) v.push_back(hb::Op(POOL_RELEASE, i));
      for (int b : POOL_RESIZES) v.push_back(hb::Op(POOL_RESIZE, b));
      v.push_back(hb::Op(POOL_SHRINK));
      for (int a : POOL_ALIGNS) if ((long) pool.alignment() != a) v.push_back(hb::Op(POOL_SETALIGN, a));
      v.push_back(hb::Op(POOL_FREE, 0));
      v.push_back(hb::Op(POOL_FREE, 1));
    }
    return v;
  }

  void sortHandles() {
    std::stable_sort(ms.begin(), ms.end(), [](const MemH &x, const MemH &y) {
      if (x.variant != y.variant) return x.variant < y.variant;
      if (x.bytes != y.bytes) return x.bytes < y.bytes;
      return x.counted < y.counted;
    });
    std::stable_sort(rs.begin(), rs.end(), [](const ResH &x, const ResH &y) {
      const bool xi = x.mem.isInitialized(), yi = y.mem.isInitialized();
      if (xi != yi) return xi;
      if (!xi) return false;
      const long xo = x.mem.getModeMemory()->offset, yo = y.mem.getModeMemory()->offset;
      if (xo != yo) return xo < yo;
      return x.bytes < y.bytes;
    });
  }

  void apply(const hb::Op &o) {
    const std::string kind = kindName(o);
    std::string feature;
    const long before = (long) dev.memoryAllocated();
    const long modelBefore = modelAllocated();
    const long bufsBefore = buffersConstructed();
    const bool hadRes = !rs.empty();
    bool threw = false;
    // what the new/removed object must contribute (model), filled by the cases
    bool isUhpCreate = false;
    MemH created; created.host = NULL; created.freeHost = false; created.counted = 0; created.bytes = 0; created.variant = -1;
    try {
      switch (o.k) {
      case MALLOC: {
        feature = VSHORT[o.b];
        created.variant = o.b; created.bytes = o.a;
        occa::json props;
        const bool withSrc = (o.b >= V_SRC_00 && o.b <= V_SRC_11);
        if (o.b != V_PLAIN) {
          props["use_host_pointer"] = (o.b == V_SRC_10 || o.b == V_SRC_11 || o.b == V_NOSRC_11);
          props["own_host_pointer"] = (o.b == V_SRC_01 || o.b == V_SRC_11 || o.b == V_NOSRC_11);
        }
        if (withSrc) {
          created.host = (uint8_t *) ::malloc(o.a);
          memset(created.host, 0x5a, o.a);
          // ownership is passed only with use_host_pointer+own_host_pointer; then the harness never frees it
          created.freeHost = !(o.b == V_SRC_11);
        }
        created.mem = dev.malloc<void>(o.a, (const void *) created.host, props);
        isUhpCreate = (o.b == V_SRC_10 || o.b == V_SRC_11);
        created.counted = o.a;          // uhp-with-source: decided below from the first observation
        break;
      }
      case WRAP: {
        feature = "wrap";
        created.variant = V_WRAP; created.bytes = o.a;
        created.host = (uint8_t *) ::malloc(o.a);
        memset(created.host, 0x5b, o.a);
        created.freeHost = true;
        created.mem = dev.wrapMemory<void>((const void *) created.host, o.a);
        created.counted = 0;
        break;
      }
      case CLONE: {
        const occa::memory &src = o.b ? rs.at(o.a).mem : ms.at(o.a).mem;
        feature = o.b ? "of-reservation" : std::string("of-") + VSHORT[ms.at(o.a).variant];
        created.variant = V_CLONE;
        created.bytes = o.b ? rs.at(o.a).bytes : ms.at(o.a).bytes;
        created.mem = src.clone();
        created.counted = created.bytes;
        break;
      }
      case FREE: {
        feature = VSHORT[ms.at(o.a).variant];
        if (o.b) ms.at(o.a).mem.free();
        releaseMem(o.a);
        break;
      }
      case POOL_CREATE:
        pool = dev.createMemoryPool();
        havePool = true;
        break;
      case POOL_RESERVE: {
        feature = hadRes ? "live" : "empty";
        ResH r;
        r.bytes = o.a;
        r.mem = pool.reserve(o.a, occa::dtype::byte);
        rs.push_back(r);
        break;
      }
      case POOL_RELEASE:
        rs.erase(rs.begin() + o.a);
        break;
      case POOL_RESIZE:
        feature = hadRes ? "live" : "empty";
        pool.resize((occa::udim_t) o.a);
        break;
      case POOL_SHRINK:
        feature = hadRes ? "live" : "empty";
        pool.shrinkToFit();
        break;
      case POOL_SETALIGN:
        feature = hadRes ? "live" : "empty";
        pool.setAlignment((occa::udim_t) o.a);
        break;
      case POOL_FREE:
        feature = hadRes ? "live" : "empty";
        if (o.a) pool.free();
        pool = occa::memoryPool();
        havePool = false;
        rs.clear();          // the pool's reservations die with it (their handles are already detached)
        break;
      default:
        ctx.fail("harness:bad-op", name(o));
        return;
      }
    } catch (occa::exception &e) {
      threw = true;
      if (created.host && created.freeHost) { ::free(created.host); created.host = NULL; }
      created.variant = -1;
    }
    const long after = (long) dev.memoryAllocated();
    const std::string tag = kind + (feature.empty() ? "" : ":" + feature);
    if (created.variant >= 0 && !threw) {
      if (isUhpCreate) {
        // first observation decides how host-pointer allocations are treated in this history
        const long delta = after - before;
        if (uhpMode < 0 && (delta == 0 || delta == created.bytes)) uhpMode = (delta == created.bytes);
        created.counted = (uhpMode == 1) ? created.bytes : 0;
        if (uhpMode < 0) created.counted = 0;   // neither reading: reported below by the equality clause
      }
      ms.push_back(created);
    }
    // running maxima of the model
    const long modelAfter = modelAllocated();
    long transient = modelAfter;
    if (buffersConstructed() > bufsBefore && o.k >= POOL_RESERVE && o.k <= POOL_SETALIGN && hadRes)
      transient = std::max(transient, modelBefore + poolBacking());      // old and new backing buffer alive together
    mObs = std::max(mObs, modelAfter);
    mTrans = std::max(std::max(mTrans, transient), modelAfter);
    if (ctx.judging) {
      cov("judged-transitions");
      cov("op:" + tag);
      if (threw) cov("threw:" + tag);
      if (transient > modelAfter) cov("realloc-with-live-reservations");
      if (after != modelAfter)
        ctx.fail("allocated:" + tag, name(o) + ": memoryAllocated()=" + std::to_string(after) + " (before " + std::to_string(before) + "), model=" + std::to_string(modelAfter) + " " + table());
      const long mx = (long) dev.maxMemoryAllocated();
      if (mx != mObs && mx != mTrans)
        ctx.fail("max:" + tag, name(o) + ": maxMemoryAllocated()=" + std::to_string(mx) + ", running max of the model=" + std::to_string(mObs) +
                 (mTrans != mObs ? " (or " + std::to_string(mTrans) + " counting re-allocation moments)" : "") + " " + table());
      if (ms.size() == (size_t) MAX_MEMS) cov("state:three-memories");
      if (havePool && rs.size() == (size_t) MAX_RES) cov("state:pool-two-reservations");
      if (havePool && !ms.empty() && poolBacking() > 0) cov("state:pool-and-memory");
    }
    sortHandles();
  }

  std::string table() const {
    std::string s = "{";
    for (auto &m : ms) s += std::string(" ") + VSHORT[m.variant] + ":" + std::to_string(m.bytes) + "/" + std::to_string(m.counted);
    if (havePool) s += " pool:" + std::to_string(poolBacking());
    return s + " }";
  }

  std::string canon() {
    occa::modeDevice_t *md = dev.getModeDevice();
    std::string s = "A" + std::to_string((long) md->bytesAllocated) + " M" + std::to_string((long) md->maxBytesAllocated) +
                    " o" + std::to_string(mObs) + " t" + std::to_string(mTrans) + " u" + std::to_string(uhpMode) + " |";
    for (auto &m : ms) s += std::string(" ") + std::to_string(m.variant) + ":" + std::to_string(m.bytes) + ":" + std::to_string(m.counted) + (m.mem.isInitialized() ? "" : "!");
    s += " |";
    occa::modeMemoryPool_t *p = pool.getModeMemoryPool();
    if (havePool && p) {
      s += " a" + std::to_string((long) p->alignment) + " s" + std::to_string((long) p->size) + " r" + std::to_string((long) p->reserved) +
           " b" + (p->buffer ? std::to_string((long) p->buffer->size) : std::string("-")) + " n" + std::to_string((long) p->reservations.size());
      for (auto &r : rs)
        s += r.mem.isInitialized() ? " " + std::to_string((long) r.mem.getModeMemory()->offset) + "," + std::to_string((long) r.mem.getModeMemory()->size) : std::string(" dead");
    } else if (havePool) s += " lost";
    else s += " nopool";
    return s;
  }

  // closing oracle: once every memory object and the pool are released, memoryAllocated() is 0 again
  void finish() {
    std::string culprit;
    while (!ms.empty()) {
      const long b = (long) dev.memoryAllocated();
      const long c = ms.back().counted;
      const std::string v = VSHORT[ms.back().variant];
      releaseMem(ms.size() - 1);
      if (culprit.empty() && b - (long) dev.memoryAllocated() != c) culprit = v;
    }
    {
      const long b = (long) dev.memoryAllocated();
      const long c = poolBacking();
      const bool had = havePool;
      releaseAll();
      if (culprit.empty() && had && b - (long) dev.memoryAllocated() != c) culprit = "pool";
    }
    const long left = (long) dev.memoryAllocated();
    if (left != 0)
      ctx.fail("nonzero-after-release:" + (culprit.empty() ? std::string("?") : culprit),
               "every memory object and the pool released, but memoryAllocated()=" + std::to_string(left) + " (first release that did not give back its bytes: " + culprit + ")");
    cov("finish");
  }
};

int main(int argc, char **argv) {
  // crash-contained driver: every state expansion runs in a forked child, which appends its situation
  // counters to the driver's file before it exits
  driverPid() = (long) getpid();
  coverMap();
  { occa::device warm = freshSerialDevice(); }   // library start-up and the property template happen once, before the forks
  hbf2::childExitHook() = dumpCover;
  return hbf2::main<AllocSys>(argc, argv, 120);
}
