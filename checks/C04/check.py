#!/usr/bin/env python3
"""C04: memory-pool accounting matches the live reservations (E1 histbfs).
Same exploration as C03 (checks/C03/harness.cpp), second oracle (VP_ORACLE=C04)."""
import os, sys
sys.path.insert(0, os.path.join(os.path.dirname(os.path.dirname(os.path.abspath(__file__))), "C03"))
import poolcheck
from vlib.core import run_main
run_main(lambda: poolcheck.run("C04"))
