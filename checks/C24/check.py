#!/usr/bin/env python3
"""C24: JSON dump and parse round-trip every value; dumping is deterministic (E2 bounded-exhaustive).

Families of trees (terms, see harness.cpp), all generated exhaustively, simplest first:
  leaf     every leaf value (29 strings, 65 numbers of every primitive type, true/false/null, [] and {})
           in every context of depth <= 3 (top level, array slot 0/1, object value, nested)
  key      every key (28 strings) in every object context of depth <= 3, and all unordered key pairs
  shape    ALL trees of depth <= 2 (quick) / <= 3 (thorough) and width <= 2 over a reduced leaf / key alphabet
Every tree is dumped at indent 0,1,2,4 and -1 (= default), parsed back and compared (operator== and an explicit
structural comparison), re-dumped and re-hashed, and built through two builder paths.
"""
import os, sys, time
sys.path.insert(0, os.path.dirname(os.path.dirname(os.path.dirname(os.path.abspath(__file__)))))
from vlib.core import Check, san_env, load_replay, sh
from vlib.batch import run_items

HERE = os.path.dirname(os.path.abspath(__file__))


def rerun_timeouts(results, items, cmd, workdir, env):
    """A driver that exceeds its wall-clock limit on a loaded machine is not an observation about the item:
    re-run such an item alone with a generous limit; only a reproducible timeout stays a crash."""
    n = 0
    for r in results:
        if r.crash == "timeout":
            n += 1
            res, _ = run_items(cmd, [items[r.index]], os.path.join(workdir, "retry"), env, chunk=1, workers=1, per_item_timeout=300)
            if res and not res[0].crash:
                r.lines, r.crash, r.stderr = res[0].lines, None, ""
    return n


def fast_env(scratch, extra=None):
    """san_env with a small ASan quarantine: the default 256 MB quarantine makes every allocation of a long-running
    driver touch fresh pages (measured: 3.4x wall, 5x system time); 8 MB still catches use-after-free of recent frees."""
    env = san_env(scratch, extra)
    env["ASAN_OPTIONS"] += ":quarantine_size_mb=8"
    return env


def tables(exe, env):
    s = sh([exe, "strings"], env=env).stdout.strip().split("\n")
    n = sh([exe, "numbers"], env=env).stdout.strip().split("\n")
    strings = [ln.split(" ", 1)[1] for ln in s]
    numbers = [tuple(ln.split(" ")[1:3]) for ln in n]
    return strings, numbers


def arr(*kids):
    return "[" + "".join(kids) + "]"


def obj(*pairs):
    # keys are kept in generation order; the implementation sorts them (std::map)
    return "{" + "".join("k%d;%s" % (k, v) for k, v in pairs) + "}"


def gen_leaf_family(strings, numbers):
    leaves = ["z", "T", "F", "[]", "{}"] + ["s%d;" % i for i in range(len(strings))] + ["n%d;" % i for i in range(len(numbers))]
    one = "n0;"
    A, B = 0, 12          # keys "a", "b"
    out = []
    for L in leaves:
        out += [L, arr(L), arr(L, one), arr(one, L), arr(L, L), obj((A, L)), obj((A, L), (B, one)), obj((A, one), (B, L)),
                arr(arr(L)), obj((A, obj((A, L)))), arr(obj((A, L))), obj((A, arr(L))),
                arr(arr(arr(L))), obj((A, obj((B, obj((A, L)))))), arr(obj((A, arr(one, L)))), obj((A, arr(obj((B, L)), "z")))]
    return out


def gen_key_family(strings):
    keys = [i for i, cls in enumerate(strings) if cls != "nul"]
    one = "n0;"
    A = 0
    out = []
    for K in keys:
        out += [obj((K, one)), obj((K, "z")), obj((K, "s%d;" % K)), obj((K, "{}")), obj((K, arr(one))), obj((K, obj((K, one)))),
                arr(obj((K, one))), arr("z", obj((K, one))), obj((A, obj((K, one)))) if K != A else obj((12, obj((K, one)))),
                obj((K, obj((A, obj((K, "s1;")))))), arr(arr(obj((K, "T"))))]
    for i, K1 in enumerate(keys):
        for K2 in keys[i + 1:]:
            out.append(obj((K1, one), (K2, "s0;")))
    return out


def gen_shapes(leaves, keys, depth):
    """All trees of depth <= `depth`, width <= 2 (arrays of 0..2 elements, objects of 0..2 distinct keys)."""
    level = list(leaves)                       # depth 0: leaves only
    for _ in range(depth):
        nxt = list(leaves)
        nxt.append("[]")
        for a in level:
            nxt.append(arr(a))
        for a in level:
            for b in level:
                nxt.append(arr(a, b))
        nxt.append("{}")
        for k in keys:
            for a in level:
                nxt.append(obj((k, a)))
        for i, k1 in enumerate(keys):
            for k2 in keys[i + 1:]:
                for a in level:
                    for b in level:
                        nxt.append(obj((k1, a), (k2, b)))
        level = nxt
    return level


def main():
    c = Check("C24", "exploration")
    c.build("asan")
    exe = c.compile(os.path.join(HERE, "harness.cpp"), "harness")
    env = fast_env(c.scratch)
    if c.args.replay:
        r = load_replay(c.args.replay)
        p = sh([exe, "one", r["replay"]["term"]], env=env)
        print(p.stdout)
        bad = any(ln.startswith("F ") for ln in p.stdout.split("\n")) or p.returncode != 0
        print("replay:", "VIOLATION" if bad else "ok")
        sys.exit(1 if bad else 0)

    strings, numbers = tables(exe, env)
    sidx = {cls: i for i, cls in enumerate(strings)}
    fam = []
    fam.append(("leaf", gen_leaf_family(strings, numbers)))
    fam.append(("key", gen_key_family(strings)))
    if c.tier == "quick":
        # leaves: null, true, int32 1, double 0.1, "a", "\"" ; keys: a, "          (19 510 trees)
        fam.append(("shape-d2", gen_shapes(["z", "T", "n0;", "n1;", "s0;", "s1;"], [sidx["plain"], sidx["quote"]], 2)))
    else:
        # leaves: null, true, int32 1, double 0.1, "a", "\"", "\\" ; keys: a, ", \     (218 470 trees)
        fam.append(("shape-d2", gen_shapes(["z", "T", "n0;", "n1;", "s0;", "s1;", "s2;"], [sidx["plain"], sidx["quote"], sidx["backslash"]], 2)))
        # depth 3: leaves int32 1, "\"" ; keys a, "                               (about 1.0e6 trees)
        fam.append(("shape-d3", gen_shapes(["n0;", "s1;"], [sidx["plain"], sidx["quote"]], 3)))
    items, seen, counts = [], set(), {}
    for name, terms in fam:
        n0 = len(items)
        for t in terms:
            if t not in seen:
                seen.add(t)
                items.append(t)
        counts[name] = len(items) - n0
    # The work of a tier is a fixed, bounded set sized by CPU time (quick: 4-7 CPU-minutes = 15-25 s on 16 idle cores).
    # The wall-clock deadline is only a safety net for a heavily loaded machine; it starts after the (possibly long) build.
    deadline = time.time() + c.budget(600, 3000)
    results, complete = run_items([exe], items, c.scratch, env, chunk=max(200, len(items) // 32 + 1), per_item_timeout=0.5, deadline=deadline)
    c.coverage["driver_timeouts_retried"] = rerun_timeouts(results, items, [exe], c.scratch, env)
    digests = set()
    answered = 0
    for r in results:
        term = items[r.index]
        got_digest = False
        for ln in r.lines:
            if ln.startswith("F "):
                sig, _, detail = ln[2:].partition("\t")
                if sig.startswith("harness:"):
                    c.harness_error("harness rejected term %s: %s" % (term, ln))
                c.violation(sig, "term %s :: %s" % (term, detail), {"term": term})
            elif ln.startswith("D "):
                digests.add(ln[2:])
                got_digest = True
        if r.crash:
            c.violation("crash:%s" % ("asan" if "AddressSanitizer" in r.stderr else r.crash.replace(":", "")),
                        "term %s :: %s :: %s" % (term, r.crash, r.stderr[-700:]), {"term": term})
        elif got_digest:
            answered += 1
    if complete:
        c.vacuity(len(results) == len(items), "every term produced a result record (%d of %d)" % (len(results), len(items)))
        c.vacuity(answered + sum(1 for r in results if r.crash) == len(items), "every term was evaluated")
        c.vacuity(len(digests) >= 0.9 * len(items), "distinct dump texts: %d for %d terms" % (len(digests), len(items)))
    c.vacuity(len(strings) >= 25 and len(numbers) >= 60, "string / number tables present")
    c.set_exploration(
        evaluations=len(results) * 5,
        distinct_nontrivial=len(digests),
        rule="bounded-exhaustive term generation (leaf-in-context, key-in-context, all shapes of bounded depth/width), each term dumped at 5 indentations, parsed back, compared, re-dumped, re-hashed; two builder paths",
        samples=[items[0], items[len(items) // 3], items[len(items) // 2], items[-1]],
        exhaustive=bool(complete),
        terms=len(items), per_family=counts, strings=len(strings), numbers=len(numbers), indentations=[0, 1, 2, 4, -1],
        alphabet="strings/keys: %s; numbers: %d values over bool,int8..uint64,float,double (0,1,-1,min,max,boundaries,0.1,1e300,denormals,-0.0)" % (",".join(strings), len(numbers)),
        oracle="parse(dump(v,indent)) == v (occa operator== AND structural comparison: kind, string bytes, key set, sizes, number class and mathematical value; integer width may change), dump(parse(dump(v))) == dump(v) and equal hash, dump/hash deterministic, two builder paths give ==, equal text, equal hash",
    )
    c.assumptions += ["NaN and infinities are excluded (not representable in JSON text)",
                      "uninitialised (none_) json values are not JSON values and are excluded",
                      "a re-read integer may have a different width than the original (JSON text carries no width); its mathematical value, signedness-independent, must be the same; floating types must keep their width and bit pattern",
                      "object keys do not contain a NUL byte (json::set takes a C string); string values do"]
    c.finish()


from vlib.core import run_main
run_main(main)
