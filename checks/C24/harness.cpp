// C24: JSON dump and parse round-trip every value; dumping is deterministic.
//
// Batch driver (vlib.batch protocol).  An item is a *term* describing one JSON tree:
//   z null | T true | F false | s<i>; string i | n<i>; number i | [ term* ] | { (k<i>; term)* }
// String / key / number tables live here (modes `strings`, `numbers` print them for check.py).
// For every item the tree is built twice through different occa::json builder paths, dumped at
// every indentation, parsed back and compared:
//   reparse-throws      parse(dump(v)) raised an exception
//   reparse-neq         occa::json::operator== says parse(dump(v)) != v
//   reparse-struct      explicit structural comparison differs (kind, string bytes, key set, sizes;
//                       numbers: bool-ness, integer/floating class, mathematical value)
//   redump-text         dump(parse(dump(v))) differs from dump(v)   (equal values => equal text)
//   redump-hash         hash(parse(dump(v))) differs from hash(v)     (equal values => equal hashes)
//   dump-deterministic  two dumps of the same object / of a copy differ
//   builders-neq/-text/-hash   the same value built through two builder paths is not ==, or dumps /
//                       hashes differently
// A failing tree is reduced to the smallest failing sub-term (child, single key, leaf); the class of
// that sub-term is the feature part of the signature.
#include <cfloat>
#include <climits>
#include <cmath>
#include <cstdint>
#include <cstdio>
#include <cstdlib>
#include <cstring>
#include <fstream>
#include <limits>
#include <map>
#include <set>
#include <sstream>
#include <string>
#include <vector>

#include <occa/types/json.hpp>
#include <occa/utils/exception.hpp>

//---[ tables ]-------------------------------------------------------------------------------------
struct Str { const char *cls; std::string bytes; };
static std::vector<Str> &strings() {
  static std::vector<Str> t;
  if (t.empty()) {
    t.push_back({"plain", "a"});
    t.push_back({"quote", "\""});
    t.push_back({"backslash", "\\"});
    t.push_back({"empty", ""});
    t.push_back({"backslash-quote", "\\\""});
    t.push_back({"slash", "a/b"});
    t.push_back({"newline", "\n"});
    t.push_back({"tab", "\t"});
    t.push_back({"utf8", "\xc3\xa9"});
    t.push_back({"colon", ":"});
    t.push_back({"brace", "{"});
    t.push_back({"byte80", "\x80"});
    t.push_back({"plain2", "b"});
    t.push_back({"single-quote", "'"});
    t.push_back({"carriage-return", "\r"});
    t.push_back({"backspace", "\b"});
    t.push_back({"formfeed", "\f"});
    t.push_back({"ctrl01", "\x01"});
    t.push_back({"byteff", "\xff"});
    t.push_back({"space", " "});
    t.push_back({"comma-bracket", ",]"});
    t.push_back({"comment", "//"});
    t.push_back({"backslash-n-text", "\\n"});
    t.push_back({"backslash-u-text", "\\u0041"});
    t.push_back({"quote-in-text", "a\"b"});
    t.push_back({"trailing-backslash", "ab\\"});
    t.push_back({"number-text", "1"});
    t.push_back({"true-text", "true"});
    t.push_back({"nul", std::string("a\0b", 3)});     // string values only (a key cannot be set with a NUL)
  }
  return t;
}

struct Num {
  std::string type, cls;
  occa::json viaCtor, viaAssign;
  bool isBool, isFloat, negative;
  uint64_t magnitude;       // integers: |value|
  double fvalue;            // floating: value (float widened exactly)
  int fbytes;               // 4 / 8 for floating
};
static std::vector<Num> numTable;

template <class T>
static void addInt(const char *type, const char *cls, T v) {
  Num n;
  n.type = type; n.cls = cls;
  n.viaCtor = occa::json(v);
  occa::json j; j = v; n.viaAssign = j;
  n.isBool = false; n.isFloat = false;
  n.negative = (v < 0);
  n.magnitude = n.negative ? (uint64_t) 0 - (uint64_t) (int64_t) v : (uint64_t) v;
  n.fvalue = 0; n.fbytes = 0;
  numTable.push_back(n);
}
template <class T>
static void addFloat(const char *type, const char *cls, T v) {
  Num n;
  n.type = type; n.cls = cls;
  n.viaCtor = occa::json(v);
  occa::json j; j = v; n.viaAssign = j;
  n.isBool = false; n.isFloat = true; n.negative = std::signbit(v); n.magnitude = 0;
  n.fvalue = (double) v; n.fbytes = (int) sizeof(T);
  numTable.push_back(n);
}
static std::vector<Num> &numbers() {
  if (numTable.empty()) {
    addInt<int32_t>("int32", "one", 1);
    addFloat<double>("double", "tenth", 0.1);
    addInt<int8_t>("int8", "zero", 0);   addInt<int8_t>("int8", "one", 1);   addInt<int8_t>("int8", "minus-one", -1);
    addInt<int8_t>("int8", "min", INT8_MIN);   addInt<int8_t>("int8", "max", INT8_MAX);
    addInt<uint8_t>("uint8", "zero", 0); addInt<uint8_t>("uint8", "one", 1); addInt<uint8_t>("uint8", "max", UINT8_MAX);
    addInt<int16_t>("int16", "zero", 0); addInt<int16_t>("int16", "one", 1); addInt<int16_t>("int16", "minus-one", -1);
    addInt<int16_t>("int16", "min", INT16_MIN); addInt<int16_t>("int16", "max", INT16_MAX);
    addInt<uint16_t>("uint16", "zero", 0); addInt<uint16_t>("uint16", "one", 1); addInt<uint16_t>("uint16", "max", UINT16_MAX);
    addInt<int32_t>("int32", "zero", 0); addInt<int32_t>("int32", "minus-one", -1);
    addInt<int32_t>("int32", "min", INT32_MIN); addInt<int32_t>("int32", "max", INT32_MAX);
    addInt<uint32_t>("uint32", "zero", 0); addInt<uint32_t>("uint32", "one", 1);
    addInt<uint32_t>("uint32", "int32-max", (uint32_t) INT32_MAX);
    addInt<uint32_t>("uint32", "above-int32-max", (uint32_t) INT32_MAX + 1u);
    addInt<uint32_t>("uint32", "above-int32-max", UINT32_MAX);
    addInt<int64_t>("int64", "zero", 0); addInt<int64_t>("int64", "one", 1); addInt<int64_t>("int64", "minus-one", -1);
    addInt<int64_t>("int64", "min", INT64_MIN); addInt<int64_t>("int64", "max", INT64_MAX);
    addInt<int64_t>("int64", "above-int32-max", (int64_t) INT32_MAX + 1);
    addInt<int64_t>("int64", "below-int32-min", (int64_t) INT32_MIN - 1);
    addInt<uint64_t>("uint64", "zero", 0); addInt<uint64_t>("uint64", "one", 1);
    addInt<uint64_t>("uint64", "above-int32-max", (uint64_t) UINT32_MAX + 1);
    addInt<uint64_t>("uint64", "int64-max", (uint64_t) INT64_MAX);
    addInt<uint64_t>("uint64", "above-int64-max", (uint64_t) INT64_MAX + 1u);
    addInt<uint64_t>("uint64", "above-int64-max", UINT64_MAX);
    addFloat<float>("float", "zero", 0.0f); addFloat<float>("float", "one", 1.0f); addFloat<float>("float", "minus-one", -1.0f);
    addFloat<float>("float", "tenth", 0.1f); addFloat<float>("float", "max", FLT_MAX); addFloat<float>("float", "lowest", -FLT_MAX);
    addFloat<float>("float", "min-normal", FLT_MIN); addFloat<float>("float", "denorm-min", std::numeric_limits<float>::denorm_min());
    addFloat<float>("float", "minus-zero", -0.0f); addFloat<float>("float", "third", 1.0f / 3.0f);
    addFloat<float>("float", "large-integer", 16777216.0f);
    addFloat<double>("double", "zero", 0.0); addFloat<double>("double", "one", 1.0); addFloat<double>("double", "minus-one", -1.0);
    addFloat<double>("double", "1e300", 1e300); addFloat<double>("double", "max", DBL_MAX); addFloat<double>("double", "lowest", -DBL_MAX);
    addFloat<double>("double", "min-normal", DBL_MIN); addFloat<double>("double", "denorm-min", std::numeric_limits<double>::denorm_min());
    addFloat<double>("double", "minus-zero", -0.0); addFloat<double>("double", "third", 1.0 / 3.0);
    addFloat<double>("double", "large-integer", 9007199254740993.0);
    // shortest-round-trip stress: just above a power of ten the decimal grid of N significant digits is
    // coarsest relative to the binary grid, so these values need max_digits10 (9 / 17) digits to survive
    // dump -> parse (added after a seeded change that printed floats with 8 digits went unnoticed)
    for (int k = -37; k <= 38; ++k) {
      float v = (float) std::pow(10.0, k);
      if ((double) v < std::pow(10.0, k)) v = std::nextafterf(v, INFINITY);
      for (int i = 0; i < 4; ++i) {
        addFloat<float>("float", "pow10-neighbour", v);
        v = std::nextafterf(v, INFINITY);
      }
    }
    for (int k = -300; k <= 300; k += 20) {
      double v = std::pow(10.0, k);
      for (int i = 0; i < 2; ++i) {
        v = std::nextafter(v, (double) INFINITY);
        addFloat<double>("double", "pow10-neighbour", v);
      }
    }
  }
  return numTable;
}

//---[ terms ]--------------------------------------------------------------------------------------
struct Node {
  char kind;                 // z T F s n [ {
  int idx;
  std::vector<Node> kids;
  std::vector<int> keys;
  Node() : kind('z'), idx(0) {}
};

static bool parseTerm(const char *&c, Node &n) {
  n = Node();
  n.kind = *c;
  switch (*c) {
  case 'z': case 'T': case 'F': ++c; return true;
  case 's': case 'n': {
    ++c;
    n.idx = (int) strtol(c, (char**) &c, 10);
    if (*c != ';') return false;
    ++c;
    if (n.kind == 's' && (n.idx < 0 || n.idx >= (int) strings().size())) return false;
    if (n.kind == 'n' && (n.idx < 0 || n.idx >= (int) numbers().size())) return false;
    return true;
  }
  case '[': {
    ++c;
    while (*c && *c != ']') {
      Node k;
      if (!parseTerm(c, k)) return false;
      n.kids.push_back(k);
    }
    if (*c != ']') return false;
    ++c;
    return true;
  }
  case '{': {
    ++c;
    while (*c && *c != '}') {
      if (*c != 'k') return false;
      ++c;
      int ki = (int) strtol(c, (char**) &c, 10);
      if (*c != ';' || ki < 0 || ki >= (int) strings().size()) return false;
      ++c;
      Node k;
      if (!parseTerm(c, k)) return false;
      n.keys.push_back(ki);
      n.kids.push_back(k);
    }
    if (*c != '}') return false;
    ++c;
    return true;
  }}
  return false;
}

static std::string termOf(const Node &n) {
  std::string s(1, n.kind);
  if (n.kind == 's' || n.kind == 'n') return s + std::to_string(n.idx) + ";";
  if (n.kind == '[') {
    for (auto &k : n.kids) s += termOf(k);
    return s + "]";
  }
  if (n.kind == '{') {
    for (size_t i = 0; i < n.kids.size(); ++i) s += "k" + std::to_string(n.keys[i]) + ";" + termOf(n.kids[i]);
    return s + "}";
  }
  return s;
}

// Builder path A: constructors taking finished containers.  Path B: incremental API
// (asArray/+=, asObject/set, operator= for scalars).
static occa::json build(const Node &n, const bool pathB) {
  switch (n.kind) {
  case 'z': { if (pathB) { occa::json j; j.asNull(); return j; } return occa::json(occa::json::null_); }
  case 'T': { if (pathB) { occa::json j; j = true; return j; } return occa::json(true); }
  case 'F': { if (pathB) { occa::json j; j = false; return j; } return occa::json(false); }
  case 's': {
    const std::string &b = strings()[n.idx].bytes;
    if (pathB) { occa::json j; j = b; return j; }
    return occa::json(b);
  }
  case 'n': return pathB ? numbers()[n.idx].viaAssign : numbers()[n.idx].viaCtor;
  case '[': {
    if (pathB) {
      occa::json j;
      j.asArray();
      for (auto &k : n.kids) j += build(k, true);
      return j;
    }
    occa::jsonArray vec;
    for (auto &k : n.kids) vec.push_back(build(k, false));
    return occa::json(vec);
  }
  case '{': {
    if (pathB) {
      occa::json j;
      j.asObject();
      for (size_t i = 0; i < n.kids.size(); ++i) j.set(strings()[n.keys[i]].bytes, build(n.kids[i], true));
      return j;
    }
    occa::jsonObject obj;
    for (size_t i = 0; i < n.kids.size(); ++i) obj[strings()[n.keys[i]].bytes] = build(n.kids[i], false);
    return occa::json(obj);
  }}
  return occa::json();
}

//---[ reference comparison ]-----------------------------------------------------------------------
static std::string show(const std::string &s) {
  std::string o;
  for (unsigned char ch : s) {
    if (ch < 0x20 || ch >= 0x7f || ch == '\\') { char b[8]; snprintf(b, sizeof(b), "\\x%02x", ch); o += b; }
    else o += (char) ch;
  }
  return o;
}

// Explicit structural comparison of the term against a parsed value.  Returns "" or a description.
static std::string structDiff(const Node &n, const occa::json &w, const std::string &path) {
  switch (n.kind) {
  case 'z': return w.isNull() ? "" : path + ": expected null, type=" + std::to_string((int) w.type);
  case 'T': case 'F': {
    if (!w.isNumber() || !w.isBool()) return path + ": expected boolean";
    return (w.boolean() == (n.kind == 'T')) ? "" : path + ": boolean value differs";
  }
  case 's': {
    if (!w.isString()) return path + ": expected string, type=" + std::to_string((int) w.type);
    const std::string &b = strings()[n.idx].bytes;
    return (w.string() == b) ? "" : path + ": string bytes differ: expected '" + show(b) + "' got '" + show(w.string()) + "'";
  }
  case 'n': {
    if (!w.isNumber()) return path + ": expected number, type=" + std::to_string((int) w.type);
    const Num &m = numbers()[n.idx];
    const occa::primitive &p = w.number();
    if (p.isBool()) return path + ": number became a boolean";
    const bool pf = (p.type & occa::primitiveType::isFloat);
    if (m.isFloat != pf) return path + ": " + m.type + " re-read as " + (pf ? "floating" : "integer") + " type";
    if (m.isFloat) {
      // floating: same width (the 'f' suffix carries it) and bit-identical value
      const int pbytes = (p.type & occa::primitiveType::float_) ? 4 : 8;
      if (pbytes != m.fbytes) return path + ": " + m.type + " re-read with " + std::to_string(pbytes) + " bytes";
      const double got = (pbytes == 4) ? (double) p.value.float_ : p.value.double_;
      if (memcmp(&got, &m.fvalue, sizeof(double)) != 0) {
        char b[128]; snprintf(b, sizeof(b), "expected %.17g got %.17g", m.fvalue, got);
        return path + ": " + m.type + " value differs: " + b;
      }
      return "";
    }
    if (!(p.type & occa::primitiveType::isInteger)) return path + ": not an integer type";
    // integers: the width may change (JSON text carries no width) but the mathematical value may not
    bool neg; uint64_t mag;
    if (p.type & occa::primitiveType::isUnsigned) {
      neg = false; mag = p.to<uint64_t>();
    } else {
      const int64_t v = p.to<int64_t>();
      neg = v < 0; mag = neg ? (uint64_t) 0 - (uint64_t) v : (uint64_t) v;
    }
    if (neg != m.negative || mag != m.magnitude) {
      return path + ": " + m.type + " value differs: expected " + (m.negative ? "-" : "") + std::to_string(m.magnitude)
        + " got " + (neg ? "-" : "") + std::to_string(mag);
    }
    return "";
  }
  case '[': {
    if (!w.isArray()) return path + ": expected array, type=" + std::to_string((int) w.type);
    if (w.array().size() != n.kids.size()) return path + ": array size " + std::to_string(w.array().size()) + " expected " + std::to_string(n.kids.size());
    for (size_t i = 0; i < n.kids.size(); ++i) {
      std::string d = structDiff(n.kids[i], w.array()[i], path + "[" + std::to_string(i) + "]");
      if (d.size()) return d;
    }
    return "";
  }
  case '{': {
    if (!w.isObject()) return path + ": expected object, type=" + std::to_string((int) w.type);
    if (w.object().size() != n.kids.size()) return path + ": object size " + std::to_string(w.object().size()) + " expected " + std::to_string(n.kids.size());
    for (size_t i = 0; i < n.kids.size(); ++i) {
      const std::string &key = strings()[n.keys[i]].bytes;
      occa::jsonObject::const_iterator it = w.object().find(key);
      if (it == w.object().end()) return path + ": key '" + show(key) + "' missing after the round trip";
      std::string d = structDiff(n.kids[i], it->second, path + "/" + show(key));
      if (d.size()) return d;
    }
    return "";
  }}
  return "bad node";
}

//---[ oracle ]-------------------------------------------------------------------------------------
static const int INDENTS[] = {0, 1, 2, 4, -1};
static const int NINDENTS = 5;

typedef std::map<std::string, std::string> Fails;    // clause -> first detail

static uint32_t fnv(const std::string &s, uint32_t h = 2166136261u) {
  for (unsigned char ch : s) { h ^= ch; h *= 16777619u; }
  return h;
}

static void note(Fails &f, const std::string &clause, const std::string &detail) {
  if (!f.count(clause)) f[clause] = detail;
}

static Fails checkTree(const Node &n, uint32_t *digest = NULL) {
  Fails f;
  const occa::json a = build(n, false);
  const occa::json b = build(n, true);
  const occa::hash_t ha = a.hash();
  if (!(a == b)) note(f, "builders-neq", "the value built with container constructors != the value built with set/+=/=");
  if (ha != b.hash()) note(f, "builders-hash", "equal values built through two builder paths hash differently");
  {
    std::string d = structDiff(n, a, "");
    if (d.size()) note(f, "harness-build", d);        // the builder itself is wrong: harness error
    d = structDiff(n, b, "");
    if (d.size()) note(f, "harness-build", d);
  }
  if (a.hash() != ha) note(f, "dump-deterministic", "hash() called twice differs");
  {
    const occa::json copy(a);
    occa::json assigned;
    assigned = a;
    if (!(copy == a) || !(assigned == a)) note(f, "builders-neq", "a copy is not == the original");
    if (copy.hash() != ha || assigned.hash() != ha) note(f, "dump-deterministic", "hash of a copy differs");
  }
  for (int ii = 0; ii < NINDENTS; ++ii) {
    const int indent = INDENTS[ii];
    const std::string tag = " [indent " + std::to_string(indent) + "]";
    const std::string text = a.dump(indent);
    if (digest) *digest = fnv(text, *digest);
    if (a.dump(indent) != text) note(f, "dump-deterministic", "two dumps of one object differ" + tag);
    if (b.dump(indent) != text) note(f, "builders-text", "equal values built through two builder paths dump differently" + tag + ": " + show(text) + " vs " + show(b.dump(indent)));
    if (indent == -1 && text != a.dump(2)) note(f, "dump-deterministic", "dump(-1) differs from the default dump(2)");
    occa::json w;
    bool parsed = false;
    try {
      w = occa::json::parse(text);
      parsed = true;
    } catch (occa::exception &e) {
      note(f, "reparse-throws", "dump" + tag + " = " + show(text) + " ; parse raised: " + show(e.message));
    }
    if (!parsed) continue;
    if (!(w == a)) note(f, "reparse-neq", "dump" + tag + " = " + show(text) + " ; parse(dump) != original by operator== ; parsed dumps as " + show(w.dump(0)));
    {
      std::string d = structDiff(n, w, "");
      if (d.size()) note(f, "reparse-struct", "dump" + tag + " = " + show(text) + " ; " + d);
    }
    if (w.dump(indent) != text) note(f, "redump-text", "dump" + tag + " = " + show(text) + " ; dump(parse(dump)) = " + show(w.dump(indent)));
    if (w.hash() != ha) note(f, "redump-hash", "hash(parse(dump))" + tag + " differs from hash(original); text " + show(text));
  }
  return f;
}

static std::string leafClass(const Node &n) {
  switch (n.kind) {
  case 'z': return "null";
  case 'T': case 'F': return "bool";
  case 's': return std::string("string:") + strings()[n.idx].cls;
  case 'n': return "number:" + numbers()[n.idx].type + ":" + numbers()[n.idx].cls;
  case '[': return "array:size" + std::to_string(n.kids.size());
  case '{': return "object:size" + std::to_string(n.kids.size());
  }
  return "?";
}

// Smallest sub-term that still fails `clause`; returns its class.
static std::string blame(const Node &n, const std::string &clause, std::string &minimalTerm) {
  for (const Node &k : n.kids) {
    Fails fk = checkTree(k);
    if (fk.count(clause)) return blame(k, clause, minimalTerm);
  }
  if (n.kind == '{') {
    for (size_t i = 0; i < n.keys.size(); ++i) {
      Node one;
      one.kind = '{';
      one.keys.push_back(n.keys[i]);
      one.kids.push_back(Node());
      if (checkTree(one).count(clause)) {
        minimalTerm = termOf(one);
        return std::string("object-key:") + strings()[n.keys[i]].cls;
      }
    }
  }
  minimalTerm = termOf(n);
  return leafClass(n);
}

static void runItem(const std::string &line, bool verbose) {
  const char *c = line.c_str();
  Node n;
  if (!parseTerm(c, n) || *c != '\0') {
    printf("F harness:bad-item\t%s\n", line.c_str());
    return;
  }
  uint32_t digest = 2166136261u;
  Fails f = checkTree(n, &digest);
  if (verbose) {
    const occa::json a = build(n, false);
    for (int ii = 0; ii < NINDENTS; ++ii) printf("dump(%d) = %s\n", INDENTS[ii], show(a.dump(INDENTS[ii])).c_str());
  }
  for (auto &kv : f) {
    std::string minimal;
    std::string feature = (kv.first == "harness-build") ? "" : blame(n, kv.first, minimal);
    std::string d = kv.second;
    for (auto &ch : d) if (ch == '\n' || ch == '\t' || ch == '\r') ch = ' ';
    if (kv.first == "harness-build") printf("F harness:build\t%s\n", d.c_str());
    else printf("F %s:%s\tminimal failing term %s :: %s\n", kv.first.c_str(), feature.c_str(), minimal.c_str(), d.c_str());
  }
  printf("D %08x\n", digest);
}

int main(int argc, char **argv) {
  if (argc < 2) return 2;
  setvbuf(stdout, NULL, _IOLBF, 0);
  const std::string mode = argv[1];
  if (mode == "strings") {
    for (size_t i = 0; i < strings().size(); ++i) printf("%zu %s\n", i, strings()[i].cls);
    return 0;
  }
  if (mode == "numbers") {
    for (size_t i = 0; i < numbers().size(); ++i)
      printf("%zu %s %s %s\n", i, numbers()[i].type.c_str(), numbers()[i].cls.c_str(), numbers()[i].viaCtor.dump(0).c_str());
    return 0;
  }
  if (mode == "one") {
    runItem(argv[2], true);
    return 0;
  }
  std::ifstream in(argv[1]);
  std::string line;
  long idx = 0;
  while (std::getline(in, line)) {
    printf("BEGIN %ld\n", idx);
    runItem(line, false);
    printf("END %ld\n", idx);
    ++idx;
  }
  return 0;
}
