#!/usr/bin/env python3
"""C21: OpenMP kernels are deterministic for every thread count and schedule, and race free.

Engine ompx (engines/ompx): the OpenMP translation of every C20 program is compiled with
`g++ -O0 -fopenmp -fsanitize=thread -c`; ompx supplies GOMP_parallel/GOMP_critical_*/omp_get_*/__tsan_* itself,
runs the outlined regions on T virtual threads, T in {1,2,3,n_iter}, enumerates all T! whole-thread orders and all
schedules with <= 2 preemptions at atomic / critical operations, and monitors conflicting accesses.
Oracle: no data race (two accesses of different virtual threads to overlapping bytes in one parallel region, one a
write, not both atomic, not both inside omp critical) and the outputs of every explored schedule equal the outputs of
the Serial translation.
"""
import os, sys, threading, time
from concurrent.futures import ThreadPoolExecutor

sys.path.insert(0, os.path.dirname(os.path.dirname(os.path.dirname(os.path.abspath(__file__)))))
sys.path.insert(0, os.path.dirname(os.path.abspath(__file__)))
from vlib.core import Check, san_env, load_replay, NCPU
import omph as hs
import ompx
import progs as pg
h20 = hs.h20


def attribute(feats, clause, single_fail):
    for f in feats:
        if (clause, f) in single_fail:
            return f
    if (clause, "base") in single_fail:
        return "base"
    return "+".join(feats) if feats else "base"


def build_all(c, programs, env, log):
    xlate = h20.compile_xlate(c)
    xl = h20.translate_all(xlate, programs, hs.MODES, os.path.join(c.scratch, "xl"), env)
    log("translated %d programs (Serial, OpenMP)" % len(programs))
    b = hs.Builder(os.path.join(c.scratch, "build"))
    b.prepare()
    return xl, b


def jit_crosscheck(c, programs, env, log, deadline):
    """thorough tier, supporting evidence only: the real JIT path with libgomp and real threads, OMP_NUM_THREADS 1..16
    x OMP_SCHEDULE {unset, static/dynamic x chunk 1,2,7}; outputs compared with the Serial kernel's."""
    from vlib import batch
    jit = c.compile(os.path.join(os.path.dirname(os.path.abspath(__file__)), "jit.cpp"), "jit", variant=h20.XLATE_VARIANT, opt="-O1")
    wd = os.path.join(c.scratch, "jit")
    os.makedirs(wd, exist_ok=True)
    items = []
    for p in programs:
        okl = h20.write(os.path.join(wd, p.name + ".okl"), p.okl)
        spec = []
        for a in p.args:
            if a.kind == "int":
                spec.append("i:" + a.name)
            elif a.kind == "float":
                spec.append("f:w")
            else:
                spec.append("a:%d:%d:%d" % (0 if a.kind == "in" else (2 if a.name == "cnt" else 1), a.coef, a.fixed))
        items.append("%s\t%s\t%s" % (p.name, okl, ",".join(spec)))
    e0 = dict(env)
    e0["OCCA_CACHE_DIR"] = os.path.join(wd, "cache")
    e0["OMP_NUM_THREADS"] = "2"
    stats = {"runs": 0, "same": 0, "differ": 0, "unbuilt": 0, "crashed": 0, "configurations": 0, "differing": []}

    def count(res, cfg):
        for p, r in zip(programs, res):
            if r.crash:
                stats["crashed"] += 1
                continue
            for ln in r.lines:
                f = ln.split(None, 4)
                if len(f) >= 4 and f[0] == "J":
                    stats["runs"] += 1
                    stats[f[3]] = stats.get(f[3], 0) + 1
                    if f[3] == "differ" and len(stats["differing"]) < 10:
                        stats["differing"].append("%s %s %s: %s" % (p.desc(), cfg, f[2], f[4] if len(f) > 4 else ""))

    # warm-up: JIT-compiles every kernel once into the shared cache (distinct kernels, distinct cache entries)
    res, complete = batch.run_items([jit], items, os.path.join(wd, "warm"), e0, chunk=max(1, -(-len(items) // NCPU)), per_item_timeout=300)
    count(res, "threads=2")
    stats["configurations"] += 1
    log("JIT cross-check: %d kernels built" % len(items))
    configs = []
    for t in range(1, 17):
        for sched in (None, "static,1", "static,2", "static,7", "dynamic,1", "dynamic,2", "dynamic,7"):
            configs.append((t, sched))

    def one(cfg):
        if time.time() > deadline:
            return cfg, None
        t, sched = cfg
        e = dict(e0)
        e["OMP_NUM_THREADS"] = str(t)
        if sched:
            e["OMP_SCHEDULE"] = sched
        r, _ = batch.run_items([jit], items, os.path.join(wd, "t%d-%s" % (t, (sched or "default").replace(",", "_"))), e,
                               chunk=len(items), per_item_timeout=60)
        return cfg, r

    with ThreadPoolExecutor(max_workers=4) as ex:
        for cfg, r in ex.map(one, configs):
            if r is None:
                stats["skipped_configurations"] = stats.get("skipped_configurations", 0) + 1
                continue
            stats["configurations"] += 1
            count(r, "threads=%d schedule=%s" % cfg)
    return stats


def main():
    c = Check("C21", "model_checking")
    c.build(h20.XLATE_VARIANT)
    env = san_env(c.scratch)

    def log(msg):
        print("[C21 %.0fs] %s" % (c.elapsed(), msg), flush=True)

    if c.args.replay:
        r = load_replay(c.args.replay)["replay"]
        p = pg.program_for(r["feats"], name="r0", variant=r.get("variant", ""))
        xl, b = build_all(c, [p], env, log)
        print(p.okl)
        v, dev, _ = xl[(p.name, "openmp")]
        print("translate[openmp]: %s" % v)
        if dev:
            print(open(dev).read())
        info = b.build_program(p, xl)
        if not info["exe"]:
            print("not built:", info)
            sys.exit(0)
        import subprocess
        sched = [x for x in str(r.get("schedule", "-")).split(",") if x not in ("-", "")]
        q = subprocess.run([info["exe"], str(r["N"]), str(r["T"]), str(r.get("bound", 2))] + sched,
                           stdout=subprocess.PIPE, stderr=subprocess.STDOUT, text=True, env=env)
        print(q.stdout)
        sys.exit(1 if q.returncode == 1 else 0)

    ok, text = ompx.selftest(os.path.join(c.scratch, "ompx-selftest"))
    if not ok:
        c.harness_error("ompx self-test failed - trusted base broken:\n" + text)
    programs = hs.programs(c.tier)
    xl, b = build_all(c, programs, env, log)
    deadline = c.t0 + c.budget(2400, 10800)     # generous: the sandbox is shared; see wall_s
    max_exec = 4000 if c.tier == "quick" else 60000
    sem = threading.BoundedSemaphore(NCPU)
    results = {}
    incomplete = [False]

    def work(p):
        if time.time() > deadline:
            incomplete[0] = True
            return p.name, None, None
        with sem:
            info = b.build_program(p, xl)
            if not info["exe"]:
                return p.name, info, None
            rc, out, err = hs.run_program(info["exe"], env, max_exec, 2)
        return p.name, info, (rc, out, err)

    with ThreadPoolExecutor(max_workers=NCPU) as ex:
        for name, info, run in ex.map(work, programs):
            results[name] = (info, run)
    log("explored %d programs" % len(programs))

    raw = []           # (clause, prog, detail, replay-extra)
    tot = {"executions": 0, "states": 0, "steps": 0, "atomics": 0, "criticals": 0, "accesses": 0, "blocked": 0, "regions": 0}
    cells = 0
    cells_complete = 0
    max_bound_completed = {}
    preempted_execs = 0
    judged_programs = 0
    samples = []
    for p in programs:
        info, run = results[p.name]
        if info is None:
            continue
        for m, v in info["rejected"].items():
            if v.startswith("CRASH"):
                raw.append(("translator-crash:" + m, p, v, {"N": 0, "T": 1}))
        for m, text in info["compile_failures"].items():
            err = [ln for ln in text.split("\n") if "error" in ln]
            raw.append(("does-not-compile:" + m, p, err[0][:300] if err else text[-300:], {"N": 0, "T": 1}))
        if info["unexpected_symbols"]:
            c.harness_error("the OpenMP lowering of %s needs runtime entry points ompx does not model: %s"
                            % (p.desc(), info["unexpected_symbols"]))
        if run is None:
            continue
        rc, out, err = run
        r = hs.parse_output(out)
        if rc != 0 or not r["done"] or r["errs"]:
            c.harness_error("exploration of %s ended abnormally (rc=%s): %s\n%s" % (p.desc(), rc, r["errs"][:2], (out[-800:] + err[-800:])))
        judged_programs += 1
        for e in r["e"]:
            for k in tot:
                tot[k] += e.get(k, 0)
            cells += 1
            key = (p.name, e["N"], e["T"])
            if e["complete"]:
                cells_complete += 1
                max_bound_completed[key] = max(max_bound_completed.get(key, -1), e["bound"])
                if e["bound"] == 0 and (e["atomics"] + e["criticals"] == 0 or e["T"] == 1):
                    max_bound_completed[key] = 2      # no visible operation / one thread: no further schedules exist
            else:
                incomplete[0] = True
                max_bound_completed.setdefault(key, -1)
            if e["maxpre"] > 0:
                preempted_execs += e["executions"]
        for x in r["races"]:
            raw.append(("race:%s:%s" % (x["where"], x["kind"]), p,
                        "data race on %s (%s) between virtual threads %s with N=%d, T=%d" % (x["where"], x["kind"], x["threads"], x["N"], x["T"]),
                        {"N": x["N"], "T": x["T"], "schedule": x["schedule"], "bound": 2}))
        for x in r["diffs"]:
            raw.append(("output-differs:" + x["detail"].split(" |")[0], p,
                        "N=%d, T=%d, schedule %s: %s" % (x["N"], x["T"], x["schedule"], x["detail"]),
                        {"N": x["N"], "T": x["T"], "schedule": x["schedule"], "bound": 2}))
        if len(samples) < 3 and r["e"]:
            e = r["e"][-1]
            samples.append("%s: N=%d T=%d bound=%d -> %d executions, %d scheduled steps" % (p.desc(), e["N"], e["T"], e["bound"], e["executions"], e["steps"]))

    single_fail = set()
    for clause, p, detail, extra in raw:
        if len(p.feats) <= 1:
            single_fail.add((clause, p.feats[0] if p.feats else "base"))
    for clause, p, detail, extra in raw:
        feat = attribute(p.feats, clause, single_fail)
        sig = "%s:%s%s" % (clause, feat, (":" + p.info["variant"]) if p.info["variant"] and feat != "atomic" else "")
        if p.info["variant"] and "critical" in clause:
            sig = "%s:%s" % (clause, feat)
        rep = p.replay_obj()
        rep.update(extra)
        c.violation(sig, "%s%s: %s" % (p.desc(), (" [" + p.info["variant"] + " variant]") if p.info["variant"] else "", detail), rep)

    # vacuity guards (a run that found violations is not vacuous; a translation that lost its atomic/critical
    # lowering must be reported through the races it causes, not as a harness problem)
    c.vacuity(judged_programs == len(programs) or incomplete[0], "%d of %d programs explored" % (judged_programs, len(programs)))
    c.vacuity(tot["executions"] > 10 * len(programs), "too few executions")
    if not c.violations:
        c.vacuity(tot["atomics"] > 0, "no atomic operation was executed")
        c.vacuity(tot["criticals"] > 0, "no omp critical section was executed")
        c.vacuity(preempted_execs > 0, "no execution with a preemption was explored")
        c.vacuity(tot["blocked"] > 0, "the critical lock was never contended in any explored schedule")

    jit = None
    if c.tier == "thorough" and time.time() < deadline:
        jit = jit_crosscheck(c, programs, env, log, deadline)
        log("JIT cross-check: %s" % {k: v for k, v in jit.items() if k != "differing"})
        if (jit["differ"] or jit["crashed"]) and not c.violations:
            c.harness_error("the free-running cross-check (real JIT path, libgomp) disagrees with the Serial kernel although the "
                            "model-checking pass found nothing - the model misses something: %s" % jit["differing"][:3])
        c.coverage["jit_crosscheck_supporting_evidence"] = jit

    bounds = sorted(set(max_bound_completed.values()))
    c.set_model_checking(
        states=tot["states"], transitions=tot["steps"], traces_validated=tot["executions"], samples=samples,
        exhaustive=not incomplete[0],
        programs=len(programs), programs_explored=judged_programs,
        executions=tot["executions"], parallel_regions=tot["regions"], instrumented_accesses=tot["accesses"],
        atomic_operations=tot["atomics"], critical_sections=tot["criticals"], lock_waits=tot["blocked"],
        executions_in_cells_with_preemptions=preempted_execs,
        cells_program_N_T_bound=cells, cells_completed=cells_complete,
        lowest_preemption_bound_completed_over_cells=(bounds[0] if bounds else None),
        cells_program_N_T_by_highest_completed_preemption_bound=dict(
            (str(b_), sum(1 for v in max_bound_completed.values() if v == b_)) for b_ in (-1, 0, 1, 2)),
        max_executions_per_cell=max_exec,
        rule="programs = the C20 set (base + all subsets of size <= %d of 16 OKL features) + a variant with a general @atomic "
             "block for every program with @atomic; per program N in {0,1,3,4}, T in {1,2,3,N} virtual threads; all T! orders of "
             "whole-thread execution, then all schedules with <= 1 and <= 2 preemptions at atomic/critical operations (cells "
             "without such operations have no further schedules); per execution: conflict monitor over all instrumented "
             "accesses + outputs == Serial translation" % (1 if c.tier == "quick" else 2),
    )
    c.assumptions += [
        "ompx (engines/ompx, trusted base, self-tested in this run) replaces libgomp: virtual threads are fibers with private "
        "stacks; static schedule as inlined by g++ from omp_get_num_threads/omp_get_thread_num (the translation emits no "
        "schedule clause, so OMP_SCHEDULE cannot change the iteration assignment); T = n_iter gives every iteration its own thread",
        "memory accesses are those g++ -O0 -fsanitize=thread instruments; sequentially consistent interleavings only - weak "
        "memory effects are out of reach, the conflict monitor makes them irrelevant for race-free executions",
        "a state is a scheduling point of one (program, N, T, schedule prefix) execution on the real translated code; a "
        "transition is one scheduled step (a virtual thread run to its next scheduling point)",
    ]
    c.finish()


if __name__ == "__main__":
    from vlib.core import run_main; run_main(main)
