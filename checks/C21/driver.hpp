// C21 harness support (generic part of the generated per-program main TU).
//
// One executable per program: Serial translation (plain), OpenMP translation (g++ -O0 -fopenmp -fsanitize=thread -c),
// engine ompx as the OpenMP runtime.
//   exe                         explore: for N in {0,1,3,4}, T in {1,2,3,N}, preemption bound 0,1,2
//   exe N T bound c0 c1 ...     replay one execution (forced choice prefix), print what happened
// Lines printed while exploring (one E line per (N, T, bound); the first race / difference of a (N, T) in full):
//   E <N> <T> <bound> executions=.. states=.. steps=.. racy=.. differ=.. complete=0|1 atomics=.. criticals=.. accesses=..
//     maxpre=.. blocked=.. regions=..
//   RACE <N> <T> <where> <catA><r|w>-<catB><r|w> threads=<a>,<b> schedule=<choices>
//   DIFF <N> <T> schedule=<choices> | <detail>
//   ERR <N> <T> <message>            (runtime misuse / replay divergence: harness error)
#ifndef VERIF_C21_DRIVER_HPP
#define VERIF_C21_DRIVER_HPP

#include <cstdio>
#include <cstdlib>
#include <cstring>
#include <set>
#include <string>
#include <vector>

#include "ompx.hpp"

namespace c21 {
  const int SENTINEL = -777777;

  struct ArraySpec {
    const char *name;
    int kind;        // 0 = input, 1 = output (SENTINEL), 2 = counter (0)
    int coef, fixed;
  };

  struct Data {
    int N, M;
    float w;
    std::vector<int*> arr;
    std::vector<size_t> len;
  };

  inline int inputValue(int which, int k) {
    return which == 0 ? (3 * k + 1 + (k % 5)) : (1000 + 7 * k - (k % 3));
  }

  inline void fill(Data &d, const ArraySpec *specs, int nspecs) {
    int inputs = 0;
    for (int s = 0; s < nspecs; ++s) {
      for (size_t k = 0; k < d.len[s]; ++k) {
        d.arr[s][k] = specs[s].kind == 0 ? inputValue(inputs, (int) k) : (specs[s].kind == 1 ? SENTINEL : 0);
      }
      inputs += (specs[s].kind == 0);
    }
  }

  inline void allocate(Data &d, int N, const ArraySpec *specs, int nspecs) {
    d.N = N;
    d.M = 5;
    d.w = 2.5f;
    for (int s = 0; s < nspecs; ++s) {
      const size_t n = (size_t) (specs[s].coef * N + specs[s].fixed);
      d.arr.push_back((int*) std::malloc((n ? n : 1) * sizeof(int)));
      d.len.push_back(n);
    }
    fill(d, specs, nspecs);
  }

  inline void release(Data &d) {
    for (size_t i = 0; i < d.arr.size(); ++i) std::free(d.arr[i]);
    d.arr.clear();
    d.len.clear();
  }

  inline bool compare(const Data &got, const Data &want, const ArraySpec *specs, std::string &detail) {
    size_t bad = 0;
    for (size_t a = 0; a < got.arr.size(); ++a) {
      for (size_t k = 0; k < got.len[a]; ++k) {
        if (got.arr[a][k] != want.arr[a][k]) {
          if (!bad) {
            char buf[200];
            std::snprintf(buf, sizeof(buf), "%s | %s[%zu] = %d, Serial translation gives %d",
                          specs[a].kind == 0 ? "input-modified" : (specs[a].kind == 2 ? "counter" : "value"),
                          specs[a].name, k, got.arr[a][k], want.arr[a][k]);
            detail = buf;
          }
          ++bad;
        }
      }
    }
    if (bad) detail += " (" + std::to_string(bad) + " cell(s) differ)";
    return !bad;
  }

  typedef void (*RunFn)(Data &d);

  struct BodyCtx {
    RunFn run;
    Data *d;
  };

  inline void body(void *ctx) {
    BodyCtx *b = (BodyCtx*) ctx;
    b->run(*b->d);
  }

  inline std::string choiceString(const std::vector<ompx::Choice> &trace) {
    std::string s;
    for (size_t i = 0; i < trace.size(); ++i) {
      if (i) s += ",";
      s += std::to_string(trace[i].chosen);
    }
    return s.empty() ? "-" : s;
  }

  inline std::string raceKind(const ompx::Race &r) {
    static const char *cat[3] = {"plain", "atomic", "critical"};
    return std::string(cat[r.catA]) + (r.writeA ? "w" : "r") + "-" + cat[r.catB] + (r.writeB ? "w" : "r");
  }

  inline std::string whereBase(const std::string &w) {
    if (w.compare(0, 5, "stack") == 0) return "thread-stack";
    const size_t p = w.find('+');
    return p == std::string::npos ? w : w.substr(0, p);
  }

  inline int drive(int argc, char **argv, RunFn serial, RunFn openmp, const ArraySpec *specs, int nspecs) {
    size_t cap = 20000;
    if (const char *e = std::getenv("C21_MAX_EXECUTIONS")) cap = (size_t) std::atol(e);
    int maxBound = 2;
    if (const char *e = std::getenv("C21_MAX_BOUND")) maxBound = std::atoi(e);

    if (argc >= 4) {
      // replay one execution
      const int N = std::atoi(argv[1]), T = std::atoi(argv[2]), bound = std::atoi(argv[3]);
      Data want, got;
      allocate(want, N, specs, nspecs);
      allocate(got, N, specs, nspecs);
      serial(want);
      ompx::clearRanges();
      for (int s = 0; s < nspecs; ++s) ompx::addRange(specs[s].name, got.arr[s], got.len[s] * sizeof(int));
      ompx::ExecConfig cfg;
      cfg.threads = T;
      cfg.preemptionBound = bound;
      for (int i = 4; i < argc; ++i) cfg.prefix.push_back(std::atoi(argv[i]));
      BodyCtx ctx = {openmp, &got};
      ompx::ExecResult res;
      ompx::execute(cfg, body, &ctx, res);
      std::string detail;
      const bool same = compare(got, want, specs, detail);
      std::printf("REPLAY N=%d T=%d bound=%d schedule=%s regions=%zu steps=%zu preemptions=%zu atomics=%zu criticals=%zu divergence=%d error=%s\n",
                  N, T, bound, choiceString(res.trace).c_str(), res.regions, res.steps, res.preemptions, res.atomics, res.criticals,
                  (int) res.divergence, res.error.c_str());
      for (size_t i = 0; i < res.races.size(); ++i) {
        std::printf("RACE %d %d %s %s threads=%d,%d schedule=%s\n", N, T, res.races[i].where.c_str(), raceKind(res.races[i]).c_str(),
                    res.races[i].threadA, res.races[i].threadB, choiceString(res.trace).c_str());
      }
      if (!same) std::printf("DIFF %d %d schedule=%s | %s\n", N, T, choiceString(res.trace).c_str(), detail.c_str());
      return (res.races.empty() && same) ? 0 : 1;
    }

    const int NS[4] = {0, 1, 3, 4};
    for (int ni = 0; ni < 4; ++ni) {
      const int N = NS[ni];
      Data want, got;
      allocate(want, N, specs, nspecs);
      allocate(got, N, specs, nspecs);
      serial(want);
      ompx::clearRanges();
      for (int s = 0; s < nspecs; ++s) ompx::addRange(specs[s].name, got.arr[s], got.len[s] * sizeof(int));
      std::set<int> ts;
      ts.insert(1); ts.insert(2); ts.insert(3);
      if (N > 0) ts.insert(N);
      for (std::set<int>::iterator it = ts.begin(); it != ts.end(); ++it) {
        const int T = *it;
        bool visible = true;
        std::set<std::string> racesSeen;
        bool diffSeen = false;
        for (int bound = 0; bound <= maxBound && visible; ++bound) {
          ompx::Explorer ex(T, bound);
          ompx::ExecConfig cfg;
          size_t executions = 0, states = 0, steps = 0, racy = 0, differ = 0, atomics = 0, criticals = 0, accesses = 0;
          size_t maxpre = 0, blocked = 0, regions = 0;
          bool complete = true;
          std::string err;
          BodyCtx ctx = {openmp, &got};
          while (ex.next(cfg)) {
            if (executions >= cap) { complete = false; break; }
            fill(got, specs, nspecs);
            ompx::ExecResult res;
            ompx::execute(cfg, body, &ctx, res);
            ex.report(res);
            ++executions;
            states += 1 + res.trace.size();
            steps += res.steps;
            atomics += res.atomics;
            criticals += res.criticals;
            accesses += res.accesses;
            regions += res.regions;
            blocked += res.blockedWaits;
            if (res.preemptions > maxpre) maxpre = res.preemptions;
            if (!res.error.empty() && err.empty()) err = res.error;
            if (!res.races.empty()) ++racy;
            for (size_t i = 0; i < res.races.size(); ++i) {
              const std::string key = whereBase(res.races[i].where) + " " + raceKind(res.races[i]);
              if (racesSeen.insert(key).second) {
                std::printf("RACE %d %d %s %s threads=%d,%d schedule=%s\n", N, T, whereBase(res.races[i].where).c_str(),
                            raceKind(res.races[i]).c_str(), res.races[i].threadA, res.races[i].threadB, choiceString(res.trace).c_str());
              }
            }
            std::string detail;
            if (!compare(got, want, specs, detail)) {
              ++differ;
              if (!diffSeen) {
                diffSeen = true;
                std::printf("DIFF %d %d schedule=%s | %s\n", N, T, choiceString(res.trace).c_str(), detail.c_str());
              }
            }
          }
          if (ex.diverged()) err = "replay divergence (the same choice prefix met different choice points)";
          if (!err.empty()) std::printf("ERR %d %d %s\n", N, T, err.c_str());
          std::printf("E %d %d %d executions=%zu states=%zu steps=%zu racy=%zu differ=%zu complete=%d atomics=%zu criticals=%zu accesses=%zu maxpre=%zu blocked=%zu regions=%zu\n",
                      N, T, bound, executions, states, steps, racy, differ, (int) complete, atomics, criticals, accesses, maxpre, blocked, regions);
          std::fflush(stdout);
          visible = (atomics + criticals) > 0 && T > 1 && complete;   // without visible operations larger bounds add nothing
        }
      }
      release(want);
      release(got);
    }
    std::printf("DONE\n");
    return 0;
  }
}

#endif
