"""C21 harness: per program one executable = Serial translation + OpenMP translation (TSan-instrumented object,
`g++ -O0 -fopenmp -fsanitize=thread -c`) + engine ompx as the OpenMP runtime + generated main (driver.hpp)."""
import os, re, subprocess, sys

HERE = os.path.dirname(os.path.abspath(__file__))
ROOT = os.path.dirname(os.path.dirname(HERE))
sys.path.insert(0, ROOT)
sys.path.insert(0, os.path.join(ROOT, "checks", "C20"))
sys.path.insert(0, os.path.join(ROOT, "engines", "ompx"))
import ompx                                     # noqa: E402
import progs as pg                              # noqa: E402
import harness as h20                           # noqa: E402  (translation + generated-source helpers)
from vlib.core import sh                        # noqa: E402

MODES = ("serial", "openmp")


def programs(tier):
    """the C20 set + for every program with @atomic a variant whose @atomic template also has a general block
    (lowered to `omp critical`)"""
    base = pg.programs(tier)
    extra = []
    for p in base:
        if "atomic" in p.feats:
            extra.append(pg.build("q%d" % len(extra), p.feats, variant="critical"))
    return base + extra


class BuildError(Exception):
    pass


def run_cmd(cmd, what):
    p = sh(cmd)
    if p.returncode != 0:
        raise BuildError("%s failed:\n%s\n%s" % (what, " ".join(cmd), p.stdout[-2500:]))


def main_tu(p, inline):
    arrays = [a for a in p.args if a.is_array()]
    s = ['#include "driver.hpp"']
    specs = []
    for a in arrays:
        kind = 0 if a.kind == "in" else (2 if a.name == "cnt" else 1)
        specs.append('  {"%s", %d, %d, %d},' % (a.name, kind, a.coef, a.fixed))
    s.append("static const c21::ArraySpec specs[] = {\n%s\n};" % "\n".join(specs))
    call = ", ".join(h20.data_expr(p, a) for a in p.args)
    for m in MODES:
        if m in inline:
            names, defs = h20.renames(p, m)
            s.append(defs + '#include "%s"\n' % inline[m] + h20.unrenames(names))
        else:
            s.append('extern "C" void %s_%s(%s);' % (p.name, m, h20.c_params(p)))
        s.append("static void run_%s(c21::Data &d) { %s_%s(%s); }" % (m, p.name, m, call))
    s.append("int main(int argc, char **argv) { return c21::drive(argc, argv, run_serial, run_openmp, specs, %d); }" % len(arrays))
    return "\n".join(s) + "\n"


EXPECTED_UNDEFINED = re.compile(r"^(GOMP_parallel|GOMP_critical_start|GOMP_critical_end|omp_get_num_threads|omp_get_thread_num|"
                                r"__tsan_(init|func_entry|func_exit|read\d+|write\d+|read_range|write_range|unaligned_(read|write)\d+|"
                                r"atomic\d+_\w+|atomic_thread_fence|atomic_signal_fence)|__stack_chk_fail|_GLOBAL_OFFSET_TABLE_)$")


class Builder:
    def __init__(self, workdir):
        self.wd = workdir
        os.makedirs(workdir, exist_ok=True)
        self.ompx_o = os.path.join(workdir, "ompx.o")

    def prepare(self):
        run_cmd(ompx.runtime_cmd(self.ompx_o), "ompx runtime compile")

    def build_program(self, p, xl):
        """-> dict exe | rejected {mode: verdict} | compile_failures {mode: text} | undefined [symbols the lowering wants]"""
        info = {"exe": None, "rejected": {}, "compile_failures": {}, "unexpected_symbols": []}
        d = os.path.join(self.wd, p.name)
        os.makedirs(d, exist_ok=True)
        paths = {}
        for m in MODES:
            v, dev, _ = xl[(p.name, m)]
            if v != "OK":
                info["rejected"][m] = v
            else:
                paths[m] = dev
        if len(paths) != 2:
            return info
        # the OpenMP translation: its own object, instrumented by -fsanitize=thread
        src = h20.write(os.path.join(d, "openmp_tu.cpp"), h20.renames(p, "openmp")[1] + '#include "%s"\n' % paths["openmp"])
        oobj = os.path.join(d, "openmp.o")
        try:
            run_cmd(ompx.kernel_cmd(src, oobj), "compile of the OpenMP translation (-fopenmp -fsanitize=thread)")
        except BuildError as e:
            info["compile_failures"]["openmp"] = str(e)
            return info
        info["unexpected_symbols"] = [s for s in ompx.undefined_symbols(oobj)
                                      if not EXPECTED_UNDEFINED.match(s) and not s.endswith("_openmp")]
        # main TU: driver + the Serial translation (plain)
        src = h20.write(os.path.join(d, "main.cpp"), main_tu(p, {"serial": paths["serial"]}))
        mobj = os.path.join(d, "main.o")
        try:
            run_cmd(ompx.host_cmd(src, mobj, extra=["-I" + HERE]), "compile of the main TU (driver + Serial translation)")
        except BuildError as e:
            info["compile_failures"]["serial"] = str(e)
            return info
        exe = os.path.join(d, "run.exe")
        run_cmd(ompx.link_cmd([mobj, self.ompx_o, oobj], exe), "link " + p.name)
        info["exe"] = exe
        return info


ELINE = re.compile(r"^E (\d+) (\d+) (\d+) (.*)$")


def parse_output(out):
    """-> dict: e (list of dict), races (list), diffs (list), errs (list), done"""
    r = {"e": [], "races": [], "diffs": [], "errs": [], "done": False}
    for ln in out.split("\n"):
        m = ELINE.match(ln)
        if m:
            d = {"N": int(m.group(1)), "T": int(m.group(2)), "bound": int(m.group(3))}
            for kv in m.group(4).split():
                k, v = kv.split("=")
                d[k] = int(v)
            r["e"].append(d)
        elif ln.startswith("RACE "):
            f = ln.split()
            sched = f[-1].split("=", 1)[1]
            r["races"].append({"N": int(f[1]), "T": int(f[2]), "where": f[3], "kind": f[4], "threads": f[5], "schedule": sched})
        elif ln.startswith("DIFF "):
            head, detail = ln.split(" | ", 1)
            f = head.split()
            r["diffs"].append({"N": int(f[1]), "T": int(f[2]), "schedule": f[3].split("=", 1)[1], "detail": detail})
        elif ln.startswith("ERR "):
            r["errs"].append(ln)
        elif ln.startswith("DONE"):
            r["done"] = True
    return r


def run_program(exe, env, max_executions, max_bound, timeout=1500):
    e = dict(env)
    e["C21_MAX_EXECUTIONS"] = str(max_executions)
    e["C21_MAX_BOUND"] = str(max_bound)
    p = subprocess.run([exe], stdout=subprocess.PIPE, stderr=subprocess.PIPE, text=True, env=e, cwd=os.path.dirname(exe), timeout=timeout)
    return p.returncode, p.stdout, p.stderr
