// C21 thorough cross-check (supporting evidence only, never a verdict on its own): the REAL path -
// occa::device{mode: OpenMP}.buildKernel(file) -> JIT compile with g++ -fopenmp -> dlopen -> run with libgomp
// and real threads.  The thread count / schedule come from the environment of this process
// (OMP_NUM_THREADS, OMP_SCHEDULE); the expected outputs from the same kernel built for mode Serial.
//
// Protocol of vlib.batch: argv[1] = file with one item per line; for item i print BEGIN i ... END i.
// Item (tab separated):  <kernel name> <okl file> <arg spec>
//   arg spec = comma list:  i:N | i:M | f:w | a:<kind 0 in,1 out,2 counter>:<coef>:<fixed>
// Output per item: "J <name> N=<n> same|differ|unbuilt <detail>" for N in {0,1,3,4}
#include <cstdio>
#include <cstdlib>
#include <cstring>
#include <fstream>
#include <sstream>
#include <string>
#include <vector>

#include <occa.hpp>

static const int SENTINEL = -777777;

struct ArgSpec {
  char type;      // 'N' 'M' 'w' 'a'
  int kind, coef, fixed;
};

static std::vector<std::string> split(const std::string &s, char sep) {
  std::vector<std::string> out;
  std::string cur;
  std::stringstream ss(s);
  while (std::getline(ss, cur, sep)) out.push_back(cur);
  return out;
}

static int inputValue(int which, int k) {
  return which == 0 ? (3 * k + 1 + (k % 5)) : (1000 + 7 * k - (k % 3));
}

static void runKernel(occa::device &dev, occa::kernel &k, const std::vector<ArgSpec> &specs, int N,
                      std::vector<std::vector<int> > &arrays) {
  arrays.clear();
  std::vector<occa::memory> mems;
  int inputs = 0;
  for (size_t i = 0; i < specs.size(); ++i) {
    if (specs[i].type != 'a') continue;
    const size_t n = (size_t) (specs[i].coef * N + specs[i].fixed);
    std::vector<int> host(n ? n : 1);
    for (size_t j = 0; j < n; ++j) {
      host[j] = specs[i].kind == 0 ? inputValue(inputs, (int) j) : (specs[i].kind == 1 ? SENTINEL : 0);
    }
    inputs += (specs[i].kind == 0);
    host.resize(n ? n : 1);
    mems.push_back(dev.malloc<int>((occa::dim_t) (n ? n : 1), &host[0]));
    arrays.push_back(std::vector<int>(n));
  }
  k.clearArgs();
  size_t mi = 0;
  const int M = 5;
  const float w = 2.5f;
  for (size_t i = 0; i < specs.size(); ++i) {
    if (specs[i].type == 'N') k.pushArg(N);
    else if (specs[i].type == 'M') k.pushArg(M);
    else if (specs[i].type == 'w') k.pushArg(w);
    else k.pushArg(mems[mi++]);
  }
  k.run();
  dev.finish();
  for (size_t a = 0; a < arrays.size(); ++a) {
    if (!arrays[a].empty()) mems[a].copyTo(&arrays[a][0], (occa::dim_t) arrays[a].size());
  }
}

int main(int argc, char **argv) {
  if (argc < 2) return 2;
  std::ifstream in(argv[1]);
  std::string line;
  int index = 0;
  occa::device serial(std::string("{mode: 'Serial'}"));
  occa::device openmp(std::string("{mode: 'OpenMP'}"));
  while (std::getline(in, line)) {
    std::printf("BEGIN %d\n", index);
    std::fflush(stdout);
    std::vector<std::string> f = split(line, '\t');
    if (f.size() >= 3) {
      std::vector<ArgSpec> specs;
      std::vector<std::string> parts = split(f[2], ',');
      for (size_t i = 0; i < parts.size(); ++i) {
        std::vector<std::string> q = split(parts[i], ':');
        ArgSpec s = {'N', 0, 0, 0};
        if (q[0] == "i") s.type = q[1][0];
        else if (q[0] == "f") s.type = 'w';
        else { s.type = 'a'; s.kind = std::atoi(q[1].c_str()); s.coef = std::atoi(q[2].c_str()); s.fixed = std::atoi(q[3].c_str()); }
        specs.push_back(s);
      }
      try {
        occa::kernel ks = serial.buildKernel(f[1], f[0]);
        occa::kernel ko = openmp.buildKernel(f[1], f[0]);
        const int NS[4] = {0, 1, 3, 4};
        for (int t = 0; t < 4; ++t) {
          std::vector<std::vector<int> > want, got;
          runKernel(serial, ks, specs, NS[t], want);
          runKernel(openmp, ko, specs, NS[t], got);
          std::string detail;
          size_t bad = 0;
          for (size_t a = 0; a < want.size(); ++a) for (size_t j = 0; j < want[a].size(); ++j) {
            if (want[a][j] != got[a][j]) {
              if (!bad) detail = "array " + std::to_string(a) + " [" + std::to_string(j) + "] = " + std::to_string(got[a][j]) + ", Serial " + std::to_string(want[a][j]);
              ++bad;
            }
          }
          std::printf("J %s N=%d %s %s\n", f[0].c_str(), NS[t], bad ? "differ" : "same", detail.c_str());
        }
      } catch (occa::exception &e) {
        std::string msg = e.what();
        for (size_t i = 0; i < msg.size(); ++i) if (msg[i] == '\n') msg[i] = ' ';
        std::printf("J %s N=-1 unbuilt %s\n", f[0].c_str(), msg.substr(0, 300).c_str());
      }
    }
    std::printf("END %d\n", index);
    std::fflush(stdout);
    ++index;
  }
  return 0;
}
