"""Deterministic, seedless, simplest-first generators of the C15 program families.

Every item is one line of C: a complete function
     double f(int &a, int &b, int &c, int *p) { <body> }
whose body is built from a bounded expression / statement grammar.  The families are the complete sets of
their shapes (no sampling).  Whether an item is valid C++ is decided later by g++, not here (items g++
rejects are still judged for the OCCA print/re-parse round trip, only the semantic comparison is skipped).

Unsequenced side effects (undefined, and invisible to UBSan) are avoided by construction: only `c` (and p[1])
is ever modified, and an expression that modifies `c` does not mention `c` anywhere else unless a sequencing
operator (, && || ?:) separates the two.
"""
import itertools

HEAD = "double f(int &a, int &b, int &c, int *p) { "
TAIL = " }"

ARITH = ["*", "/", "%", "+", "-", "<<", ">>", "<", "<=", ">", ">=", "==", "!=", "&", "^", "|", "&&", "||"]
ASSIGN = ["=", "+=", "-=", "*=", "/=", "%=", "&=", "|=", "^=", "<<=", ">>="]
PREFIX = ["+", "-", "!", "~"]
CASTS = ["(int)", "(float)", "(char)", "(unsigned)", "(long)", "(double)", "(unsigned char)", "(const int)"]

CHARS = ["'x'", "'\\''", "'\\\\'", "'\\n'", "'\\0'", "'\"'", "'\\t'", "'\\x41'", "'\\101'", "'?'"]
STRS = ['"q\\""[1]', '"a\\\\b"[1]', '"\\n"[0]', '"\'"[0]', '"\\x41\\t"[1]', '"\\101"[0]', '"\\?"[0]', '"a" "b"[1]',
        '"%d\\\\n"[2]', '"/*"[1]', '"//"[0]', '"\\a\\b\\f\\r\\v"[4]']
NUMS = ["0", "1", "2", "7", "1.5f", "2.5", "10u", "3l", "0x1F", "017", "1e1", "0b11", "2147483647", "4000000000",
        "1.0e+2", ".5", "5.", "3UL", "1.5F", "0XaB", "100000000000", "true", "false"]
VARS = ["a", "b", "c"]

# leaves that never mention c (safe next to a modification of c)
PURE = ["a", "b", "2", "1.5f", "'x'", "p[0]"]


def prog(body):
    return HEAD + body + TAIL


def ret(e):
    return prog("return " + e + ";")


def fam_leaves(tier):
    out = []
    for l in VARS + NUMS + CHARS + STRS + ["p[0]", "p[a & 3]", "(p)[1]", "*p", "p[3] + p[2]", "*(p + 1)", "*&a", "&a == &b",
                                           "sizeof(a)", "sizeof a", "sizeof(int)", "sizeof(a + 1.5f)", "sizeof(char)",
                                           "g(a, b)", "h(a)", "g(h(a), b)", "g(a, h(b))", "h(g(a, b))", "g((a, b), c)",
                                           "(a)", "((a))", "(a, b)", "h((a))"]:
        out.append(ret(l))
    return out


def fam_unary(tier):
    out = []
    ops = PREFIX + CASTS + ["sizeof", "*&", "- -", "+ +", "!!", "~-", "-~", "- (int)", "(int) -", "(float) (int)", "! (char)"]
    for u in ops:
        for x in ["a", "2", "1.5f", "'x'", "p[1]", "(a + b)", "(a, b)", "g(a, b)", "a + b", "a * b", "a < b", "a ? b : c", "a && b"]:
            out.append(ret(u + " " + x))
    for e in ["++c", "--c", "c++", "c--", "++c + a", "a - c--", "-c++", "- --c", "!c++", "~--c", "(c)++", "++(c)", "(int) c++",
              "++p[1]", "p[1]++", "-p[1]--", "(c++, c)", "(++c, c + a)", "c++ ? a : b", "a ? c++ : --c", "a && c++", "a || ++c",
              "sizeof c++", "sizeof(c++)", "h(c++)", "g(++c, a)", "p[c++ & 3]", "(a, c++)", "(c++, a)", "c++ , c", "+ +c", "- -c",
              "*&c", "++*&c", "(*&c)++", "*p++ == 0 ? a : b" if False else "(*p)++"]:
        out.append(ret(e))
    return out


def fam_binary(tier):
    ops = ARITH + [","]
    L = ["a", "b", "c", "2", "0", "1.5f", "'x'", "'\\''", '"q\\""[1]', "p[a & 3]", "g(a, b)", "(float) a"]
    out = []
    for o in ops:
        for x in L:
            for y in L:
                out.append(ret("%s %s %s" % (x, o, y)))
    for o in ASSIGN:
        for lhs in ["c", "p[1]", "(c)", "*&c"]:
            for y in PURE + ["g(a, b)", "(float) a", "a + b", "(a, b)", "a ? b : 2", "-a"]:
                out.append(ret("%s %s %s" % (lhs, o, y)))
    return out


def _forms2(x, o1, y, o2, z):
    return ["%s %s %s %s %s" % (x, o1, y, o2, z),
            "(%s %s %s) %s %s" % (x, o1, y, o2, z),
            "%s %s (%s %s %s)" % (x, o1, y, o2, z)]


def fam_pairs(tier):
    """every ordered pair of binary operators, flat and with parentheses in both positions."""
    ops = ARITH + [","]
    out = []
    triples = [("a", "b", "c"), ("a", "2", "b")] if tier == "quick" else \
              [("a", "b", "c"), ("a", "2", "b"), ("7", "a", "1.5f"), ("p[0]", "b", "'x'")]
    for o1 in ops:
        for o2 in ops:
            for x, y, z in triples:
                out += [ret(e) for e in _forms2(x, o1, y, o2, z)]
    # assignment operators: only well-formed placements (c on the far left, or as the parenthesised right part)
    for oa in ASSIGN:
        for o in ops:
            out.append(ret("c %s a %s b" % (oa, o)))
            out.append(ret("c %s (a %s b)" % (oa, o)))
            out.append(ret("(c %s a) %s b" % (oa, o)))
            out.append(ret("a %s (c %s b)" % (o, oa)))
        for ob in ASSIGN:
            out.append(ret("c %s p[1] %s a" % (oa, ob)))
            out.append(ret("c %s (p[1] %s a)" % (oa, ob)))
            out.append(ret("(c %s a) %s b" % (oa, ob)))
    return out


def fam_mixed(tier):
    """unary / cast / ternary / call / subscript against every binary operator, each with the parenthesisations
    that change the tree."""
    ops = ARITH + [","]
    out = []
    for o in ops:
        for u in PREFIX + ["(int)", "(float)", "(unsigned char)", "sizeof", "*&"]:
            out.append(ret("%s a %s b" % (u, o)))
            out.append(ret("%s (a %s b)" % (u, o)))
            out.append(ret("(%s a) %s b" % (u, o)))
            out.append(ret("a %s %s b" % (o, u)))
            out.append(ret("a %s (%s b)" % (o, u)))
        # conditional operator
        out.append(ret("a %s b ? c : 2" % o))
        out.append(ret("a %s (b ? c : 2)" % o))
        out.append(ret("(a %s b) ? c : 2" % o))
        out.append(ret("a ? b %s c : 2" % o))
        out.append(ret("a ? (b %s c) : 2" % o))
        out.append(ret("a ? b : c %s 2" % o))
        out.append(ret("(a ? b : c) %s 2" % o))
        out.append(ret("a ? b : (c %s 2)" % o))
        # calls / subscripts
        out.append(ret("g(a %s b, c)" % o))
        out.append(ret("g((a %s b), c)" % o))
        out.append(ret("g(a, b) %s c" % o))
        out.append(ret("a %s g(b, c)" % o))
        out.append(ret("p[(a %s b) & 3]" % o))
        out.append(ret("p[a & 3] %s b" % o))
        out.append(ret("a %s p[b & 3]" % o))
        out.append(ret("h(a) %s h(b)" % o))
        out.append(ret("c++ %s a" % o) if o in ("&&", "||", ",") else ret("c++ %s a" % o))
        out.append(ret("a %s ++c" % o))
        out.append(ret("a %s -c--" % o))
    for oa in ASSIGN:
        out.append(ret("c %s a ? b : 2" % oa))
        out.append(ret("c %s (a ? b : 2)" % oa))
        out.append(ret("(c %s a) ? b : 2" % oa))
        out.append(ret("a ? c %s b : 2" % oa))
        out.append(ret("a ? b : (c %s 2)" % oa))
        out.append(ret("a ? (c %s b) : 2" % oa))
        out.append(ret("a, c %s b" % oa))
        out.append(ret("c %s a, b" % oa))
        out.append(ret("c %s (a, b)" % oa))
        out.append(ret("(a, c) %s b" % oa))
        out.append(ret("g(c %s a, b)" % oa))
        out.append(ret("p[1] %s c %s a" % (oa, oa)))
        out.append(ret("- (c %s a)" % oa))
        out.append(ret("(int) (c %s a)" % oa))
        out.append(ret("c %s (float) a" % oa))
        out.append(ret("c %s -a" % oa))
    # nested conditionals, every association
    for x, y in itertools.product(["a", "b"], repeat=2):
        out.append(ret("%s ? 1 : %s ? 2 : 3" % (x, y)))
        out.append(ret("%s ? %s ? 1 : 2 : 3" % (x, y)))
        out.append(ret("(%s ? 1 : %s) ? 2 : 3" % (x, y)))
        out.append(ret("%s ? 1 : (%s ? 2 : 3)" % (x, y)))
        out.append(ret("%s ? (%s ? 1 : 2) : 3" % (x, y)))
        out.append(ret("%s ? %s ? 1 : 2 : %s ? 3 : 4" % (x, y, x)))
        out.append(ret("%s ? 1, 2 : 3" % x))
        out.append(ret("%s ? c = 1 : 2" % x))
    return out


# ---- statements --------------------------------------------------------------------------------------------
EXPRS = ["a", "a < b", "a + b * 2", "(a + b) * 2", "c = a", "a ? b : 2", "a && b", "-a", "p[a & 3]", "g(a, b)"]
SIMPLE = ["c = a;", "c += b * 2;", ";", "{ }", "{ c = 1; }", "return a;", "c = (a, b);", "c = '\\'';", "h(a);", "int d = a; c = d;",
          "int d = 1, e = a + 2; c = d - e;", "const int d = (a, b); c = d;", "float x = 1.5f * a; c = (int) x;",
          "unsigned char u = (unsigned char) a; c = u;", "char s[] = \"q\\\"\"; c = s[1];", "int v[3] = {a, b, 7}; c = v[2] - v[0];",
          "int *q = p + 1; c = *q;", "int *q = &a, d = 2; c = *q + d;", "long d = 3l << 2; c = (int) d;", "int d; d = a; c = d;"]


def stmts0(loop=False):
    s = list(SIMPLE)
    if loop:
        s += ["break;", "continue;", "if (a) break;", "if (a) continue; c += 1;"]
    return s


def wrap1(s, loop=False):
    """all one-level statement constructs around statement text s (s may be several statements)."""
    out = []
    for e in ["a", "a < b", "(a, b)", "c = a", "a ? b : 2", "!a && b"]:
        out.append("if (%s) %s" % (e, s if _single(s) else "{ " + s + " }"))
        out.append("if (%s) { %s }" % (e, s))
        out.append("if (%s) { %s } else { c = 2; }" % (e, s))
        out.append("if (%s) c = 2; else %s" % (e, s if _single(s) else "{ " + s + " }"))
        out.append("if (%s) c = 1; else if (b) { %s } else c = 3;" % (e, s))
    out.append("for (int i = 0; i < 3; ++i) { %s }" % s)
    out.append("for (int i = 0, j = 2; i < j; ++i, --j) { %s }" % s)
    out.append("int i; for (i = 0; i < 2; i++) { %s } c += i;" % s)
    out.append("int i = 0; for (; i < 2;) { ++i; %s }" % s)
    out.append("int i = 0; for (;;) { if (++i > 2) break; %s }" % s)
    out.append("int i = 0; while (i < 2) { ++i; %s }" % s)
    out.append("int i = 0; while (i++ < 2) %s" % (s if _single(s) else "{ " + s + " }"))
    out.append("int i = 0; do { %s } while (++i < 2);" % s)
    out.append("int i = 0; do %s while (++i < 2);" % (s if _single(s) else "{ " + s + " }"))
    out.append("switch (a) { case 0: %s break; case 1: c = 5; default: c += 7; }" % s)
    out.append("switch (a & 3) { default: c = 9; break; case 1: { %s } case 3: c -= 1; }" % s)
    out.append("switch (a) { case 1 + 2: case 0: %s }" % s)
    out.append("{ %s }" % s)
    out.append("{ { %s } c += 1; }" % s)
    out.append("if (a) goto done; %s done: c += 1;" % s)
    out.append("int i = 0; again: ++i; { %s } if (i < 2) goto again;" % s)
    return out


def _single(s):
    s = s.strip()
    if s.startswith("{") and s.endswith("}"):
        return s.count("{") == s.count("}") and _balanced_prefix(s)
    return s.count(";") == 1 and s.endswith(";") and not s.startswith(("int ", "const ", "float ", "unsigned ", "char ", "long "))


def _balanced_prefix(s):
    d = 0
    for i, ch in enumerate(s):
        if ch == "{":
            d += 1
        elif ch == "}":
            d -= 1
            if d == 0 and i != len(s) - 1:
                return False
    return True


def fam_stmt1(tier):
    out = []
    for s in SIMPLE:
        out.append(prog(s + " return c;"))
    for e in EXPRS:
        out.append(prog("return %s;" % e))
        out.append(prog("%s; return c;" % e))
        out.append(prog("int d = %s; return d;" % e))
        out.append(prog("if (%s) return 1; return 2;" % e))
        out.append(prog("if (%s) c = 1; else c = 2; return c;" % e))
        out.append(prog("int n = 0; while (%s) { if (++n > 2) break; } return n;" % e))
        out.append(prog("int n = 0; for (c = 0; %s; c++) { if (++n > 2) break; } return n + c;" % e))
        out.append(prog("int n = 0; do { ++n; } while (n < 3 && (%s)); return n;" % e))
        out.append(prog("switch (%s) { case 0: return 10; case 1: return 11; default: return 12; }" % e))
        out.append(prog("int v[4] = {%s, 1, 2, 3}; return v[0] + v[3];" % e))
    return out


def fam_stmt2(tier):
    """nesting depth 1 and 2: every construct around every simple statement, and every construct around every
    construct (over a sub-alphabet of simple statements in the quick tier)."""
    out = []
    for s in stmts0():
        for w in wrap1(s):
            out.append(prog(w + " return c;"))
    inner = ["c = a;", "return a;", "int d = a; c = d;"] if tier == "quick" else \
            ["c = a;", "return a;", "int d = a; c = d;", ";", "{ c = 1; }", "c = (a, b);"]
    loopers = ["break;", "continue;", "if (a) break;", "if (b) continue; c += 1;"]
    for s in inner:
        for w1 in wrap1(s):
            if "goto" in w1 or w1.startswith("int i"):
                # labels / the counter i must be unique per function: these are only used as the outer construct
                continue
            for w2 in wrap1(w1.replace("int i", "int k").replace("i <", "k <").replace("++i", "++k").replace("i++", "k++").replace("i >", "k >").replace(" i;", " k;").replace("i =", "k =").replace("--j", "--m").replace("j =", "m =").replace("< j", "< m")):
                out.append(prog(w2 + " return c;"))
    for s in loopers:
        for w in ["for (int i = 0; i < 3; ++i) { c += i; %s }", "int i = 0; while (i++ < 3) { %s c += 2; }",
                  "int i = 0; do { if (i > 1) { %s } c += 1; } while (++i < 3);",
                  "for (int i = 0; i < 2; ++i) { switch (a) { case 0: %s default: c += 1; } }",
                  "for (int i = 0; i < 2; ++i) for (int j = 0; j < 2; ++j) { %s c += j; }"]:
            if "switch" in w and "continue" not in s and "break" not in s:
                continue
            out.append(prog((w % s) + " return c;"))
    # dangling else and friends
    for x in ["if (a) if (b) c = 1; else c = 2;", "if (a) { if (b) c = 1; } else c = 2;", "if (a) { if (b) c = 1; else c = 2; }",
              "if (a) while (b) { c = 1; break; } else c = 2;", "if (a) for (;;) { break; } else c = 2;",
              "if (a) ; else c = 2;", "if (a) { } else { }", "if (a) c = 1; else if (b) c = 2; else if (c) c = 3; else c = 4;",
              "if (a) c = 1; else { if (b) c = 2; else c = 3; }", "if (a) { c = 1; } else { if (b) c = 2; } c += 1;",
              "while (a) if (b) break; else { c = 3; break; }", "do if (a) c = 1; else c = 2; while (0);",
              "for (;;) if (a) break; else { c = 7; break; }", "switch (a) case 0: c = 4;", "switch (a) { }",
              "switch (a) { case 0: { int d = 2; c = d; } break; default: ; }", "for (int i = 0; i < 2; ++i) ;", "while (0) ;",
              "{ int d = 1; { int d = 2; c = d; } c += d; }", "int d = 1; { int e = d + 1; c = e; }"]:
        out.append(prog(x + " return c;"))
    return out


FAMILIES = [("leaf", fam_leaves), ("unary", fam_unary), ("stmt1", fam_stmt1), ("binary", fam_binary), ("mixed", fam_mixed),
            ("pairs", fam_pairs), ("stmt2", fam_stmt2)]


def all_items(tier):
    seen, out = set(), []
    for name, f in FAMILIES:
        for t in f(tier):
            if t not in seen:
                seen.add(t)
                out.append((name, t))
    return out


if __name__ == "__main__":
    import collections, sys
    for tier in ("quick", "thorough"):
        items = all_items(tier)
        print(tier, len(items), dict(collections.Counter(f for f, _ in items)))
