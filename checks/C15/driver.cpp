// C15 driver: one program per line.  parse (parser_t) -> print -> parse -> print on the real libocca and a
// structural dump of both trees produced by a tree walker that does not use the printer for inner nodes.
//   S <0|1>   first parse succeeded
//   P1 <text> first print (escaped: \\ and \n)
//   T1 <dump> structural dump of the first tree
//   R <0|1>   second parse (of P1) succeeded
//   P2 <text> second print
//   T2 <dump>
#include <cstdio>
#include <fstream>
#include <iostream>
#include <string>

#include <occa/internal/lang/expr.hpp>
#include <occa/internal/lang/parser.hpp>
#include <occa/internal/lang/statement.hpp>
#include <occa/internal/lang/variable.hpp>
#include <occa/utils/exception.hpp>

using namespace occa;
using namespace occa::lang;

static std::string esc(const std::string &s) {
  std::string r;
  for (char ch : s) {
    if (ch == '\\') r += "\\\\";
    else if (ch == '\n') r += "\\n";
    else r += ch;
  }
  return r;
}

static std::string str(const exprNode &e) {
  return e.toString();
}

static void dumpExpr(exprNode *e, std::string &out) {
  if (!e) { out += "(null)"; return; }
  char buf[64];
  snprintf(buf, sizeof(buf), "(e%llu", (unsigned long long) e->type());
  out += buf;
  exprOpNode *opn = dynamic_cast<exprOpNode*>(e);
  if (opn) {
    out += " op[" + opn->op.str + "]";
  }
  if (parenCastNode *pc = dynamic_cast<parenCastNode*>(e)) {
    printer pout; pout << pc->valueType; out += " type[" + pout.str() + "]";
  } else if (funcCastNode *fc = dynamic_cast<funcCastNode*>(e)) {
    printer pout; pout << fc->valueType; out += " type[" + pout.str() + "]";
  }
  exprNodeVector children;
  e->pushChildNodes(children);
  if (children.empty()) {
    out += " leaf[" + esc(str(*e)) + "]";
  }
  for (exprNode *ch : children) {
    out += ' ';
    dumpExpr(ch, out);
  }
  out += ')';
}

static void dumpStatement(statement_t *s, std::string &out) {
  if (!s) { out += "(null)"; return; }
  out += "(s:" + s->statementName();
  if (s->is<declarationStatement>()) {
    declarationStatement &d = s->to<declarationStatement>();
    for (variableDeclaration &decl : d.declarations) {
      printer pout;
      decl.variable().printDeclaration(pout);
      out += " var[" + esc(pout.str()) + "]";
      if (decl.value) { out += " ="; dumpExpr(decl.value, out); }
    }
  } else {
    exprNodeArray exprs = s->getDirectExprNodes();
    for (smntExprNode &se : exprs) {
      out += ' ';
      dumpExpr(se.node, out);
    }
  }
  if (s->is<returnStatement>()) {
    out += " value";
    dumpExpr(s->to<returnStatement>().value, out);
  } else if (s->is<caseStatement>()) {
    out += " value";
    dumpExpr(s->to<caseStatement>().value, out);
  } else if (s->is<whileStatement>()) {
    out += s->to<whileStatement>().isDoWhile ? " do-while" : " while";
  }
  if (s->is<gotoStatement>()) {
    out += " label[" + s->to<gotoStatement>().label() + "]";
  } else if (s->is<gotoLabelStatement>()) {
    out += " label[" + s->to<gotoLabelStatement>().label() + "]";
  } else if (s->is<functionDeclStatement>()) {
    printer pout; s->to<functionDeclStatement>().function().printDeclaration(pout);
    out += " func[" + esc(pout.str()) + "]";
  }
  statementArray inner = s->getInnerStatements();
  for (statement_t *in : inner) {
    out += " in";
    dumpStatement(in, out);
  }
  if (s->is<blockStatement>()) {
    blockStatement &b = s->to<blockStatement>();
    for (statement_t *ch : b.children) {
      out += ' ';
      dumpStatement(ch, out);
    }
  }
  out += ')';
}

// One parser for all items, as in the repository's own parser tests (constructing a parser_t costs ~50 ms under
// ASan); parseSource() clears it first.
static parser_t *theParser = NULL;

static bool parseOnce(const std::string &src, std::string &printed, std::string &dump) {
  if (!theParser) {
    theParser = new parser_t();
  }
  parser_t &parser = *theParser;
  parser.parseSource(src);
  if (!parser.success) {
    return false;
  }
  {
    printer pout;
    parser.root.print(pout);
    printed = pout.str();
  }
  dumpStatement(&parser.root, dump);
  return true;
}

int main(int argc, char **argv) {
  std::ifstream in(argv[argc - 1]);
  std::string line;
  int idx = 0;
  while (std::getline(in, line)) {
    printf("BEGIN %d\n", idx);
    fflush(stdout);
    try {
      std::string p1, t1, p2, t2;
      const bool ok1 = parseOnce(line, p1, t1);
      printf("S %d\n", (int) ok1);
      if (ok1) {
        printf("P1 %s\n", esc(p1).c_str());
        printf("T1 %s\n", t1.c_str());
        fflush(stdout);
        const bool ok2 = parseOnce(p1, p2, t2);
        printf("R %d\n", (int) ok2);
        if (ok2) {
          printf("P2 %s\n", esc(p2).c_str());
          printf("T2 %s\n", t2.c_str());
        }
      }
    } catch (occa::exception &e) {
      std::string msg = e.message;
      for (size_t i = 0; i < msg.size(); ++i) if (msg[i] == '\n') msg[i] = ' ';
      printf("X %s\n", msg.c_str());
    }
    printf("END %d\n", idx);
    fflush(stdout);
    ++idx;
  }
  return 0;
}
