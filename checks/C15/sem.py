"""Semantic side of C15: g++ evaluates the original and the printed function on all valuations.

One TU per chunk; every program i contributes
    namespace o<i> { <original text> }      (#line 1 "O<i>")
    namespace p<i> { <printed text>  }      (#line 1 "P<i>")
so that compile errors can be attributed to a program (an original g++ rejects is not C++: dropped from the
semantic comparison; a printed text g++ rejects while the original compiles is an observation).
Compiled with -fsanitize=undefined,float-divide-by-zero,float-cast-overflow: valuations on which the
*original* reports undefined behaviour are skipped.
"""
import os, re, subprocess
from concurrent.futures import ThreadPoolExecutor

VALS = (-2, 0, 1, 3)

PRELUDE = r'''
#include <cstdio>
#include <csetjmp>
#include <csignal>
#include <unistd.h>
#include <sys/time.h>
static int g(int x, int y) { return x * 3 - y; }
static int h(int x) { return x ^ 5; }
typedef double (*FN)(int&, int&, int&, int*);
'''

MAIN = r'''
static sigjmp_buf JB;
static void on_sig(int s){ siglongjmp(JB, s); }
static void one(const char *tag, int i, int v, FN fn, int a, int b, int c) {
  int p[4] = {5, -7, 2, 11};
  printf("@ %s %d %d\n", tag, i, v);
  int s = sigsetjmp(JB, 1);
  if (s == 0) {
    // guard against a non-terminating printed program: 5 s of *CPU* time (never wall-clock time)
    struct itimerval on = {{0, 0}, {5, 0}}, off = {{0, 0}, {0, 0}};
    setitimer(ITIMER_VIRTUAL, &on, 0);
    double r = fn(a, b, c, p);
    setitimer(ITIMER_VIRTUAL, &off, 0);
    printf("R %a %d %d %d %d %d %d %d\n", r, a, b, c, p[0], p[1], p[2], p[3]);
  } else {
    printf("\nX signal %d\n", s);
  }
}
int main(){
  dup2(1, 2); setvbuf(stdout, 0, _IOLBF, 0);
  signal(SIGFPE, on_sig); signal(SIGSEGV, on_sig); signal(SIGVTALRM, on_sig);
  static const int V[4] = {-2, 0, 1, 3};
  for (int i = 0; i < N; ++i) {
    for (int v = 0; v < 64; ++v) {
      one("O", IDS[i], v, FO[i], V[v / 16], V[(v / 4) % 4], V[v % 4]);
      one("P", IDS[i], v, FP[i], V[v / 16], V[(v / 4) % 4], V[v % 4]);
    }
  }
  printf("@ done\n");
  return 0;
}
'''

FLAGS = ["-std=c++17", "-O0", "-w", "-fmax-errors=0", "-fsanitize=undefined,float-divide-by-zero,float-cast-overflow"]


def _tu(progs):
    """progs: list of (id, original, printed)"""
    parts = [PRELUDE]
    for pid, o, p in progs:
        parts.append('namespace o%d {\n#line 1 "O%d"\n%s\n}\n' % (pid, pid, o))
        parts.append('namespace p%d {\n#line 1 "P%d"\n%s\n}\n' % (pid, pid, p))
    parts.append('#line 1 "MAIN"\n')
    parts.append("static const int N = %d;\n" % len(progs))
    parts.append("static const int IDS[] = {%s};\n" % ",".join(str(pid) for pid, _, _ in progs))
    parts.append("static FN FO[] = {%s};\n" % ",".join("o%d::f" % pid for pid, _, _ in progs))
    parts.append("static FN FP[] = {%s};\n" % ",".join("p%d::f" % pid for pid, _, _ in progs))
    parts.append(MAIN)
    return "".join(parts)


class SemResult:
    __slots__ = ("orig_valid", "printed_valid", "err", "judged", "skipped_ub", "diffs")

    def __init__(self):
        self.orig_valid = True
        self.printed_valid = True
        self.err = ""
        self.judged = 0          # valuations compared
        self.skipped_ub = 0      # valuations skipped because the original is undefined there
        self.diffs = []          # (valuation index, original line, printed line)


def _chunk(ci, progs, workdir, env):
    res = dict((pid, SemResult()) for pid, _, _ in progs)
    cur = list(progs)
    src = os.path.join(workdir, "sem%d.cpp" % ci)
    exe = os.path.join(workdir, "sem%d" % ci)
    for attempt in range(6):
        if not cur:
            return ("ok", res)
        with open(src, "w") as f:
            f.write(_tu(cur))
        p = subprocess.run(["g++"] + FLAGS + [src, "-o", exe], stdout=subprocess.PIPE, stderr=subprocess.STDOUT, text=True, env=env)
        if p.returncode == 0:
            break
        bad_o, bad_p = {}, {}
        for ln in p.stdout.split("\n"):
            m = re.match(r"^([OP])(\d+):\d+:\d+: error: (.*)$", ln)
            if m:
                d = bad_o if m.group(1) == "O" else bad_p
                d.setdefault(int(m.group(2)), m.group(3))
        if not bad_o and not bad_p:
            return ("compile-error", "unattributable g++ error in %s:\n%s" % (src, p.stdout[-3000:]))
        for pid, msg in bad_o.items():
            res[pid].orig_valid = False
            res[pid].err = msg
        for pid, msg in bad_p.items():
            if pid not in bad_o:
                res[pid].printed_valid = False
                res[pid].err = msg
        cur = [x for x in cur if x[0] not in bad_o and x[0] not in bad_p]
    else:
        return ("compile-error", "g++ errors did not converge in %s" % src)
    try:
        q = subprocess.run([exe], stdout=subprocess.PIPE, stderr=subprocess.STDOUT, text=True, env=env, cwd=workdir,
                           timeout=900 + 3 * len(cur))
    except subprocess.TimeoutExpired:
        return ("run-error", "timeout running %s" % exe)
    obs = {}
    key = None
    done = False
    for ln in q.stdout.split("\n"):
        if ln.startswith("@ "):
            if ln == "@ done":
                done = True
                key = None
                continue
            f = ln.split()
            key = (f[1], int(f[2]), int(f[3]))
            obs[key] = ["", False]
        elif key is None:
            continue
        elif ln.startswith("R "):
            obs[key][0] = ln
        elif "runtime error:" in ln or ln.startswith("X "):
            obs[key][1] = True
            if not obs[key][0]:
                obs[key][0] = ln.split("runtime error:")[-1].strip()
    if not done or q.returncode != 0:
        return ("run-error", "reference binary %s failed:\n%s" % (exe, q.stdout[-2000:]))
    for pid, _, _ in cur:
        r = res[pid]
        for v in range(64):
            o = obs.get(("O", pid, v))
            p_ = obs.get(("P", pid, v))
            if o is None or p_ is None:
                return ("run-error", "missing observation for program %d valuation %d" % (pid, v))
            if o[1]:
                r.skipped_ub += 1
                continue
            r.judged += 1
            if p_[1] or p_[0] != o[0]:
                r.diffs.append((v, o[0], ("UB: " if p_[1] else "") + p_[0]))
    for e in (src, exe):
        try:
            os.unlink(e)
        except OSError:
            pass
    return ("ok", res)


def run(progs, workdir, env, chunk=150, workers=16):
    """progs: list of (id, original, printed) -> (dict id -> SemResult, error)"""
    os.makedirs(workdir, exist_ok=True)
    chunks = [progs[i:i + chunk] for i in range(0, len(progs), chunk)]
    out = {}
    with ThreadPoolExecutor(max_workers=workers) as ex:
        for st, res in ex.map(lambda a: _chunk(a[0], a[1], workdir, env), list(enumerate(chunks))):
            if st != "ok":
                return None, res
            out.update(res)
    return out, None


def valuation(v):
    return (VALS[v // 16], VALS[(v // 4) % 4], VALS[v % 4])
