#!/usr/bin/env python3
"""C15: printing a parsed program preserves its meaning and re-parses identically (E2 enumx).

For every program of the bounded grammar in gen.py that libocca's parser_t accepts:
   parse -> print (P1) -> parse -> print (P2) on the real library (rel build: a parse costs ~50 ms under ASan
   because parser_t::clear() re-tokenises every compiler define, which would not fit the quick budget);
   (1) P1 must parse again, (2) the two trees must be structurally equal (tree walker in driver.cpp),
   (3) P2 == P1, and (4) g++ must evaluate P1 to the same results as the original text on all 64
   valuations of (a,b,c) in {-2,0,1,3}^3 (valuations on which the original is undefined under UBSan are skipped).
When P1 and the original are the same token sequence (neutral tokenizer, adjacent string literals kept
separate) clause (4) holds trivially and g++ is only consulted in the thorough tier.
"""
import os, re, sys, time
sys.path.insert(0, os.path.dirname(os.path.dirname(os.path.dirname(os.path.abspath(__file__)))))
HERE = os.path.dirname(os.path.abspath(__file__))
sys.path.insert(0, HERE)
from vlib.core import Check, san_env, load_replay
from vlib import batch
import gen, sem

VARIANT = "rel"

_TOK = re.compile(r"""\s*(
    [A-Za-z_][A-Za-z_0-9]* |
    (?:0[xX][0-9a-fA-F]+|0[bB][01]+|(?:[0-9]+\.?[0-9]*|\.[0-9]+)(?:[eE][+-]?[0-9]+)?)[uUlLfF]* |
    '(?:\\.|[^'\\])*' |
    "(?:\\.|[^"\\])*" |
    <<=|>>=|\.\.\.|->\*|<<|>>|<=|>=|==|!=|&&|\|\||\+\+|--|\+=|-=|\*=|/=|%=|&=|\|=|\^=|->|::|
    [-+*/%<>=!~&|^?:;,.(){}\[\]\#]
  )""", re.X)


def ctokens(s):
    out, i = [], 0
    s = s.rstrip()
    while i < len(s):
        m = _TOK.match(s, i)
        if not m:
            out.append(s[i:].strip())
            break
        out.append(m.group(1))
        i = m.end()
    return out


def tclass(t):
    if t is None:
        return "END"
    if t[0] == "'":
        return "char-literal"
    if t[0] == '"':
        return "string-literal"
    if t[0].isdigit() or (t[0] == "." and len(t) > 1):
        return "number"
    if t[0].isalpha() or t[0] == "_":
        return "keyword-" + t if t in ("if", "else", "for", "while", "do", "switch", "case", "default", "return", "goto", "break",
                                       "continue", "sizeof", "int", "const", "float", "char", "unsigned", "long", "double") else "identifier"
    return t


_LOW = ("(", ")", "{", "}", ";")


def first_diff(a, b):
    """feature of the difference between two token sequences: the most specific token class that occurs a
    different number of times in the two (literals before operators before parentheses before braces/keywords)"""
    if a == b:
        return "same-tokens"
    # the printer adds braces around single-statement bodies: only a feature if nothing else differs
    fa, fb = [t for t in a if t not in "{};"], [t for t in b if t not in "{};"]
    if fa == fb:
        return "braces-semicolons"
    a, b = fa, fb
    ca, cb = {}, {}
    for t in a:
        ca[t] = ca.get(t, 0) + 1
    for t in b:
        cb[t] = cb.get(t, 0) + 1
    diff = sorted(set(t for t in set(ca) | set(cb) if ca.get(t, 0) != cb.get(t, 0)))
    if not diff:
        return "token-order"
    classes = sorted(set(tclass(t) for t in diff))
    for want in ("char-literal", "string-literal", "number"):
        if want in classes:
            return want
    ops = [c for c in classes if not c[0].isalpha() and c not in _LOW]
    if ops:
        return "operator" + "".join(ops)
    for want in ("(", "{", ";"):
        if want in classes or {"(": ")", "{": "}", ";": ";"}[want] in classes:
            return {"(": "parentheses", "{": "braces", ";": "semicolon"}[want]
    return classes[0]


def unesc(s):
    out, i = [], 0
    while i < len(s):
        if s[i] == "\\" and i + 1 < len(s):
            out.append("\n" if s[i + 1] == "n" else s[i + 1])
            i += 2
        else:
            out.append(s[i])
            i += 1
    return "".join(out)


def occa_roundtrip(exe, texts, workdir, env, deadline=None):
    res, complete = batch.run_items([exe], texts, workdir, env, chunk=900, per_item_timeout=1.0, deadline=deadline)
    out = []
    for r in res:
        d = {"crash": None, "S": None, "R": None, "P1": None, "P2": None, "T1": None, "T2": None, "X": None}
        for ln in r.lines:
            k, _, v = ln.partition(" ")
            if k in ("S", "R"):
                d[k] = v == "1"
            elif k in ("P1", "P2"):
                d[k] = unesc(v)
            elif k in ("T1", "T2", "X"):
                d[k] = v
        if r.crash:
            why = r.crash
            if "runtime error:" in r.stderr:
                why = "ubsan"
            elif "AddressSanitizer" in r.stderr:
                why = "asan"
            d["crash"] = (why, r.stderr[-500:])
        out.append(d)
    return out, complete


def main():
    c = Check("C15", "exploration")
    c.build(VARIANT)
    exe = c.compile(os.path.join(HERE, "driver.cpp"), "driver", variant=VARIANT)
    env = san_env(c.scratch)
    genv = dict(os.environ)
    genv["LC_ALL"] = "C"
    semdir = os.path.join(c.scratch, "sem")

    if c.args.replay:
        r = load_replay(c.args.replay)
        text = r["replay"]["text"]
        oc, _ = occa_roundtrip(exe, [text], c.scratch, env)
        d = oc[0]
        print("original :", text)
        print("parsed   :", d["S"], " crash:", d["crash"], " exception:", d["X"])
        bad = bool(d["crash"] or d["X"])
        if d["S"]:
            print("printed  :", d["P1"])
            print("reparsed :", d["R"])
            bad = bad or not d["R"]
            if d["R"]:
                print("same tree:", d["T1"] == d["T2"], "  fixpoint:", d["P1"] == d["P2"])
                bad = bad or d["T1"] != d["T2"] or d["P1"] != d["P2"]
            sr, err = sem.run([(0, text, d["P1"])], semdir, genv)
            if err:
                c.harness_error(err)
            s = sr[0]
            print("g++      : original valid %s, printed valid %s, valuations judged %d, skipped (UB) %d, differing %d %s" % (
                s.orig_valid, s.printed_valid, s.judged, s.skipped_ub, len(s.diffs), s.diffs[:2]))
            bad = bad or (s.orig_valid and (not s.printed_valid or s.diffs))
        sys.exit(1 if bad else 0)

    deadline = c.t0 + c.budget(600, 3000)
    stages = {}
    tmark = [c.t0]

    def stage(name):
        now = time.time()
        stages[name] = round(now - tmark[0], 1)
        tmark[0] = now

    stage("build+harness")
    items = gen.all_items(c.tier)
    texts = [t for _, t in items]
    fam_of = dict((t, f) for f, t in items)
    oc, complete = occa_roundtrip(exe, texts, os.path.join(c.scratch, "occa"), env, deadline)
    judged = len(oc)
    stage("libocca")

    parsed, need_sem, trivially_same = [], [], 0
    nviol = {}

    def viol(sig, detail, text):
        nviol[sig] = nviol.get(sig, 0) + 1
        c.violation(sig, detail, {"text": text})

    for idx, (t, d) in enumerate(zip(texts, oc)):
        otoks = ctokens(t)
        if d["crash"]:
            viol("crash:%s:%s" % (d["crash"][0], fam_of[t]), "%r: libocca crashed (%s) %s" % (t, d["crash"][0], d["crash"][1].strip().split("\n")[0][:200]), t)
            continue
        if d["X"] is not None:
            viol("exception:%s" % fam_of[t], "%r: occa::exception %s" % (t, d["X"][:200]), t)
            continue
        if not d["S"]:
            continue                      # not accepted by the parser: outside the property
        parsed.append(t)
        p1toks = ctokens(d["P1"])
        if not d["R"]:
            viol("reparse-fails:" + first_diff(otoks, p1toks), "%r printed as %r, which libocca does not parse" % (t, d["P1"]), t)
            continue
        if d["T1"] != d["T2"]:
            viol("tree-differs:" + first_diff(otoks, p1toks), "%r printed as %r; re-parsed tree differs: %s  vs  %s" % (
                t, d["P1"], d["T1"][:300], d["T2"][:300]), t)
            continue
        if d["P1"] != d["P2"]:
            viol("print-not-fixpoint:" + first_diff(p1toks, ctokens(d["P2"])), "%r: first print %r, second print %r" % (t, d["P1"], d["P2"]), t)
            continue
        if otoks == p1toks:
            trivially_same += 1
            if c.tier == "quick":
                continue
        need_sem.append((idx, t, d["P1"]))

    sr, err = sem.run(need_sem, semdir, genv)
    if err:
        c.harness_error("g++ reference failed: " + err)
    stage("g++ semantics")
    sem_judged = sem_vals = sem_skipped = not_cxx = 0
    sem_outcomes = set()
    for idx, t, p1 in need_sem:
        s = sr[idx]
        if not s.orig_valid:
            not_cxx += 1
            continue
        fd = first_diff(ctokens(t), ctokens(p1))
        if not s.printed_valid:
            viol("printed-not-compilable:" + fd, "%r printed as %r: g++ accepts the original but rejects the printed text (%s)" % (t, p1, s.err[:160]), t)
            continue
        sem_judged += 1
        sem_vals += s.judged
        sem_skipped += s.skipped_ub
        if s.diffs:
            v, o, p = s.diffs[0]
            viol("meaning-differs:" + fd, "%r printed as %r: for (a,b,c)=%s original gives [%s], printed gives [%s] (%d of %d valuations differ)" % (
                t, p1, sem.valuation(v), o, p, len(s.diffs), s.judged), t)
        else:
            sem_outcomes.add(fd)

    # ---- vacuity ---------------------------------------------------------------------------------------------
    fams = {}
    for t in parsed:
        fams[fam_of[t]] = fams.get(fam_of[t], 0) + 1
    c.vacuity(len(parsed) >= 0.9 * judged, "at least 90%% of the generated programs are accepted by libocca's parser (%d of %d)" % (len(parsed), judged))
    c.vacuity(all(fams.get(f, 0) > 0 for f, _ in gen.FAMILIES), "every family has parsed programs: %s" % fams)
    c.vacuity(sem_judged >= 50 and sem_vals >= 1000, "g++ compared original and printed text for >= 50 programs / 1000 valuations (%d / %d)" % (sem_judged, sem_vals))
    c.vacuity(not_cxx <= 0.2 * max(1, len(need_sem)), "at most 20%% of the compared originals are rejected by g++ (%d of %d)" % (not_cxx, len(need_sem)))
    kinds = set()
    for d in oc:
        if d["T1"]:
            kinds.update(re.findall(r"\(s:(\w+)", d["T1"]))
            kinds.update("e" + k for k in re.findall(r"\(e(\d+)", d["T1"]))
    c.vacuity(len([k for k in kinds if not k.startswith("e")]) >= 12 and len([k for k in kinds if k.startswith("e")]) >= 12,
              "at least 12 statement kinds and 12 expression node kinds occur in the parsed trees: %s" % sorted(kinds))

    distinct_prints = len(set(d["P1"] for d in oc if d["P1"]))
    samples = []
    for f, _ in gen.FAMILIES:
        ex = [(t, d) for t, d in zip(texts, oc) if fam_of[t] == f and d["P1"]]
        for t, d in ex[:1] + ex[len(ex) // 2:len(ex) // 2 + 1]:
            samples.append("%s => %s" % (t[len(gen.HEAD):-len(gen.TAIL)], " ".join(d["P1"].split())[:160]))
    c.set_exploration(
        evaluations=judged, distinct_nontrivial=distinct_prints,
        rule="for every generated program that parser_t accepts: print(parse(src)) parses again, the two trees are structurally "
             "equal, the second print equals the first, and g++ evaluates the printed function to the same result and final state "
             "as the original on every valuation in {-2,0,1,3}^3 where the original is defined",
        samples=samples, exhaustive=bool(complete),
        generated=len(texts), parsed=len(parsed), per_family_parsed=fams,
        same_token_sequence=trivially_same, compared_by_gxx=sem_judged, valuations_compared=sem_vals,
        valuations_skipped_original_undefined=sem_skipped, originals_rejected_by_gxx=not_cxx,
        node_kinds_seen=len(kinds), stage_seconds=stages, distinct_violation_signatures=len(nviol),
        alphabet="expressions: variables a b c, p[..], %d numeric / %d character / %d string literal spellings, %d binary + %d assignment "
                 "operators, comma, ?:, prefix/postfix unary, %d casts, sizeof, calls, parentheses in every tree-changing position; "
                 "statements: declarations with initialisers, if/else, for, while, do, switch/case/default, break, continue, return, "
                 "blocks, goto/labels, nesting <= 2" % (len(gen.NUMS), len(gen.CHARS), len(gen.STRS), len(gen.ARITH), len(gen.ASSIGN), len(gen.CASTS)),
    )
    c.assumptions += ["structural equality is judged by driver.cpp's walker (node kind, operator, cast type, leaf spelling, statement kind, declarations)",
                      "token-identical original/printed texts are semantically equal by definition; g++ is consulted for all programs only in the thorough tier",
                      "side effects are restricted to c and p[1] so that no program depends on unsequenced evaluation"]
    c.finish()


from vlib.core import run_main
run_main(main)
