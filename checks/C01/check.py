#!/usr/bin/env python3
"""C01: handles release each backend object exactly once, for any handle history (E1 histbfs).

One generic harness, six configurations (which handle variables exist, how many backend objects a
history may create): memory, memoryPool, kernel, stream, device and one mixed system for
modeDevice_t::freeResources.  Every configuration is explored by BFS over operation histories on the
real library (ASan+UBSan build with the guarded live-object counters)."""
import glob, os, shutil, sys, time
sys.path.insert(0, os.path.dirname(os.path.dirname(os.path.dirname(os.path.abspath(__file__)))))
from vlib.core import Check, san_env, load_replay, sh
from vlib import histbfs

HERE = os.path.dirname(os.path.abspath(__file__))

# (configuration, depth quick, depth thorough, share of the time budget)
CONFIGS = [
    ("memory",     5, 7, 0.24),
    ("memoryPool", 5, 7, 0.20),
    ("kernel",     5, 7, 0.10),
    ("stream",     5, 7, 0.12),
    ("device",     5, 7, 0.16),
    ("mixed",      4, 6, 0.18),
]

OPS = ["?", "new", "assign", "moveVar", "copyTmp", "swap", "free", "drop", "dontUseRefs", "slice", "reserve",
       "setStream", "getStream", "wrap"]

# facts that must have been reached for the exploration to mean something (per configuration)
GUARDS = {
    "memory": ["destroyed-by-last-handle:memory", "free-with-other-handles:memory", "two-memories-on-one-buffer",
               "ring-of-3", "kept-by-dontUseRefs:memory", "cascade:device>buffer", "cascade:buffer>memory"],
    "memoryPool": ["destroyed-by-last-handle:memoryPool", "free-with-other-handles:memoryPool", "cascade:memoryPool>memory",
                   "ring-of-3", "kept-by-dontUseRefs:memoryPool", "cascade:device>memoryPool"],
    "kernel": ["destroyed-by-last-handle:kernel", "free-with-other-handles:kernel", "ring-of-3", "cascade:device>kernel",
               "kept-by-dontUseRefs:kernel"],
    "stream": ["destroyed-by-last-handle:stream", "free-with-other-handles:stream", "ring-of-3", "cascade:device>stream"],
    "device": ["destroyed-by-last-handle:device", "free-with-other-handles:device", "ring-of-3", "cascade:device>buffer",
               "kept-by-dontUseRefs:device"],
    "mixed": ["cascade:device>memoryPool", "cascade:device>kernel", "cascade:device>buffer", "cascade:memoryPool>memory"],
}


def prepare_kernel(c, exe, env):
    """Build the one trivial Serial kernel of this run through the real JIT path and copy the binary to a
    private directory (no build.json next to it, so creating a kernel object costs one dlopen)."""
    p = sh([exe, "prep"], env=env, cwd=c.scratch)
    path = None
    for ln in p.stdout.split("\n"):
        if ln.startswith("BINARY "):
            path = ln[7:].strip()
    if p.returncode != 0 or not path or not os.path.isfile(path):
        c.harness_error("could not build the kernel binary: rc=%s\n%s" % (p.returncode, p.stdout[-2000:]))
    kdir = os.path.join(c.scratch, "kern")
    os.makedirs(kdir, exist_ok=True)
    dst = os.path.join(kdir, "k.so")
    shutil.copyfile(path, dst)
    return dst


def confirm_timeouts(exe, env, cwd, violations):
    """A worker that ran out of time on an overloaded machine is not an observation: every timeout / watchdog kill
    is re-run alone with a generous limit.  If the single run passes, the timeout is dropped (and counted); if it
    shows a verdict of its own, that verdict replaces the timeout.  Returns (violations, number not reproduced)."""
    import re, subprocess
    keep, spurious = [], 0
    for sig, detail, hist in violations:
        if ":timeout" in sig or ":hang" in sig or "signal:14" in sig:
            try:
                p = subprocess.run([exe, "replay", hist or ";"], env=env, cwd=cwd, stdout=subprocess.PIPE,
                                   stderr=subprocess.PIPE, text=True, timeout=300)
                if p.returncode == 0:
                    spurious += 1
                    continue
                m = re.search(r"^  FAIL (\S+) :: (.*)$", p.stdout, re.M)
                if m:
                    sig, detail = m.group(1), m.group(2)
                elif p.returncode != -14:
                    cls = histbfs._crash_class("exit:%d" % p.returncode, p.stderr)
                    sig = re.sub(r":(timeout|hang)", ":" + cls, sig) if re.search(r":(timeout|hang)", sig) else "crash:" + cls
                    detail = histbfs._first_report(p.stderr)
            except subprocess.TimeoutExpired:
                pass
        keep.append((sig, detail, hist))
    return keep, spurious


def main():
    c = Check("C01", "model_checking")
    c.build("asan")
    exe = c.compile(os.path.join(HERE, "harness.cpp"), "harness")
    env0 = san_env(c.scratch)
    # registering the globals of the 120 MB instrumented library costs seconds per process start; the objects under
    # test live on the heap, so global-variable redzones are switched off for the workers
    env0["ASAN_OPTIONS"] += ":report_globals=0:quarantine_size_mb=32:malloc_context_size=6"   # 32 MB quarantine >> what one history frees
    env0["C01_KERNEL_BINARY"] = prepare_kernel(c, exe, env0)

    if c.args.replay:
        r = load_replay(c.args.replay)["replay"]
        env = dict(env0, C01_CONFIG=r["config"])
        p = sh([exe, "replay", r["history"] or ";"], env=env, cwd=c.scratch)
        print(p.stdout[-6000:])
        sys.exit(1 if p.returncode else 0)

    total = c.budget(300, 1200)   # wall clock; an idle 16-core machine needs about a quarter of it
    states = transitions = 0
    per_config = {}
    samples = []
    all_exhaustive = True
    sigs = set()
    spurious_total = 0
    t_start = time.time()
    only = os.environ.get("C01_ONLY")          # debugging aids: restrict to one configuration / override the depth
    configs = [x for x in CONFIGS if not only or x[0] in only.split(",")]
    for name, dq, dt, share in configs:
        depth = int(os.environ.get("C01_DEPTH", dq if c.tier == "quick" else dt))
        # workers do not symbolize reports (an addr2line run per crash costs seconds); --replay does
        env = dict(env0, ASAN_OPTIONS=env0["ASAN_OPTIONS"] + ":symbolize=0", C01_CONFIG=name)
        wd = os.path.join(c.scratch, "run-" + name)
        os.makedirs(wd, exist_ok=True)
        histbfs.check_keys.clear()
        # every configuration gets its share of what is left (unused budget is passed on)
        left_share = sum(sh_ for n_, _, _, sh_ in configs if n_ not in per_config)
        deadline = time.time() + max(30.0, (total - (time.time() - t_start)) * share / left_share)
        t1 = time.time()

        def crash_sig(op, crash, stderr, name=name):
            k = int(op.split(",")[0])
            cls = "hang" if crash == "signal:14" else histbfs._crash_class(crash, stderr)   # signal 14 = the harness watchdog
            return "crash:%s:%s:%s" % (cls, name, OPS[k] if 0 < k < len(OPS) else "?")

        # hangs are caught by the watchdog inside the harness, so the runner's own limit only has to cover a
        # stalled machine; a run in which the very first workers were lost is repeated, not reported
        for attempt in range(3):
            histbfs.check_keys.clear()
            res = histbfs.bfs(c, exe, depth, deadline, env, wd, crash_sig=crash_sig, per_item_timeout=120.0, chunk=128)
            res.violations, spurious = confirm_timeouts(exe, env, wd, res.violations)
            if not (spurious and res.depth_completed < 2 and not res.violations):
                break
            deadline = max(deadline, time.time() + 120.0)
        spurious_total += spurious
        for sig, detail, hist in res.violations:
            # readable form only for the first occurrence of a signature (describe() starts a process)
            readable = histbfs.describe(exe, hist, env) if sig not in sigs else hist
            sigs.add(sig)
            c.violation(sig, "[%s] %s :: %s" % (name, readable, detail),
                        {"config": name, "history": hist})
        if res.depth_completed < 2 and not res.violations and not c.violations and not res.budget_hit:   # out of budget = exit 0 with exhaustive:false (HOWTO rule 1)   # observations made so far are still reported
            c.harness_error("configuration %s: BFS did not complete depth 2 (completed %d)" % (name, res.depth_completed))
        events = set()
        for f in glob.glob(os.path.join(wd, "events.*")):
            events.update(l.strip() for l in open(f) if l.strip())
        reached = res.depth_completed >= depth or res.exhaustive
        # guards describe the target depth of a run without (unlisted) violations: violating transitions are not expanded
        if reached and not [v for v in c.violations if not c.known.match(v["sig"])]:
            for g in GUARDS[name]:
                c.vacuity(g in events, "configuration %s never reached situation %r" % (name, g))
        states += res.states
        transitions += res.transitions
        done = (res.depth_completed >= depth or res.exhaustive) and spurious == 0   # a lost worker = a transition not followed
        all_exhaustive = all_exhaustive and done
        per_config[name] = {"timeouts_not_reproduced": spurious, "states": res.states, "transitions": res.transitions, "depth_completed": res.depth_completed,
                            "depth_target": depth, "exhaustive_within_bound": done, "budget_hit": res.budget_hit,
                            "violating_transitions": sum(res.sig_counts.values()), "situations_reached": sorted(events),
                            "per_depth": res.per_depth, "wall_s": round(time.time() - t1, 1)}
        samples += ["[%s] %s" % (name, s) for s in res.samples[-2:]]

    c.set_model_checking(states, transitions, transitions, samples, exhaustive=all_exhaustive,
        per_config=per_config,
        depth_completed=min(v["depth_completed"] for v in per_config.values()),
        distinct_violation_signatures=len(sigs),
        alphabet="per handle kind (device, memory, memoryPool, kernel, stream): new/wrapMemory, assign(i,j) incl. self-assignment, "
                 "copy-construct-then-destroy, copy-construct + destroy original, swap (memory, memoryPool), free, drop (scope exit), "
                 "dontUseRefs, slice (second modeMemory_t on one buffer), pool.reserve, device.setStream/getStream; every history is "
                 "closed by device.free() followed by the destruction of all handle variables",
        oracle="reference-count model with ownership hierarchy; after every operation: live backend objects per kind (guarded "
               "counters) = model, every handle refers to the model's object / isInitialized()==false after free, "
               "memoryAllocated() = bytes of live non-wrapped buffers, ASan/UBSan clean; after closing: nothing left except "
               "devices detached by dontUseRefs",
        explanation="every transition is executed on the real libocca handles (exploration runs on the implementation, so every "
                    "explored trace is an implementation trace); state key = implementation rings in ring order, useRefs flags, "
                    "handle targets")
    c.assumptions += [
        "Serial mode only; 3 handle variables per kind (mixed system: 2 devices handles, 2 memories, 1 pool, 1 kernel, 1 stream), at most 3 objects per history",
        "destruction of an owner (device.free(), last device handle, pool, buffer) destroys what it owns and un-initialises those handles: taken as the documented meaning of 'at free()'",
        "pool sizes are read from the implementation (pool accounting is the subject of C04/C05)",
    ]
    c.finish()


from vlib.core import run_main
run_main(main)
