// C01: handles release each backend object exactly once, for any handle history.  System for E1 histbfs.
//
// One generic system; a *configuration* (env C01_CONFIG) fixes how many handle variables of each kind
// exist and how many backend objects a history may create.  Handle variables are heap allocated, so a
// destroyed handle variable is poisoned memory for ASan and a dangling ring entry becomes an ASan report.
//
// Reference model: plain reference counting with an ownership hierarchy
//   device > {kernel, stream, buffer, pool};  buffer/pool > memory
//   object alive <=> not freed  and  (handles > 0  or  dontUseRefs)  and  owner alive
//   a buffer lives exactly as long as one of its memories (slices) lives.
#include <map>
#include <set>
#include <algorithm>
#include <unistd.h>
#include <occa.hpp>
#include <occa/internal/core/device.hpp>
#include <occa/internal/core/buffer.hpp>
#include <occa/internal/core/memory.hpp>
#include <occa/internal/core/memoryPool.hpp>
#include <occa/internal/core/kernel.hpp>
#include <occa/internal/core/stream.hpp>
#include <occa/internal/utils/verif.hpp>
#include "histbfs_fork.hpp"

enum Kind { DEV = 0, MEM = 1, POOL = 2, KERN = 3, STRM = 4, BUF = 5, NKIND = 6 };
static const char *KN[] = {"device", "memory", "memoryPool", "kernel", "stream", "buffer"};
static const char *VN[] = {"d", "m", "p", "k", "s"};

enum { NEW = 1, ASSIGN, MOVE, COPYTMP, SWAP, FREE, DROP, DUR, SLICE, RESERVE, SETSTREAM, GETSTREAM, NEWWRAP, NOPS };
static const char *ON[] = {"?", "new", "assign", "moveVar", "copyTmp", "swap", "free", "drop", "dontUseRefs",
                           "slice", "reserve", "setStream", "getStream", "wrap"};

struct Config {
  const char *name;
  int nv[5];      // handle variables per kind (DEV..STRM)
  int maxObj[5];  // objects a history may create per kind
  bool slice, wrap, streamOps;
};

static const Config CONFIGS[] = {
  //                 d  m  p  k  s     D  M  P  K  S
  {"memory",       {0, 3, 0, 0, 0}, {0, 3, 0, 0, 0}, true,  true,  false},
  {"memoryPool",   {0, 1, 3, 0, 0}, {0, 2, 2, 0, 0}, false, false, false},
  {"kernel",       {0, 0, 0, 3, 0}, {0, 0, 0, 3, 0}, false, false, false},
  {"stream",       {0, 0, 0, 0, 3}, {0, 0, 0, 0, 2}, false, false, true},
  {"device",       {3, 1, 0, 0, 0}, {2, 1, 0, 0, 0}, false, false, false},
  {"mixed",        {2, 2, 1, 1, 1}, {1, 2, 1, 1, 1}, true,  false, false},
};
static const Config *CFG = &CONFIGS[0];
static std::string KERNEL_BINARY;
static char HOSTBUF[64];
static const unsigned WATCHDOG_S = 20;   // SIGALRM kills the worker; the engine attributes it to the running operation

static long liveOf(int kind) {
  switch (kind) {
  case DEV: return occa::verif::live(occa::verif::kDevice);
  case MEM: return occa::verif::live(occa::verif::kMemory);
  case POOL: return occa::verif::live(occa::verif::kMemoryPool);
  case KERN: return occa::verif::live(occa::verif::kKernel);
  case STRM: return occa::verif::live(occa::verif::kStream);
  case BUF: return occa::verif::live(occa::verif::kBuffer);
  }
  return 0;
}

struct Obj {
  int kind;
  bool alive = true, useRefs = true;
  int parent = -1;       // DEV for BUF/POOL/KERN/STRM, BUF or POOL for MEM
  void *impl = NULL;     // raw address of the backend object (never dereferenced unless the model says alive)
  bool wrapped = false, backing = false;
  size_t bytes = 0;
  int curStream = -1;    // DEV: object referenced by modeDevice_t::currentStream
};

struct HSys {
  hb::Ctx &ctx;
  // implementation side
  occa::device *hdev = NULL;                 // harness-owned device (configurations without device variables)
  occa::device *dv[4] = {0, 0, 0, 0};
  occa::memory *mv[4] = {0, 0, 0, 0};
  occa::memoryPool *pv[4] = {0, 0, 0, 0};
  occa::kernel *kv[4] = {0, 0, 0, 0};
  occa::stream *sv[4] = {0, 0, 0, 0};
  // model side
  std::vector<Obj> objs;
  int ref[5][4];
  int hidden = -1;                           // object id referenced by *hdev
  int created[5] = {0, 0, 0, 0, 0};
  bool swapped = false;
  long base[NKIND + 1];
  long baseTag;
  bool closed = false;
  int lastOp = 0;

  HSys(hb::Ctx &c) : ctx(c) {
    alarm(WATCHDOG_S);   // one history takes milliseconds; a corrupted ring can make the library loop forever
    for (int k = 0; k < NKIND; ++k) base[k] = liveOf(k);
    baseTag = occa::verif::live(occa::verif::kStreamTag);
    for (int k = 0; k < 5; ++k) for (int i = 0; i < 4; ++i) ref[k][i] = -1;
    for (int i = 0; i < CFG->nv[DEV]; ++i) dv[i] = new occa::device();
    for (int i = 0; i < CFG->nv[MEM]; ++i) mv[i] = new occa::memory();
    for (int i = 0; i < CFG->nv[POOL]; ++i) pv[i] = new occa::memoryPool();
    for (int i = 0; i < CFG->nv[KERN]; ++i) kv[i] = new occa::kernel();
    for (int i = 0; i < CFG->nv[STRM]; ++i) sv[i] = new occa::stream();
    if (CFG->nv[DEV] == 0) {
      hdev = new occa::device({{"mode", "Serial"}});
      hidden = newDeviceObj(hdev->getModeDevice());
    }
  }

  ~HSys() {
    if (ctx.fails.empty()) {   // (after a violation the implementation state is not trustworthy: abandon it)
      const bool j = ctx.judging;
      ctx.judging = false;
      try { closeAll(); } catch (...) {}
      ctx.judging = j;
    }
    alarm(0);
  }

  //---[ model ]-------------------------------------------------------------------------------
  int newObj(int kind, int parent, void *impl) {
    Obj o; o.kind = kind; o.parent = parent; o.impl = impl;
    objs.push_back(o);
    return (int) objs.size() - 1;
  }
  int newDeviceObj(occa::modeDevice_t *md) {
    int d = newObj(DEV, -1, md);
    int s = newObj(STRM, d, md->currentStream.getModeStream());
    objs[d].curStream = s;
    return d;
  }
  int refcount(int o) const {
    int n = 0;
    for (int k = 0; k < 5; ++k) for (int i = 0; i < CFG->nv[k]; ++i) n += (ref[k][i] == o);
    n += (hidden == o);
    for (const Obj &d : objs) if (d.kind == DEV && d.alive && d.curStream == o) ++n;
    return n;
  }
  void mDestroy(int o) {
    if (o < 0 || !objs[o].alive) return;
    objs[o].alive = false;
    for (int k = 0; k < 5; ++k) for (int i = 0; i < 4; ++i) if (ref[k][i] == o) ref[k][i] = -1;
    if (hidden == o) hidden = -1;
    for (Obj &d : objs) if (d.kind == DEV && d.curStream == o) d.curStream = -1;
    const int kind = objs[o].kind;
    if (kind == MEM) {
      const int p = objs[o].parent;
      if (objs[p].alive && objs[p].kind == BUF) {
        bool any = false;
        for (const Obj &m : objs) if (m.kind == MEM && m.alive && m.parent == p) any = true;
        if (!any) mDestroy(p);
      }
    } else {
      // cascade to everything owned
      for (int c = 0; c < (int) objs.size(); ++c)
        if (objs[c].alive && objs[c].parent == o) {
          hbf::event(std::string("cascade:") + KN[kind] + ">" + KN[objs[c].kind]);
          mDestroy(c);
        }
    }
  }
  void mAssign(int &slot, int o) {
    if (slot == o) return;
    const int old = slot;
    slot = o;
    if (old >= 0 && objs[old].alive && objs[old].useRefs && refcount(old) == 0) {
      hbf::event(std::string("destroyed-by-last-handle:") + KN[objs[old].kind]);
      mDestroy(old);
    }
  }
  bool aliveRef(int kind, int i) const { return ref[kind][i] >= 0 && objs[ref[kind][i]].alive; }
  int devObj(int c) const { return c < 0 ? hidden : ref[DEV][c]; }
  occa::device &devHandle(int c) { return c < 0 ? *hdev : *dv[c]; }

  //---[ alphabet ]----------------------------------------------------------------------------
  static std::string kindName(const hb::Op &o) { return (o.k > 0 && o.k < NOPS) ? ON[o.k] : "?"; }
  static std::string crashSig(const hb::Op &o, const std::string &cls) { return "crash:" + cls + ":" + CFG->name + ":" + kindName(o); }
  static std::string name(const hb::Op &o) {
    char b[96];
    auto dn = [](int c) { return c < 0 ? std::string("D") : "d" + std::to_string(c); };
    switch (o.k) {
    case NEW: snprintf(b, sizeof b, "%s%d=new %s(on %s)", VN[o.a], o.b, KN[o.a], dn(o.c).c_str()); break;
    case NEWWRAP: snprintf(b, sizeof b, "m%d=wrapMemory(on %s)", o.b, dn(o.c).c_str()); break;
    case ASSIGN: snprintf(b, sizeof b, "%s%d=%s%d", VN[o.a], o.b, VN[o.a], o.c); break;
    case SWAP: snprintf(b, sizeof b, "%s%d.swap(%s%d)", VN[o.a], o.b, VN[o.a], o.c); break;
    case SLICE: snprintf(b, sizeof b, "m%d=m%d.slice(1|0)", o.a, o.b); break;
    case RESERVE: snprintf(b, sizeof b, "m%d=p%d.reserve(8)", o.a, o.b); break;
    case SETSTREAM: snprintf(b, sizeof b, "%s.setStream(s%d)", dn(o.b).c_str(), o.a); break;
    case GETSTREAM: snprintf(b, sizeof b, "s%d=%s.getStream()", o.a, dn(o.b).c_str()); break;
    default: snprintf(b, sizeof b, "%s(%s%d)", kindName(o).c_str(), VN[o.a], o.b);
    }
    return b;
  }

  std::vector<hb::Op> enabled() {
    std::vector<hb::Op> v;
    // devices on which children can be created
    std::vector<int> devs;
    if (CFG->nv[DEV] == 0) { if (hidden >= 0) devs.push_back(-1); }
    else for (int c = 0; c < CFG->nv[DEV]; ++c) {
      if (!aliveRef(DEV, c)) continue;
      bool dup = false;   // two variables on the same device give the same call: keep the first
      for (int e : devs) if (ref[DEV][e] == ref[DEV][c]) dup = true;
      if (!dup) devs.push_back(c);
    }
    for (int k = 0; k < 5; ++k) {
      const int n = CFG->nv[k];
      for (int i = 0; i < n; ++i) {
        if (created[k] < CFG->maxObj[k]) {
          if (k == DEV) v.push_back(hb::Op(NEW, k, i, -1));
          else for (int d : devs) {
            v.push_back(hb::Op(NEW, k, i, d));
            if (k == MEM && CFG->wrap) v.push_back(hb::Op(NEWWRAP, k, i, d));
          }
        }
        for (int j = 0; j < n; ++j) v.push_back(hb::Op(ASSIGN, k, i, j));
        v.push_back(hb::Op(MOVE, k, i));
        v.push_back(hb::Op(COPYTMP, k, i));
        if (k == MEM || k == POOL) for (int j = i + 1; j < n; ++j) v.push_back(hb::Op(SWAP, k, i, j));
        v.push_back(hb::Op(FREE, k, i));
        v.push_back(hb::Op(DROP, k, i));
        v.push_back(hb::Op(DUR, k, i));
      }
    }
    if (CFG->slice && created[MEM] < CFG->maxObj[MEM])
      for (int i = 0; i < CFG->nv[MEM]; ++i) for (int j = 0; j < CFG->nv[MEM]; ++j)
        if (aliveRef(MEM, j) && objs[objs[ref[MEM][j]].parent].kind == BUF) v.push_back(hb::Op(SLICE, i, j));
    if (created[MEM] < CFG->maxObj[MEM])
      for (int i = 0; i < CFG->nv[MEM]; ++i) for (int j = 0; j < CFG->nv[POOL]; ++j)
        if (aliveRef(POOL, j)) v.push_back(hb::Op(RESERVE, i, j));
    if (CFG->streamOps)
      for (int d : devs) for (int i = 0; i < CFG->nv[STRM]; ++i) {
        v.push_back(hb::Op(SETSTREAM, i, d));
        v.push_back(hb::Op(GETSTREAM, i, d));
      }
    return v;
  }

  template <class H> void genericOp(const hb::Op &o, H **vars) {
    const int k = o.a, i = o.b, j = o.c;
    switch (o.k) {
    case ASSIGN: *vars[i] = *vars[j]; mAssign(ref[k][i], ref[k][j]); break;
    case MOVE: {   // copy-construct a new variable, then the old variable goes out of scope
      H *n = new H(*vars[i]);
      delete vars[i];
      vars[i] = n;
      break;
    }
    case COPYTMP: { H tmp(*vars[i]); } break;
    case FREE:
      if (ref[k][i] >= 0 && refcount(ref[k][i]) > 1) hbf::event(std::string("free-with-other-handles:") + KN[k]);
      vars[i]->free();
      mDestroy(ref[k][i]);
      break;
    case DROP: delete vars[i]; vars[i] = new H(); mAssign(ref[k][i], -1); break;
    case DUR:
      vars[i]->dontUseRefs();
      if (ref[k][i] >= 0) objs[ref[k][i]].useRefs = false;
      break;
    }
  }

  void apply(const hb::Op &o) {
    lastOp = o.k;
    const int k = o.a;
    switch (o.k) {
    case NEW: {
      const int i = o.b;
      created[k]++;
      int id = -1;
      if (k == DEV) {
        *dv[i] = occa::device({{"mode", "Serial"}});
        id = newDeviceObj(dv[i]->getModeDevice());
      } else {
        occa::device &d = devHandle(o.c);
        const int D = devObj(o.c);
        if (k == MEM) {
          *mv[i] = d.malloc(8);
          occa::modeMemory_t *mm = mv[i]->getModeMemory();
          int b = newObj(BUF, D, mm->modeBuffer);
          objs[b].bytes = 8;
          id = newObj(MEM, b, mm);
        } else if (k == POOL) {
          *pv[i] = d.createMemoryPool();
          id = newObj(POOL, D, pv[i]->getModeMemoryPool());
        } else if (k == KERN) {
          *kv[i] = d.buildKernelFromBinary(KERNEL_BINARY, "k");
          id = newObj(KERN, D, kv[i]->getModeKernel());
        } else if (k == STRM) {
          *sv[i] = d.createStream();
          id = newObj(STRM, D, sv[i]->getModeStream());
        }
      }
      mAssign(ref[k][i], id);
      break;
    }
    case NEWWRAP: {
      const int i = o.b;
      created[MEM]++;
      *mv[i] = devHandle(o.c).wrapMemory<void>(HOSTBUF, 8);
      occa::modeMemory_t *mm = mv[i]->getModeMemory();
      int b = newObj(BUF, devObj(o.c), mm->modeBuffer);
      objs[b].bytes = 8; objs[b].wrapped = true;
      mAssign(ref[MEM][i], newObj(MEM, b, mm));
      break;
    }
    case SWAP:
      swapped = true;
      if (k == MEM) mv[o.b]->swap(*mv[o.c]); else pv[o.b]->swap(*pv[o.c]);
      std::swap(ref[k][o.b], ref[k][o.c]);
      break;
    case SLICE: {
      const int i = o.a, j = o.b;
      created[MEM]++;
      const int src = ref[MEM][j];
      const int id = newObj(MEM, objs[src].parent, NULL);
      *mv[i] = mv[j]->slice(mv[j]->length() > 1 ? 1 : 0);   // always a valid request; a new modeMemory_t on the same buffer
      objs[id].impl = mv[i]->getModeMemory();
      mAssign(ref[MEM][i], id);
      hbf::event("two-memories-on-one-buffer");
      break;
    }
    case RESERVE: {
      const int i = o.a, j = o.b;
      created[MEM]++;
      const int P = ref[POOL][j];
      const int id = newObj(MEM, P, NULL);
      *mv[i] = pv[j]->reserve(8, occa::dtype::byte);   // (reserve<void> instantiates the generic template with the 0-byte dtype void)
      objs[P].backing = true;
      objs[id].impl = mv[i]->getModeMemory();
      mAssign(ref[MEM][i], id);
      break;
    }
    case SETSTREAM: {
      devHandle(o.b).setStream(*sv[o.a]);
      mAssign(objs[devObj(o.b)].curStream, ref[STRM][o.a]);
      break;
    }
    case GETSTREAM: {
      *sv[o.a] = devHandle(o.b).getStream();
      mAssign(ref[STRM][o.a], objs[devObj(o.b)].curStream);
      break;
    }
    default:
      switch (k) {
      case DEV: genericOp(o, dv); break;
      case MEM: genericOp(o, mv); break;
      case POOL: genericOp(o, pv); break;
      case KERN: genericOp(o, kv); break;
      case STRM: genericOp(o, sv); break;
      }
    }
    if (ctx.judging) oracle("");
  }

  //---[ oracle ]------------------------------------------------------------------------------
  std::string tail(const std::string &phase) const {
    std::string s = std::string(":") + ON[lastOp] + phase;
    if (swapped) s += ":after-swap";
    return s;
  }

  const void *implOf(int kind, int i) const {
    switch (kind) {
    case DEV: return dv[i]->getModeDevice();
    case MEM: return mv[i]->getModeMemory();
    case POOL: return pv[i]->getModeMemoryPool();
    case KERN: return kv[i]->getModeKernel();
    case STRM: return sv[i]->getModeStream();
    }
    return NULL;
  }
  bool initOf(int kind, int i) const {
    switch (kind) {
    case DEV: return dv[i]->isInitialized();
    case MEM: return mv[i]->isInitialized();
    case POOL: return pv[i]->isInitialized();
    case KERN: return kv[i]->isInitialized();
    case STRM: return sv[i]->isInitialized();
    }
    return false;
  }

  void oracle(const std::string &phase, bool varsExist = true) {
    // (b) live backend objects per kind = model-alive objects (destroyed exactly when the model says, once)
    long want[NKIND] = {0, 0, 0, 0, 0, 0};
    for (const Obj &o : objs) if (o.alive) {
      want[o.kind]++;
      if (o.kind == POOL) want[BUF] += 1 + (o.backing ? 1 : 0);   // a pool is a modeBuffer_t and owns one backing buffer
    }
    for (int k = 0; k < NKIND; ++k) {
      const long have = liveOf(k) - base[k];
      if (have != want[k]) {
        ctx.fail(std::string(have > want[k] ? "leak:" : "destroyed-early-or-twice:") + KN[k] + tail(phase),
                 std::string("live ") + KN[k] + " objects: implementation " + std::to_string(have) + ", model " + std::to_string(want[k]));
      }
    }
    if (occa::verif::live(occa::verif::kStreamTag) != baseTag) ctx.fail("leak:streamTag" + tail(phase), "stream tags alive");
    if (!ctx.fails.empty()) return;
    // (a) every handle variable refers to the object the model says (NULL / isInitialized()==false after free)
    if (varsExist) {
      for (int k = 0; k < 5; ++k) for (int i = 0; i < CFG->nv[k]; ++i) {
        const void *want_ = ref[k][i] >= 0 ? objs[ref[k][i]].impl : NULL;
        const bool init = initOf(k, i);
        if (init != (want_ != NULL))
          ctx.fail(std::string("isInitialized:") + KN[k] + (init ? ":stale-handle" : ":lost-handle") + tail(phase),
                   std::string(VN[k]) + std::to_string(i) + ".isInitialized()=" + std::to_string(init) + ", model " + std::to_string(want_ != NULL));
        else if (implOf(k, i) != want_)
          ctx.fail(std::string("handle-target:") + KN[k] + tail(phase), std::string(VN[k]) + std::to_string(i) + " refers to a different object than the model");
      }
      if (hdev && hdev->isInitialized() != (hidden >= 0))
        ctx.fail("isInitialized:device:harness-handle" + tail(phase), "harness device handle");
    }
    if (!ctx.fails.empty()) return;
    // (c) accounted device memory of every live device = bytes of live, non-wrapped buffers
    for (int d = 0; d < (int) objs.size(); ++d) if (objs[d].kind == DEV && objs[d].alive) {
      occa::modeDevice_t *md = (occa::modeDevice_t*) objs[d].impl;
      size_t want_ = 0;
      for (const Obj &o : objs) if (o.alive && o.parent == d) {
        if (o.kind == BUF && !o.wrapped) want_ += o.bytes;
        if (o.kind == POOL && o.backing) want_ += ((occa::modeMemoryPool_t*) o.impl)->buffer->size;
      }
      if ((size_t) md->bytesAllocated != want_)
        ctx.fail("memoryAllocated" + tail(phase), "memoryAllocated()=" + std::to_string((size_t) md->bytesAllocated) + ", live non-wrapped buffers hold " + std::to_string(want_));
    }
  }

  //---[ canonical implementation state ]-------------------------------------------------------
  std::map<const void*, std::string> entryNames;

  template <class E> std::string ringStr(const occa::gc::ring_t<E> &ring) {
    std::string s = ring.useRefs ? "u[" : "n[";
    const occa::gc::ringEntry_t *e = ring.head;
    int n = 0;
    if (e) do {
      auto it = entryNames.find((const void*) e);
      s += (it == entryNames.end() ? std::string("?") : it->second) + ",";
      e = e->rightRingEntry;
      if (++n > 16) { s += "CORRUPT"; ctx.fail("ring-corrupt" + tail(""), "handle ring does not close"); break; }
    } while (e != ring.head);
    if (n >= 3) hbf::event("ring-of-3");
    return s + "]";
  }
  std::string targets(int kind, const void *impl) {
    std::string s = "t(";
    for (int i = 0; i < CFG->nv[kind]; ++i) if (implOf(kind, i) == impl) s += std::to_string(i);
    return s + ")";
  }
  std::string memStr(occa::modeMemory_t *m) {
    return "M{" + ringStr(m->memoryRing) + targets(MEM, m) + "o" + std::to_string(m->offset) + "s" + std::to_string(m->size) + "}";
  }
  template <class E, class F> std::string entries(const occa::gc::ring_t<E> &ring, F f) {
    std::string s;
    const occa::gc::ringEntry_t *e = ring.head;
    int n = 0;
    if (e) do {
      s += f((E*) e);
      e = e->rightRingEntry;
      if (++n > 16) { s += "CORRUPT"; ctx.fail("ring-corrupt" + tail(""), "object ring does not close"); break; }
    } while (e != ring.head);
    return s;
  }
  std::string deviceStr(occa::modeDevice_t *md) {
    std::string s = "D{" + ringStr(md->deviceRing) + targets(DEV, md);
    s += "K:" + entries(md->kernelRing, [&](occa::modeKernel_t *k) { return "K{" + ringStr(k->kernelRing) + targets(KERN, k) + "}"; });
    s += "B:" + entries(md->memoryRing, [&](occa::modeBuffer_t *b) {
      std::string t;
      occa::modeMemoryPool_t *p = dynamic_cast<occa::modeMemoryPool_t*>(b);
      if (p) t = "P{" + ringStr(p->memoryPoolRing) + targets(POOL, p) + "bk" + std::to_string(p->buffer != NULL) + "sz" + std::to_string(p->size) + "r" + std::to_string(p->reserved);
      else t = std::string("B{") + (b->isWrapped ? "w" : "o");
      t += entries(b->modeMemoryRing, [&](occa::modeMemory_t *m) { return memStr(m); });
      return t + "}";
    });
    s += "S:" + entries(md->streamRing, [&](occa::modeStream_t *st) { return "S{" + ringStr(st->streamRing) + targets(STRM, st) + "}"; });
    return s + "}";
  }

  std::string canon() {
    entryNames.clear();
    for (int k = 0; k < 5; ++k) for (int i = 0; i < CFG->nv[k]; ++i) {
      const void *p = NULL;
      switch (k) {
      case DEV: p = (occa::gc::ringEntry_t*) dv[i]; break;
      case MEM: p = (occa::gc::ringEntry_t*) mv[i]; break;
      case POOL: p = (occa::gc::ringEntry_t*) pv[i]; break;
      case KERN: p = (occa::gc::ringEntry_t*) kv[i]; break;
      case STRM: p = (occa::gc::ringEntry_t*) sv[i]; break;
      }
      entryNames[p] = std::string(VN[k]) + std::to_string(i);
    }
    if (hdev) entryNames[(occa::gc::ringEntry_t*) hdev] = "h";
    for (const Obj &o : objs) if (o.kind == DEV && o.alive)
      entryNames[(occa::gc::ringEntry_t*) &((occa::modeDevice_t*) o.impl)->currentStream] = "cs";
    std::string s = "c";
    for (int k = 0; k < 5; ++k) s += std::to_string(created[k]);
    s += swapped ? "x" : "-";   // only used in signatures, but keeps the signature a function of the state
    std::vector<std::string> ds;
    for (const Obj &o : objs) if (o.kind == DEV && o.alive) ds.push_back(deviceStr((occa::modeDevice_t*) o.impl));
    std::sort(ds.begin(), ds.end());   // device descriptors contain the names of the variables referring to them
    for (auto &d : ds) s += d;
    // handle variables that refer to nothing the traversal reached are visible through targets(); null ones:
    s += "null(";
    for (int k = 0; k < 5; ++k) for (int i = 0; i < CFG->nv[k]; ++i) if (!implOf(k, i)) s += std::string(VN[k]) + std::to_string(i);
    s += ")";
    return s;
  }

  //---[ closing ]-----------------------------------------------------------------------------
  void closeAll() {
    if (closed) return;
    closed = true;
    // objects kept alive only by dontUseRefs (no handle left): legal, they live until their device is freed
    for (int o = 0; o < (int) objs.size(); ++o)
      if (objs[o].alive && !objs[o].useRefs && refcount(o) == 0) hbf::event(std::string("kept-by-dontUseRefs:") + KN[objs[o].kind]);
    // 1. free every device that still has a handle
    if (hdev && hidden >= 0) { hdev->free(); mDestroy(hidden); }
    for (int i = 0; i < CFG->nv[DEV]; ++i) if (aliveRef(DEV, i)) { dv[i]->free(); mDestroy(ref[DEV][i]); }
    if (ctx.judging) oracle(":close-free");
    if (!ctx.fails.empty()) return;
    // 2. every handle variable goes out of scope
    for (int i = 0; i < 4; ++i) {
      delete mv[i]; mv[i] = NULL; delete pv[i]; pv[i] = NULL; delete kv[i]; kv[i] = NULL; delete sv[i]; sv[i] = NULL;
      delete dv[i]; dv[i] = NULL;
    }
    delete hdev; hdev = NULL;
    for (int k = 0; k < 5; ++k) for (int i = 0; i < 4; ++i) mAssign(ref[k][i], -1);   // last handles of objects on a detached (dontUseRefs) device
    mAssign(hidden, -1);
    if (ctx.judging) oracle(":close-drop", false);
  }
  void finish() { closeAll(); }
};

int main(int argc, char **argv) {
  if (argc >= 2 && std::string(argv[1]) == "prep") {
    // build the one trivial Serial kernel binary of this run through the real JIT path
    occa::device d({{"mode", "Serial"}});
    occa::kernel k = d.buildKernelFromString(
      "@kernel void k(int *a) { for (int o = 0; o < 1; ++o; @outer) { for (int i = 0; i < 1; ++i; @inner) { a[0] = 1; } } }", "k");
    printf("BINARY %s\n", k.binaryFilename().c_str());
    fflush(stdout);
    _exit(0);   // this step only produces the binary; handle teardown is what the exploration judges
  }
  const char *cfg = getenv("C01_CONFIG");
  bool found = false;
  for (const Config &c : CONFIGS) if (cfg && c.name == std::string(cfg)) { CFG = &c; found = true; }
  if (!found) { fprintf(stderr, "C01_CONFIG not set / unknown\n"); return 2; }
  const char *kb = getenv("C01_KERNEL_BINARY");
  KERNEL_BINARY = kb ? kb : "";
  return hbf::main<HSys>(argc, argv);
}
