#!/usr/bin/env python3
"""C06: kernel cache keys separate every build configuration (E3: exhaustive enumeration of configurations
within <=3 properties of the base for the key function + real builds of all <=2-property configurations
sharing one cache, forward and reverse order)."""
import itertools, json, os, shutil, sys, time
from concurrent.futures import ThreadPoolExecutor
sys.path.insert(0, os.path.dirname(os.path.dirname(os.path.dirname(os.path.abspath(__file__)))))
from vlib.core import Check, load_replay, NCPU, run_main
from vlib import fsx

X = "-shared -fPIC -funsigned-char"
Y = "-shared -fPIC -fsigned-char"
# property -> (value1, value2); string pool shared across the string-valued properties,
# array pool shared between includes/headers, object pool shared between defines/functions
PROPS = {
    "defines": ({"VD": 1}, {"VD": 2}),
    "functions": ({"VD": 1}, {"VD": 2}),
    "includes": (["inc1.h"], ["inc2.h"]),
    "headers": (["inc1.h"], ["inc2.h"]),
    "compiler": (X, Y),
    "compiler_flags": (X, Y),
    "compiler_linker_flags": (X, Y),
    "compiler_shared_flags": (X, Y),
    "compiler_env_script": (X, Y),
    "compiler_language": ("c", "cpp"),
    "okl/enabled": (False, True),
}
NAMES = list(PROPS)
SRC1 = "@kernel void k(int *out) { for (int o = 0; o < 1; ++o; @outer) { for (int i = 0; i < 1; ++i; @inner) { out[0] = 1; } } }"
SRC2 = "@kernel void k(int *out) { for (int o = 0; o < 1; ++o; @outer) { for (int i = 0; i < 1; ++i; @inner) { out[0] = 2; } } }"

BUILD_KERNEL = '''#ifndef VD
#define VD 0
#endif
#ifndef VH
#define VH 0
#endif
#ifndef VI
#define VI 0
#endif
@kernel void k(int *out) {
  for (int o = 0; o < 1; ++o; @outer) {
    for (int i = 0; i < 1; ++i; @inner) {
      out[0] = VD;
      out[1] = VH;
      out[2] = VI;
      char c = (char) 200;
      out[3] = (c < 0) ? 0 : 1;
    }
  }
}
'''
# stage 2: properties with an observable effect on the compiled code
BPROPS = {
    "defines": ({"VD": 1}, {"VD": 2}),
    "headers": (["#define VH 1"], ["#define VH 2"]),
    "includes": (["inc1.h"], ["inc2.h"]),
    "compiler_flags": (X, Y),
    "compiler_linker_flags": (X, Y),
    "compiler_shared_flags": (X, Y),
}
BNAMES = list(BPROPS)


def cfg_props(cfg, table):
    """cfg: tuple of 0/1/2 per property -> occa props dict"""
    props = {}
    for name, lvl in zip(table, cfg):
        if lvl == 0:
            continue
        val = table[name][lvl - 1]
        if "/" in name:
            a, b = name.split("/")
            props.setdefault(a, {})[b] = val
        else:
            props[name] = val
    return props


def effective(cfg, names):
    """normalised tuple of effective inputs.  unset okl/enabled == true; the effective language is
    C++ whenever OKL is enabled or compiler_language is anything but "c" (unset == "cpp"), so an
    implementation that keys on the effective language is not flagged."""
    e = list(cfg)
    okl_on = True
    if "okl/enabled" in names:
        i = names.index("okl/enabled")
        if e[i] == 0:
            e[i] = 2
        okl_on = (e[i] == 2)
    if "compiler_language" in names:
        j = names.index("compiler_language")
        is_c = (e[j] == 1) and not okl_on
        e[j] = 1 if is_c else 2
    return tuple(e)


def configs(n, maxdiff):
    out = []
    for k in range(0, maxdiff + 1):
        for idxs in itertools.combinations(range(n), k):
            for vals in itertools.product((1, 2), repeat=k):
                cfg = [0] * n
                for i, v in zip(idxs, vals):
                    cfg[i] = v
                out.append(tuple(cfg))
    return out


def expected_outputs(cfg):
    d = dict(zip(BNAMES, cfg))
    out = [d["defines"], d["headers"], d["includes"], 0]
    # command line order: compiler_flags, compiler_shared_flags, ..., compiler_linker_flags: the last -f[un]signed-char wins
    sign = 0
    for name in ("compiler_flags", "compiler_shared_flags", "compiler_linker_flags"):
        if d[name] == 1:
            sign = 1
        elif d[name] == 2:
            sign = 0
    out[3] = sign
    return out


def main():
    c = Check("C06", "exploration")
    pfs, kprobe = fsx.build_tools(c, "rel")
    src = os.path.join(c.scratch, "src")
    os.makedirs(src)
    open(os.path.join(src, "inc1.h"), "w").write("#undef VI\n#define VI 1\n")
    open(os.path.join(src, "inc2.h"), "w").write("#undef VI\n#define VI 2\n")
    open(os.path.join(src, "k.okl"), "w").write(BUILD_KERNEL)
    modes = ["Serial", "OpenMP"]
    deadline = c.t0 + c.budget(150, 1200)

    if c.args.replay:
        r = load_replay(c.args.replay)["replay"]
        if r["stage"] == 1:
            cache = os.path.join(c.scratch, "replay-cache")
            builds = [{"string": r["sources"][i], "kernel": "k", "props": cfg_props(tuple(r["cfgs"][i]), PROPS), "hash_only": True} for i in (0, 1)]
            spec = fsx.write_spec(os.path.join(c.scratch, "replay.json"), r["mode"], builds)
            pr = fsx.run_probe(kprobe, spec, fsx.base_env(cache), cwd=src)
            print("config A:", json.dumps(builds[0]["props"]), "key", pr.hashes.get(0))
            print("config B:", json.dumps(builds[1]["props"]), "key", pr.hashes.get(1))
            same = pr.hashes.get(0) == pr.hashes.get(1)
            print("replay:", "VIOLATION (same key)" if same else "ok (keys differ)")
            sys.exit(1 if same else 0)
        else:
            bad = stage2_order(c, kprobe, src, r["mode"], [tuple(x) for x in r["order"]], "replay", report=True)
            print("replay:", "VIOLATION" if bad else "ok")
            sys.exit(1 if bad else 0)

    # ---- stage 1: key function, all configurations within 3 properties of the base, 2 sources ----
    cfgs = configs(len(NAMES), 3 if c.tier == "thorough" else 2)
    if c.tier == "quick":
        # quick: all <=2-property configurations plus all 3-property ones among the string-valued properties
        sidx = [NAMES.index(n) for n in ("compiler", "compiler_flags", "compiler_linker_flags", "compiler_shared_flags", "compiler_env_script", "compiler_language")]
        extra = []
        for idxs in itertools.combinations(sidx, 3):
            for vals in itertools.product((1, 2), repeat=3):
                cfg = [0] * len(NAMES)
                for i, v in zip(idxs, vals):
                    cfg[i] = v
                extra.append(tuple(cfg))
        cfgs = cfgs + extra
    items = [(cfg, si) for cfg in cfgs for si in (0, 1)]
    sources = [SRC1, SRC2]
    n_keys = 0
    collisions = 0
    distinct_keys = set()
    samples = []
    for mode in modes:
        keysets = []
        for rep in (0, 1):   # two separate processes: identical builds must resolve to the same entry
            cache = os.path.join(c.scratch, "s1-%s-%d" % (mode, rep))
            builds = [{"string": sources[si], "kernel": "k", "props": cfg_props(cfg, PROPS), "hash_only": True} for cfg, si in items]
            spec = fsx.write_spec(os.path.join(c.scratch, "s1-%s-%d.json" % (mode, rep)), mode, builds)
            pr = fsx.run_probe(kprobe, spec, fsx.base_env(cache), timeout=600, cwd=src)
            if pr.rc != 0 or len(pr.hashes) != len(items):
                c.harness_error("stage 1 key computation failed: %s %s" % (pr.summary(), pr.err[-500:]))
            keysets.append([pr.hashes[i] for i in range(len(items))])
            shutil.rmtree(cache, ignore_errors=True)
        for i, (cfg, si) in enumerate(items):
            if keysets[0][i] != keysets[1][i]:
                c.violation("key-not-reproducible", "mode %s config %s: key differs between two processes" % (mode, cfg_props(cfg, PROPS)),
                            {"stage": 1, "mode": mode, "cfgs": [cfg, cfg], "sources": [sources[si], sources[si]]})
        groups = {}
        for i, (cfg, si) in enumerate(items):
            groups.setdefault(keysets[0][i], []).append((cfg, si))
            distinct_keys.add((mode, keysets[0][i]))
        n_keys += len(items)
        for key, members in groups.items():
            effs = {}
            for cfg, si in members:
                effs.setdefault((effective(cfg, NAMES), si), (cfg, si))
            if len(effs) > 1:
                collisions += 1
                # minimal pair: fewest set properties
                ms = sorted(effs.values(), key=lambda m: (sum(1 for v in m[0] if v), m[0], m[1]))
                a, b = ms[0], ms[1]
                diff = [NAMES[i] for i in range(len(NAMES)) if effective(a[0], NAMES)[i] != effective(b[0], NAMES)[i]]
                if a[1] != b[1]:
                    diff.append("source")
                sig = "key-collision:" + "+".join(diff)
                c.violation(sig, "mode %s: configurations %s and %s (source %d / %d) get the same cache key %s" % (
                    mode, json.dumps(cfg_props(a[0], PROPS)), json.dumps(cfg_props(b[0], PROPS)), a[1], b[1], key[:16]),
                    {"stage": 1, "mode": mode, "cfgs": [a[0], b[0]], "sources": [sources[a[1]], sources[b[1]]]})
        if len(samples) < 4:
            samples.append({"mode": mode, "config": cfg_props(items[len(items) // 3][0], PROPS), "key": keysets[0][len(items) // 3][:16]})

    # ---- stage 2: real builds sharing one cache, forward and reverse order -------------------------
    bcfgs = configs(len(BNAMES), 2)
    builds_done = 0
    build_outcomes = set()
    s2_modes = ["Serial"] if c.tier == "quick" else modes
    s2_complete = True
    for mode in s2_modes:
        for direction, order in (("forward", bcfgs), ("reverse", list(reversed(bcfgs)))):
            if time.time() > deadline:
                s2_complete = False
                break
            res = stage2_order(c, kprobe, src, mode, order, direction, deadline=deadline)
            if res is None:
                s2_complete = False
                break
            nb, outs, viol = res
            builds_done += nb
            build_outcomes |= outs
            for sig, detail, rep in viol:
                c.violation(sig, detail, rep)
    samples.append({"stage2_config": cfg_props(bcfgs[len(bcfgs) // 2], BPROPS), "expected_outputs": expected_outputs(bcfgs[len(bcfgs) // 2])})
    c.vacuity(len(build_outcomes) >= 8 or not s2_complete, "stage 2 observed fewer than 8 distinct kernel outputs: observables do not discriminate configurations")
    c.set_exploration(
        evaluations=n_keys + builds_done, distinct_nontrivial=len(distinct_keys),
        rule="stage 1: every configuration differing from the base in <=2 of the 11 properties (quick; plus all 3-property ones among the string-valued properties) / <=3 (thorough), each with one of two values from a pool shared across properties, x 2 sources x {Serial, OpenMP}: cache key computed by the real device::setupKernelInfo in two separate processes; keys grouped, a group whose members differ in effective inputs is a collision. distinct = distinct (mode, key). stage 2: all <=2-property configurations over 6 observable properties are built and run for real in one shared cache, one process each, in forward and in reverse order; each must print the values of its own configuration.",
        samples=samples, exhaustive=s2_complete,
        stage1_keys=n_keys, stage1_configs=len(cfgs), stage1_collision_groups=collisions,
        stage2_builds=builds_done, stage2_distinct_outputs=len(build_outcomes), stage2_configs=len(bcfgs))
    c.assumptions += ["process environment held fixed (all OCCA_*, CXX, CXXFLAGS... variables removed)",
                      "unset okl/enabled is the same effective input as true; any other unset property differs from both pool values",
                      "stage 2 covers defines, headers, includes, compiler_flags, compiler_linker_flags, compiler_shared_flags (properties whose effect is observable in the kernel output)"]
    c.finish()


def stage2_order(c, kprobe, src, mode, order, tag, deadline=None, report=False):
    cache = os.path.join(c.scratch, "s2-%s-%s" % (mode, tag))
    shutil.rmtree(cache, ignore_errors=True)
    env = fsx.base_env(cache)
    viol = []
    outs = set()
    n = 0
    for ci, cfg in enumerate(order):
        if deadline and time.time() > deadline:
            shutil.rmtree(cache, ignore_errors=True)
            return None
        spec = fsx.write_spec(os.path.join(c.scratch, "s2-%s-%s-%d.json" % (mode, tag, ci)), mode,
                              [{"file": os.path.join(src, "k.okl"), "kernel": "k", "props": cfg_props(cfg, BPROPS), "nout": 4}])
        pr = fsx.run_probe(kprobe, spec, env, timeout=180, cwd=src)
        n += 1
        exp = expected_outputs(cfg)
        got = pr.results.get(0)
        outs.add(tuple(got) if got else None)
        if report:
            print("  %s -> %s (expected %s) %s" % (json.dumps(cfg_props(cfg, BPROPS)), got, exp, pr.summary()))
        if pr.rc != 0 or got != exp:
            # find the earlier configuration whose values were printed (the one whose binary was reused)
            culprit = None
            for prev in order[:ci]:
                if got is not None and expected_outputs(prev) == got:
                    culprit = prev
            diffnames = [BNAMES[i] for i in range(len(BNAMES)) if culprit is not None and culprit[i] != cfg[i]]
            sig = ("wrong-code:reused-binary-of-config-differing-in:" + "+".join(diffnames)) if culprit is not None else ("build-failed" if pr.rc != 0 else "wrong-code:unexplained")
            viol.append((sig, "mode %s (%s order): configuration %s printed %s, expected %s%s [%s]" % (
                mode, tag, json.dumps(cfg_props(cfg, BPROPS)), got, exp,
                (" = values of earlier configuration %s" % json.dumps(cfg_props(culprit, BPROPS))) if culprit is not None else "", pr.summary()),
                {"stage": 2, "mode": mode, "order": [list(x) for x in ([culprit, cfg] if culprit is not None else order[:ci + 1])]}))
    shutil.rmtree(cache, ignore_errors=True)
    if report:
        return bool(viol)
    return n, outs, viol


run_main(main)
