#!/usr/bin/env python3
"""C10: kernel argument validation accepts exactly the compatible argument lists; same decision fresh and cached
(E2 bounded-exhaustive enumeration + fresh/cached differential).

Alphabet
  parameter kinds P = base type x form
     base: int, float, double, char, long, short, bool, unsigned int, long long, size_t, int2, float4, double2,
           myFloat (typedef float), S (struct {float a; int b;})          [quick: 10 of them]
     form: T x | const T x | T *x | const T *x | T x[4]       + the typedef'd pointer  fptr x / const fptr x,
           float x[] and int x[2][3] (thorough: T x[] and T x[2][3] for five bases)
  argument kinds A (29): occa::memory with dtype byte(untyped), bool, char, short, int, long, float, double, int2, int4,
     float2, float4, double2, struct{float,int}, tuple(float,4), tuple(float,2), tuple(int,4), custom("myType",8);
     scalars bool, char, short, int, long, float, double; nullptr; uninitialised occa::memory; raw host pointer;
     host int2 / float4 by value
  kernels: the kernel without parameters, every 1-parameter kernel, every 2-parameter kernel over a 6-element
     sub-alphabet of P; argument lists: every A for 1 parameter, every pair of an 8-element sub-alphabet of A for 2
     parameters, argument counts 0..3 against arities 0..2
Procedure
  every kernel lives in its own OKL file, is built in a first process (metadata from the parser; the driver checks that no
  binary existed) and run over its table, then loaded in a second process from the same cache directory (metadata from
  build.json; the driver checks that the binary existed) and run over the same table.
Oracle
  (a) the fresh and the cached decision (ran / which check raised, for which argument) are identical, entry by entry
  (b) the property's table: wrong argument count => raises; occa::memory (also an uninitialised one) for a non-pointer
      parameter => raises; scalar / host pointer / host struct for a pointer parameter => raises; typed memory whose
      flattened element list cannot be cast to the parameter's (byte is universal, otherwise the lists must agree with the
      shorter one repeating) => raises; everything else runs.  nullptr for a non-pointer parameter is not decided by the
      sentence and is only compared fresh/cached.
"""
import os, sys, time, json
sys.path.insert(0, os.path.dirname(os.path.dirname(os.path.dirname(os.path.abspath(__file__)))))
from vlib.core import Check, san_env, load_replay, sh
from vlib.batch import run_items

HERE = os.path.dirname(os.path.abspath(__file__))

VEC_H = """#include <cstddef>
struct int2 { int x, y; }; struct int4 { int x, y, z, w; };
struct float2 { float x, y; }; struct float4 { float x, y, z, w; };
struct double2 { double x, y; };
"""

# base type -> (flattened element list, declarations needed, class for signatures)
BASES = {
    "int": (["int"], "", "scalar"), "float": (["float"], "", "scalar"), "double": (["double"], "", "scalar"),
    "char": (["char"], "", "scalar"), "long": (["long"], "", "scalar"), "short": (["short"], "", "scalar"),
    "bool": (["bool"], "", "scalar"), "unsigned int": (["int"], "", "unsigned"), "long long": (["long"], "", "longlong"),
    "size_t": (["long"], "", "size_t"), "int2": (["int"] * 2, "", "vector"), "float4": (["float"] * 4, "", "vector"),
    "double2": (["double"] * 2, "", "vector"),
    "myFloat": (["float"], "typedef float myFloat;\n", "typedef"),
    "S": (["float", "int"], "struct S { float a; int b; };\n", "struct"),
}
QUICK_BASES = ["int", "float", "double", "char", "long", "size_t", "int2", "float4", "myFloat", "S"]
FORMS = ["val", "cval", "ptr", "cptr", "arr"]

MEM = {"byte": ["byte"], "bool": ["bool"], "char": ["char"], "short": ["short"], "int": ["int"], "long": ["long"],
       "float": ["float"], "double": ["double"], "int2": ["int"] * 2, "int4": ["int"] * 4, "float2": ["float"] * 2,
       "float3": ["float"] * 3, "float4": ["float"] * 4, "double2": ["double"] * 2, "S": ["float", "int"], "T4": ["float"] * 4, "T2": ["float"] * 2,
       "I4": ["int"] * 4, "C": ["myType"]}
ARGS = (["m:" + d for d in MEM] + ["s:bool", "s:char", "s:short", "s:int", "s:long", "s:float", "s:double", "n", "u", "p", "v:int2", "v:float4"])
ARGS2 = ["m:float", "m:int", "m:double", "m:byte", "s:int", "n", "m:S", "v:float4"]


class Param:
    def __init__(self, base, form):
        self.base, self.form = base, form
        flat, decl, cls = BASES[base] if base != "fptr" else (["float"], "typedef float* fptr;\n", "typedef-pointer")
        self.decl = decl
        self.cls = cls
        self.is_ptr = form in ("ptr", "cptr", "arr", "uarr", "arr2") or base == "fptr"
        self.flat = flat * 4 if form == "arr" else flat * 6 if form == "arr2" else flat

    def text(self, name):
        b = self.base
        return {"val": "%s %s" % (b, name), "cval": "const %s %s" % (b, name), "ptr": "%s *%s" % (b, name),
                "cptr": "const %s *%s" % (b, name), "arr": "%s %s[4]" % (b, name), "uarr": "%s %s[]" % (b, name),
                "arr2": "%s %s[2][3]" % (b, name)}[self.form]

    def key(self):
        return "%s/%s" % (self.base, self.form)

    def sigclass(self):
        return "%s-%s" % (self.form if self.base != "fptr" else "typedef", self.cls)


def castable(frm, to):
    """the documented cast rule (dtype_t::canBeCastedTo): byte is universal; otherwise the flattened lists must agree,
    the longer one being a whole number of repetitions of the shorter one"""
    if frm == ["byte"] or to == ["byte"]:
        return True
    short, lng = (frm, to) if len(frm) <= len(to) else (to, frm)
    if len(lng) % len(short):
        return False
    return all(lng[i] == short[i % len(short)] for i in range(len(lng)))


def arg_class(code):
    if code == "m:byte":
        return "untyped-memory"
    if code.startswith("m:"):
        return "typed-memory"
    return {"s": "scalar", "n": "nullptr", "u": "uninitialised-memory", "p": "host-pointer", "v": "host-struct"}[code[0]]


def decide(params, args):
    """-> ('ran'|'throw'|'either', clause, index)"""
    if len(params) != len(args):
        return ("throw", "count", 0)
    either = False
    for i, (p, a) in enumerate(zip(params, args)):
        k = a[0]
        if p.is_ptr:
            if k in "spv":
                return ("either", "", i) if either else ("throw", "value-for-pointer", i)
            if k in "nu":
                continue
            if not castable(MEM[a[2:]], p.flat):
                return ("either", "", i) if either else ("throw", "dtype", i)
        else:
            if k in "mu":
                return ("either", "", i) if either else ("throw", "memory-for-value", i)
            if k == "n":
                either = True
    return ("either", "", 0) if either else ("ran", "", 0)


class Kernel:
    def __init__(self, idx, params, runs):
        self.idx, self.params, self.runs = idx, params, runs
        self.salt = 0           # > 0: the file was rewritten (new name and content => new cache entry) after a timed-out build

    def filename(self):
        return "k%04d%s.okl" % (self.idx, "_r%d" % self.salt if self.salt else "")

    def source(self):
        decls = []
        for p in self.params:
            if p.decl and p.decl not in decls:
                decls.append(p.decl)
        plist = ", ".join(p.text("p%d" % i) for i, p in enumerate(self.params))
        return ("// retry %d\n" % self.salt if self.salt else "") + "".join(decls) + "@kernel void k(%s) {\n  for (int i = 0; i < 1; ++i; @tile(1, @outer, @inner)) { int q = i; }\n}\n" % plist

    def describe(self):
        return "@kernel void k(%s)" % ", ".join(p.text("p%d" % i) for i, p in enumerate(self.params))

    def line(self, okldir, runs=None):
        runs = self.runs if runs is None else runs
        return "%s\tk\t%s" % (os.path.join(okldir, self.filename()), ";".join(",".join(r) for r in runs))

    def to_obj(self, run):
        return {"params": [[p.base, p.form] for p in self.params], "run": list(run)}


def gen_kernels(tier):
    bases = QUICK_BASES if tier == "quick" else list(BASES)
    P = [Param(b, f) for b in bases for f in FORMS] + [Param("fptr", "val"), Param("fptr", "cval")]
    # arrays without a size and with two dimensions
    P += [Param("float", "uarr"), Param("int", "arr2")]
    if tier == "thorough":
        P += [Param(b, f) for b in ("int", "double", "float4", "myFloat", "S") for f in ("uarr", "arr2") if (b, f) != ("int", "arr2")]
    kernels = []

    def add(params, runs):
        kernels.append(Kernel(len(kernels), params, runs))

    # arity 0: counts 0..3
    add([], [[], ["s:int"], ["m:int"], ["s:int", "m:float"], ["n", "s:int", "m:byte"]])
    # arity 1: every argument kind, counts 0, 2, 3
    for p in P:
        runs = [[a] for a in ARGS] + [[], ["m:byte", "m:byte"], ["s:int", "s:int"], ["m:byte", "s:int", "n"]]
        add([p], runs)
    # arity 2: 6-element sub-alphabet, all pairs of the argument sub-alphabet, counts 0, 1, 3
    P6 = [Param("int", "val"), Param("float", "cptr"), Param("double", "ptr"), Param("float4", "val"), Param("int", "arr"), Param("S", "ptr")]
    if tier == "thorough":
        P6 += [Param("myFloat", "ptr"), Param("long", "cval"), Param("fptr", "val")]
    for p in P6:
        for q in P6:
            runs = [[a, b] for a in ARGS2 for b in ARGS2] + [[], ["m:byte"], ["s:int"], ["m:byte", "s:int", "m:byte"]]
            add([p, q], runs)
    return kernels


def parse_result(r):
    """-> dict(path, meta, decisions{run index: text}, buildexc, harness)"""
    out = {"path": None, "meta": None, "dec": {}, "buildexc": None, "harness": None}
    for ln in r.lines:
        if ln.startswith("PATH "):
            out["path"] = ln[5:]
        elif ln.startswith("META "):
            out["meta"] = ln[5:]
        elif ln.startswith("D "):
            _, i, d = ln.split(" ", 2)
            out["dec"][int(i)] = d
        elif ln.startswith("BUILDEXC "):
            out["buildexc"] = ln[9:]
        elif ln.startswith("HARNESS"):
            out["harness"] = ln
    return out


def crash_kind(r):
    text = (r.stderr or "")
    for kw in ("heap-use-after-free", "heap-buffer-overflow", "global-buffer-overflow", "stack-buffer-overflow", "SEGV", "FPE", "double-free"):
        if kw in text:
            return kw
    return r.crash.replace(":", "") if r.crash else "none"


def run_pass(exe, kernels, okldir, env, workdir, mode, deadline):
    """One pass over the kernels.  A driver that hits the (generous) time limit is not a verdict on a loaded machine: such a
    kernel is run once more on its own with a ten times larger limit (first pass: under a new file name, so that the build
    is a fresh one again); only a second timeout is reported."""
    lines = [k.line(okldir) for k in kernels]
    res, ok = run_items([exe], lines, workdir, env, chunk=3, per_item_timeout=120.0, extra_args=[mode], deadline=deadline)
    out = {kernels[r.index].idx: r for r in res}
    again = [k for k in kernels if k.idx in out and out[k.idx].crash == "timeout"]
    for k in again:
        if mode == "fresh":
            k.salt += 1
            write_sources([k], okldir)
    if again:
        res2, _ = run_items([exe], [k.line(okldir) for k in again], workdir + "-retry", env, chunk=1, per_item_timeout=1200.0, extra_args=[mode])
        for r in res2:
            out[again[r.index].idx] = r
    return out, ok


def write_sources(kernels, okldir):
    os.makedirs(okldir, exist_ok=True)
    with open(os.path.join(okldir, "vec.h"), "w") as f:
        f.write(VEC_H)
    for k in kernels:
        with open(os.path.join(okldir, k.filename()), "w") as f:
            f.write(k.source())


def judge_kernel(c, k, rf, rc, stats, replay_of=None):
    """rf / rc: ItemResult of the fresh / cached pass (rc may be None)."""
    pc = k.params
    feature = "+".join(p.sigclass() for p in pc) if pc else "no-parameters"

    def viol(sig, detail, run):
        c.violation(sig, "%s :: %s" % (k.describe(), detail), {"kernel": k.to_obj(run)})

    f = parse_result(rf)
    if f["harness"]:
        c.harness_error("kernel %d fresh pass: %s" % (k.idx, f["harness"]))
    if rf.crash:
        viol("crash:build-or-run:%s:%s" % (crash_kind(rf), feature), "fresh process died (%s) after %d runs :: %s" % (rf.crash, len(f["dec"]), (rf.stderr or "")[:700]),
             k.runs[len(f["dec"])] if len(f["dec"]) < len(k.runs) else [])
        stats["crashes"] += 1
        return
    if f["buildexc"]:
        viol("build-fails:%s" % feature, "the kernel does not build: " + f["buildexc"][:300], [])
        return
    cdec = None
    if rc is not None:
        cc = parse_result(rc)
        if cc["harness"]:
            c.harness_error("kernel %d cached pass: %s" % (k.idx, cc["harness"]))
        if rc.crash:
            viol("crash:cached-run:%s:%s" % (crash_kind(rc), feature), "cached process died (%s) :: %s" % (rc.crash, (rc.stderr or "")[:700]), [])
            stats["crashes"] += 1
        elif cc["buildexc"]:
            viol("cached-load-fails:%s" % feature, "loading the cached kernel raised: " + cc["buildexc"][:300], [])
        else:
            cdec = cc["dec"]
            if cc["meta"] != f["meta"]:
                stats["meta_diff"] += 1
    for ri, run in enumerate(k.runs):
        if ri not in f["dec"]:
            c.harness_error("kernel %d: run %d missing in the fresh pass" % (k.idx, ri))
        got = f["dec"][ri]
        stats["decisions"] += 1
        stats["outcomes"].add(got.split(":")[0] + ":" + got.split(":")[1] if got != "ran" else "ran")
        # (a) fresh == cached
        if cdec is not None:
            if ri not in cdec:
                c.harness_error("kernel %d: run %d missing in the cached pass" % (k.idx, ri))
            stats["compared"] += 1
            if cdec[ri] != got:
                if len(run) != len(pc):
                    cls = "count"
                else:
                    # first parameter at which the two decisions can differ: the one named by either message, else 0
                    idxs = [int(d.rsplit(":", 1)[1]) - 1 for d in (got, cdec[ri]) if d.count(":") >= 2 and d.rsplit(":", 1)[1].isdigit()]
                    i = min(idxs) if idxs else 0
                    i = min(i, len(pc) - 1)
                    cls = "%s:%s" % (pc[i].form if pc[i].base != "fptr" else "typedef-pointer",
                                     "memory" if run[i][0] in "mu" else "nullptr" if run[i] == "n" else "non-memory")
                viol("fresh-cached-differ:%s" % (cls if pc else "no-parameters:" + cls),
                     "arguments (%s): just compiled -> %s, loaded from the cache -> %s" % (", ".join(run) or "none", got, cdec[ri]), run)
        # (b) the property's table
        want, clause, i = decide(pc, run)
        if want == "either":
            stats["undecided"] += 1
            continue
        if got.startswith("throw:other"):
            viol("unexpected-exception:%s" % feature, "arguments (%s): %s" % (", ".join(run), got), run)
            continue
        threw = got != "ran"
        if want == "throw" and not threw:
            if clause == "count":
                sig = "accepts-incompatible:count:%s" % ("no-parameters" if not pc else "arity%d" % len(pc))
            else:
                sig = "accepts-incompatible:%s:%s:%s" % (clause, pc[i].sigclass(), arg_class(run[i]))
            viol(sig, "arguments (%s) ran, the property requires occa::exception (%s)" % (", ".join(run) or "none", clause), run)
        elif want == "ran" and threw:
            j = 0
            if got.count(":") >= 2 and got.rsplit(":", 1)[1].isdigit():
                j = min(int(got.rsplit(":", 1)[1]) - 1, len(pc) - 1)
            sig = "rejects-compatible:%s:%s:%s" % (got.split(":")[1], pc[j].sigclass() if pc else "no-parameters", arg_class(run[j]) if run else "none")
            viol(sig, "arguments (%s) raised (%s), the property says this list is compatible and runs" % (", ".join(run) or "none", got), run)


def main():
    c = Check("C10", "exploration")
    c.build("asan")
    exe = c.compile(os.path.join(HERE, "driver.cpp"), "driver")
    env = san_env(c.scratch)
    env["ASAN_OPTIONS"] += ":quarantine_size_mb=8"
    okldir = os.path.join(c.scratch, "okl")

    if c.args.replay:
        r = load_replay(c.args.replay)
        spec = r["replay"]["kernel"]
        k = Kernel(0, [Param(b, f) for b, f in spec["params"]], [spec["run"]])
        write_sources([k], okldir)
        print(k.describe() + "   arguments: (" + ", ".join(spec["run"]) + ")")
        rf, _ = run_pass(exe, [k], okldir, env, os.path.join(c.scratch, "p1"), "fresh", None)
        rc, _ = run_pass(exe, [k], okldir, env, os.path.join(c.scratch, "p2"), "cached", None) if not rf[0].crash else ({0: None}, True)
        for name, rr in (("fresh", rf[0]), ("cached", rc[0])):
            if rr is None:
                continue
            for ln in rr.lines:
                print("  %s: %s" % (name, ln))
            if rr.crash:
                print("  %s: driver %s\n%s" % (name, rr.crash, rr.stderr[:2500]))
        stats = {"crashes": 0, "meta_diff": 0, "decisions": 0, "compared": 0, "undecided": 0, "outcomes": set()}
        judge_kernel(c, k, rf[0], rc[0], stats)
        for v in c.violations:
            print("FAIL %s :: %s" % (v["sig"], v["detail"]))
        sys.exit(1 if c.violations else 0)

    kernels = gen_kernels(c.tier)
    write_sources(kernels, okldir)
    # the budget limits how many kernels enter the first pass (from the end of the build + harness compile; the scale is for
    # loaded machines); the second pass always covers every kernel the first pass built
    deadline = time.time() + 0.55 * c.budget(80, 1100) * float(os.environ.get("VERIF_BUDGET_SCALE", "1"))
    fresh, ok1 = run_pass(exe, kernels, okldir, env, os.path.join(c.scratch, "pass1"), "fresh", deadline)
    built = [k for k in kernels if k.idx in fresh and not fresh[k.idx].crash and not parse_result(fresh[k.idx])["buildexc"]]
    cached, ok2 = run_pass(exe, built, okldir, env, os.path.join(c.scratch, "pass2"), "cached", None)

    stats = {"crashes": 0, "meta_diff": 0, "decisions": 0, "compared": 0, "undecided": 0, "outcomes": set()}
    judged = 0
    samples = []
    for k in kernels:
        if k.idx not in fresh:
            continue
        judge_kernel(c, k, fresh[k.idx], cached.get(k.idx), stats)
        judged += 1
        if k.idx in (0, 1, len(kernels) // 2, len(kernels) - 1):
            f = parse_result(fresh[k.idx])
            samples.append({"kernel": k.describe(), "arguments": ",".join(k.runs[min(4, len(k.runs) - 1)]),
                            "fresh": f["dec"].get(min(4, len(k.runs) - 1)), "metadata": f["meta"]})
    complete = ok1 and ok2 and judged == len(kernels)
    c.vacuity(judged >= (len(kernels) if complete else 10), "too few kernels judged (%d of %d)" % (judged, len(kernels)))
    if not c.violations:
        c.vacuity(len(stats["outcomes"]) >= 5, "fewer than 5 distinct decisions observed: %r" % sorted(stats["outcomes"]))
        c.vacuity(stats["compared"] >= stats["decisions"] * 0.9, "fresh/cached comparison missing for many decisions")
    c.set_exploration(
        evaluations=stats["decisions"] + stats["compared"], distinct_nontrivial=len(stats["outcomes"]),
        rule="every kernel of the parameter-kind alphabet (arity 0, 1, 2) x every argument list of the argument-kind alphabet "
             "(all kinds for arity 1, all pairs of 8 kinds for arity 2, counts 0..3); decision just-compiled vs loaded-from-cache in a "
             "second process, and decision vs the property's table (count, memory/non-memory vs pointer/value, documented dtype cast rule)",
        samples=samples, exhaustive=complete,
        kernels=len(kernels), kernels_judged=judged, decisions_fresh=stats["decisions"], decisions_compared_with_cached=stats["compared"],
        decisions_not_decided_by_the_property=stats["undecided"], kernels_whose_cached_metadata_text_differs=stats["meta_diff"],
        distinct_decisions=sorted(stats["outcomes"]), process_crashes=stats["crashes"], budget_hit=not complete)
    c.assumptions += [
        "Serial mode only (the validation code is mode independent; metadata on a cache hit is read by serial::device)",
        "the kernel body does not touch its parameters, so an accepted incompatible list cannot crash the harness",
        "nullptr for a non-pointer parameter is not decided by the property sentence (compared fresh/cached only)",
        "signedness is not part of an element type (dtype::get<unsigned int>() is int by design)",
        "host definitions of int2/float4/... for the Serial compile are injected with -include vec.h",
    ]
    c.finish()


from vlib.core import run_main
run_main(main)
