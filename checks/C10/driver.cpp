// C10: kernel argument validation.
//
// Batch driver (vlib.batch protocol).  argv: <items file> <fresh|cached>
// Item (TAB separated):  <okl file> \t <kernel name> \t <run>;<run>;...      run = comma separated argument codes
// Argument codes:
//   m:<dtype>   occa::memory of 16 elements of that dtype: byte bool char short int long float double
//               int2 int4 float2 float3 float4 double2 (OKL vector dtypes)  S (struct {float a; int b;})  T4 (tuple(float,4))
//               T2 (tuple(float,2))  I4 (tuple(int,4)) C (custom dtype "myType", 8 bytes)
//   s:<type>    scalar by value: bool char short int long float double uchar uint ulong
//   n           nullptr            u   uninitialised occa::memory      p   raw host pointer (int*)
//   v:int2 / v:float4             host vector value (passed as a struct argument)
//   (empty run = no arguments)
// In mode "fresh" the kernel binary must not exist before the build (metadata comes from the parser), in mode
// "cached" it must exist (metadata comes from build.json); anything else is reported as HARNESS.
// Output per item:
//   PATH fresh|cached
//   META init=<0|1> <name>:<ptr><const>:<dtype json> ...
//   D <run index> ran | throw:<class>[:<argument index>]
#include <cstdio>
#include <cstdlib>
#include <cstring>
#include <fstream>
#include <iostream>
#include <sstream>
#include <string>
#include <vector>

#include <occa.hpp>
#include <occa/internal/core/kernel.hpp>
#include <occa/internal/io.hpp>
#include <occa/internal/utils/sys.hpp>

static std::vector<std::string> split(const std::string &s, char sep) {
  std::vector<std::string> v;
  size_t a = 0;
  while (true) {
    size_t b = s.find(sep, a);
    if (b == std::string::npos) { v.push_back(s.substr(a)); break; }
    v.push_back(s.substr(a, b - a));
    a = b + 1;
  }
  return v;
}

static std::string oneLine(std::string s) {
  std::string o;
  for (char ch : s) if (ch != '\n' && ch != '\r' && ch != ' ') o += ch;
  return o;
}

static occa::device DEV;
// Registered dtypes must outlive every copy (a copy of a registered dtype only refers to the original): they are built once
// by direct initialisation and never assigned.
static occa::dtype_t structS;
static occa::dtype_t tupleT4("T4", occa::dtype_t::tuple(occa::dtype::float_, 4), true);
static occa::dtype_t tupleT2("T2", occa::dtype_t::tuple(occa::dtype::float_, 2), true);
static occa::dtype_t tupleI4("I4", occa::dtype_t::tuple(occa::dtype::int_, 4), true);
static occa::dtype_t customC("myType", 8, true);

static occa::memory memOf(const std::string &d) {
  const int n = 16;
  if (d == "byte")   return DEV.malloc(n * 16);
  if (d == "bool")   return DEV.malloc<bool>(n);
  if (d == "char")   return DEV.malloc<char>(n);
  if (d == "short")  return DEV.malloc<short>(n);
  if (d == "int")    return DEV.malloc<int>(n);
  if (d == "long")   return DEV.malloc<long>(n);
  if (d == "float")  return DEV.malloc<float>(n);
  if (d == "double") return DEV.malloc<double>(n);
  if (d == "int2")   return DEV.malloc(n, occa::dtype::int2);
  if (d == "int4")   return DEV.malloc(n, occa::dtype::int4);
  if (d == "float2") return DEV.malloc(n, occa::dtype::float2);
  if (d == "float4") return DEV.malloc(n, occa::dtype::float4);
  if (d == "float3") return DEV.malloc(n, occa::dtype::float3);
  if (d == "double2") return DEV.malloc(n, occa::dtype::double2);
  if (d == "S")      return DEV.malloc(n, structS);
  if (d == "T4")     return DEV.malloc(n, tupleT4);
  if (d == "T2")     return DEV.malloc(n, tupleT2);
  if (d == "I4")     return DEV.malloc(n, tupleI4);
  if (d == "C")      return DEV.malloc(n, customC);
  throw std::string("bad memory dtype " + d);
}

static int hostInts[4] = {1, 2, 3, 4};

static void pushArg(occa::kernel &k, const std::string &code, std::vector<occa::memory> &keep) {
  if (code == "n") { k.pushArg(occa::null); return; }
  if (code == "u") { occa::memory m; k.pushArg(m); return; }
  if (code == "p") { k.pushArg(occa::kernelArg((int*) hostInts)); return; }
  if (code[0] == 'm') { occa::memory m = memOf(code.substr(2)); keep.push_back(m); k.pushArg(m); return; }
  const std::string t = code.substr(2);
  if (code[0] == 's') {
    if (t == "bool")   { k.pushArg(occa::kernelArg(true)); return; }
    if (t == "char")   { k.pushArg(occa::kernelArg((char) 1)); return; }
    if (t == "uchar")  { k.pushArg(occa::kernelArg((unsigned char) 1)); return; }
    if (t == "short")  { k.pushArg(occa::kernelArg((short) 1)); return; }
    if (t == "int")    { k.pushArg(occa::kernelArg((int) 1)); return; }
    if (t == "uint")   { k.pushArg(occa::kernelArg((unsigned int) 1)); return; }
    if (t == "long")   { k.pushArg(occa::kernelArg((long) 1)); return; }
    if (t == "ulong")  { k.pushArg(occa::kernelArg((unsigned long) 1)); return; }
    if (t == "float")  { k.pushArg(occa::kernelArg(1.0f)); return; }
    if (t == "double") { k.pushArg(occa::kernelArg(1.0)); return; }
  }
  if (code[0] == 'v') {
    static occa::int2 i2; static occa::float4 f4;
    if (t == "int2")   { k.pushArg(occa::kernelArg(i2)); return; }
    if (t == "float4") { k.pushArg(occa::kernelArg(f4)); return; }
  }
  throw std::string("bad argument code " + code);
}

static std::string classify(const std::string &msg) {
  // messages of modeKernel_t::setupRun
  size_t p;
  if (msg.find("Kernel expects [") != std::string::npos) return "count";
  if ((p = msg.find("Kernel expects an occa::memory for argument [")) != std::string::npos)
    return "expects-memory:" + msg.substr(p + 45, msg.find(']', p + 45) - (p + 45));
  if ((p = msg.find("Kernel expects a non-occa::memory type for argument [")) != std::string::npos)
    return "expects-non-memory:" + msg.substr(p + 53, msg.find(']', p + 53) - (p + 53));
  if ((p = msg.find("Argument [")) != std::string::npos && msg.find("has wrong runtime type") != std::string::npos)
    return "wrong-type:" + msg.substr(p + 10, msg.find(']', p + 10) - (p + 10));
  std::string m = msg.substr(0, 80);
  for (char &ch : m) if (ch == '\n' || ch == ' ') ch = '_';
  return "other:" + m;
}

int main(int argc, char **argv) {
  if (argc < 3) return 2;
  const std::string mode = argv[2];
  std::ifstream in(argv[1]);
  std::string line;
  std::vector<std::string> items;
  while (std::getline(in, line)) items.push_back(line);

  DEV = occa::device({{"mode", "Serial"}});
  structS.addField("a", occa::dtype::float_).addField("b", occa::dtype::int_);
  structS.registerType();

  for (size_t i = 0; i < items.size(); ++i) {
    printf("BEGIN %zu\n", i);
    std::vector<std::string> f = split(items[i], '\t');
    if (f.size() != 3) { printf("HARNESS bad item\nEND %zu\n", i); continue; }
    try {
      // host definitions of the OKL vector types / size_t for the Serial compile
      const std::string realDir = occa::io::dirname(occa::io::expandFilename(f[0]));
      const occa::json props({{"compiler_flags", "-O0 -g0 -include " + realDir + "vec.h"}});
      // would the build be a cache hit?
      occa::json allProps; occa::hash_t kernelHash;
      const std::string realFilename = occa::io::expandFilename(f[0]);
      DEV.setupKernelInfo(props, occa::hashFile(realFilename), allProps, kernelHash);
      const std::string binary = occa::io::hashDir(realFilename, kernelHash) + occa::kc::binaryFile;
      const bool hit = occa::io::isFile(binary);
      printf("PATH %s\n", hit ? "cached" : "fresh");
      if (hit != (mode == "cached")) printf("HARNESS expected a %s build\n", mode.c_str());

      occa::kernel k = DEV.buildKernel(f[0], f[1], props);
      occa::modeKernel_t *mk = k.getModeKernel();
      std::ostringstream meta;
      meta << "init=" << (int) mk->metadata.isInitialized();
      for (size_t a = 0; a < mk->metadata.arguments.size(); ++a) {
        occa::lang::argMetadata_t &am = mk->metadata.arguments[a];
        meta << ' ' << am.name << ':' << (am.isPtr ? 'P' : 'v') << (am.isConst ? 'c' : '-') << ':' << oneLine(occa::dtype::toJson(am.dtype).dump(0));
      }
      printf("META %s\n", meta.str().c_str());

      std::vector<std::string> runs = split(f[2], ';');
      for (size_t r = 0; r < runs.size(); ++r) {
        std::vector<occa::memory> keep;
        std::string decision = "ran";
        try {
          k.clearArgs();
          if (runs[r].size()) {
            std::vector<std::string> codes = split(runs[r], ',');
            try {
              for (size_t a = 0; a < codes.size(); ++a) pushArg(k, codes[a], keep);
            } catch (occa::exception &e) {
              // building the argument list is the harness' job: an exception here is not a validation decision
              throw std::string("creating the arguments raised: " + e.message.substr(0, 120));
            }
          }
          k.run();
          DEV.finish();
        } catch (occa::exception &e) {
          decision = "throw:" + classify(e.message);
        }
        printf("D %zu %s\n", r, decision.c_str());
        fflush(stdout);                      // a crash in the next run must not lose the decisions made so far
      }
      k.free();
    } catch (occa::exception &e) {
      std::string m = e.message.substr(0, 300);
      for (char &ch : m) if (ch == '\n') ch = ' ';
      printf("BUILDEXC %s\n", m.c_str());
    } catch (std::string &s) {
      printf("HARNESS %s\n", s.c_str());
    }
    printf("END %zu\n", i);
    fflush(stdout);
  }
  return 0;
}
