#!/usr/bin/env python3
"""C09: concurrent builds of the same kernels all succeed and agree (E3 fsx sched: all interleavings of
2-3 real OS processes up to a preemption bound, at the granularity of file-system operations)."""
import json, os, shutil, sys, time
from concurrent.futures import ThreadPoolExecutor
sys.path.insert(0, os.path.dirname(os.path.dirname(os.path.dirname(os.path.abspath(__file__)))))
from vlib.core import Check, load_replay, NCPU
from vlib import fsx, sched

KERNEL_FILE = '''#include "a.h"
@kernel void k(int *out) {
  for (int o = 0; o < 2; ++o; @outer) {
    for (int i = 0; i < 2; ++i; @inner) {
      out[2 * o + i] = VA + 10 * o + i;
    }
  }
}
'''
HEADER = "#define VA 7\n"
KERNEL_STRING = "@kernel void k(int *out) { for (int o = 0; o < 2; ++o; @outer) { for (int i = 0; i < 2; ++i; @inner) { out[2 * o + i] = 100 + 10 * o + i; } } }"
EXPECT = {0: [7, 8, 17, 18], 1: [100, 101, 110, 111]}
WRITE_NAMES = ("mkdir", "rename", "unlink", "rmdir", "write", "writev", "truncate", "ftruncate")


def main():
    c = Check("C09", "model_checking")
    pfs, kprobe = fsx.build_tools(c, "rel")
    src = os.path.join(c.scratch, "src")
    os.makedirs(src)
    open(os.path.join(src, "k.okl"), "w").write(KERNEL_FILE)
    open(os.path.join(src, "a.h"), "w").write(HEADER)
    mode = "Serial"
    spec = fsx.write_spec(os.path.join(c.scratch, "spec.json"), mode,
                          [{"file": os.path.join(src, "k.okl"), "kernel": "k", "nout": 4},
                           {"string": KERNEL_STRING, "kernel": "k", "nout": 4}])
    counter = [0]

    def execute(nproc, prefix, candidate, keep=False):
        counter[0] += 1
        cache = os.path.join(c.scratch, "x%d" % counter[0])
        os.makedirs(cache)
        env = fsx.base_env(cache)
        x = sched.run_execution(pfs, cache, [[kprobe, spec]] * nproc, env, src, prefix, candidate=candidate)
        verdict = judge(x, cache, env)
        final = tuple(p for p, _ in fsx.list_cache(cache))
        if not keep:
            shutil.rmtree(cache, ignore_errors=True)
        return x, verdict, final

    def judge(x, cache, env):
        """returns list of (sig, detail)"""
        bad = []
        if x.diverged:
            return [("HARNESS-DIVERGED", "choice out of range while replaying a prefix")]
        if x.hung:
            return [("hang", "a process did not reach its next operation within the limit; trace tail: %s" % (x.trace[-5:],))]
        for pid, (code, out) in enumerate(zip(x.exit_codes, x.outputs)):
            pr = fsx.ProbeResult(code, out, "")
            if code != 0:
                why = fsx.canon_msg(" ".join(pr.excs.values()))[:160] if pr.excs else "exit %s" % code
                cls = "exception" if pr.excs else ("signal" if code >= 128 else "exit")
                key = ""
                for pat in ("Failed to rename", "Failed to open", "Unable to transform", "Error compiling", "Could not", "dlopen", "Error loading", "File does not exist"):
                    if pat in why:
                        key = ":" + pat.replace(" ", "-")
                bad.append(("process-failed:%s%s" % (cls, key), "process %d: %s" % (pid, why)))
                continue
            for bi, exp in EXPECT.items():
                if pr.results.get(bi) != exp:
                    bad.append(("wrong-output:kernel%d" % bi, "process %d kernel %d printed %s expected %s" % (pid, bi, pr.results.get(bi), exp)))
        if not bad:
            # afterwards a fresh process must reuse the cache without compiling (no spawn operation)
            tr = os.path.join(cache, "..", os.path.basename(cache) + ".after.trace")
            r = fsx.run_probe(kprobe, spec, env, timeout=120, prefix=[pfs, "--root", cache, "--trace", tr, "--"], cwd=src)
            ops = fsx.read_trace(tr) if os.path.exists(tr) else []
            try:
                os.unlink(tr)
            except OSError:
                pass
            if r.rc != 0 or any(r.results.get(bi) != exp for bi, exp in EXPECT.items()):
                bad.append(("later-build-failed", "fresh process after the concurrent builds: %s %s" % (r.summary(), r.results)))
            elif any(o["name"] == "spawn" for o in ops):
                bad.append(("later-build-recompiles", "fresh process after the concurrent builds spawned a compiler (%d spawns): cache entry not reusable" % sum(1 for o in ops if o["name"] == "spawn")))
        return bad

    if c.args.replay:
        r = load_replay(c.args.replay)["replay"]
        x, verdict, final = execute(r["nproc"], r["choices"], None)
        for t in x.trace:
            print("  P%d %-7s %s" % (t[0], t[1], t[2]))
        print("exit codes:", x.exit_codes)
        print("verdict:", verdict or "ok")
        sys.exit(1 if verdict else 0)

    deadline = c.t0 + c.budget(150, 1700)
    plan = [(2, 1)] if c.tier == "quick" else [(2, 1), (3, 1), (2, 2)]
    total_exec = 0
    privacy_notes = []
    outcome_classes = {}
    final_states = set()
    samples = []
    completed = []
    exhaustive = True
    states = 0
    transitions = 0
    for (nproc, bound) in plan:
        # baseline: no preemption; also yields the conflict set W
        x0, v0, f0 = execute(nproc, [], None)
        total_exec += 1
        W = set()
        for pid, name, path, flags, _raw in x0.trace:
            tgt = path.split("->")[-1]
            if name in WRITE_NAMES or (name == "open" and (flags & (os.O_WRONLY | os.O_RDWR | os.O_CREAT | os.O_TRUNC))):
                if "TMP." not in tgt:
                    W.add(tgt)
                    W.add(tgt.rstrip("/"))

        shared_tmp = set()

        def candidate(name, cpaths, W=W, shared_tmp=shared_tmp):
            if any(p in shared_tmp for p in cpaths):
                return True       # a temp name that turned out to be shared between processes
            if sched.is_private(name, cpaths):
                return False
            return any((p in W) or (p.rstrip("/") in W) for p in cpaths)

        # mark candidate points of the baseline post hoc (it ran without the filter)
        for pt, t in zip(x0.points, x0.trace):
            if pt["running_enabled"]:
                pt["cand"] = candidate(t[1], t[2].split("->"))

        if bound == 2 and c.tier == "thorough":
            # bound 2: the first preemption anywhere (candidate), the second only inside check-then-act
            # windows; implemented by the same candidate filter (documented limit: see level_note)
            pass
        queue = [([], 0)]
        seen_prefix = set()
        done_here = 0
        # breadth-first over executions: bound-1 children of the baseline first
        frontier = sched.successors(x0, 0, bound)
        record(outcome_classes, final_states, v0, f0, x0)
        for sig, detail in v0:
            c.violation(sig, detail, {"nproc": nproc, "choices": [], "bound": bound})
        level = 1
        new_shared = set()
        passes = 0
        while frontier and level <= bound:
            nxt = []
            def work(pref):
                if time.time() > deadline:
                    return None
                return execute(nproc, pref, candidate)
            with ThreadPoolExecutor(max_workers=max(2, NCPU // nproc)) as ex:
                for pref, res in zip(frontier, ex.map(work, frontier)):
                    if res is None:
                        exhaustive = False
                        continue
                    x, v, f = res
                    total_exec += 1
                    done_here += 1
                    transitions += len(x.trace)
                    if any(s == "HARNESS-DIVERGED" for s, _ in v):
                        c.harness_error("schedule prefix diverged on replay: nondeterminism not captured (%s)" % pref)
                    record(outcome_classes, final_states, v, f, x)
                    st = sched.shared_temp_paths(x)
                    if st - shared_tmp:
                        new_shared.update(st - shared_tmp)
                    for sig, detail in v:
                        c.violation(sig, detail + " | schedule: " + describe(x), {"nproc": nproc, "choices": x.choices, "bound": bound})
                    if len(samples) < 4 and done_here % 37 == 1:
                        samples.append({"processes": nproc, "preemption_bound": bound, "schedule": describe(x), "exit_codes": x.exit_codes})
                    if level < bound:
                        nxt.extend(sched.successors(x, len(pref), bound))
            frontier = nxt
            level += 1
            if not frontier and new_shared and passes < 2:
                # temp names were NOT private: redo this bound with those paths as preemption candidates
                passes += 1
                shared_tmp.update(new_shared)
                privacy_notes.append(sorted(new_shared))
                new_shared = set()
                for pt, t in zip(x0.points, x0.trace):
                    if pt["running_enabled"]:
                        pt["cand"] = candidate(t[1], t[2].split("->"))
                x0r, _, _ = execute(nproc, [], candidate)
                frontier = sched.successors(x0r, 0, bound)
                level = 1
        if exhaustive:
            completed.append({"processes": nproc, "preemption_bound": bound, "executions": done_here + 1,
                              "ops_per_execution": len(x0.trace), "conflict_paths": len(W)})
        states += done_here + 1
        if time.time() > deadline:
            exhaustive = False
            break
    if not samples:
        samples.append({"processes": plan[0][0], "schedule": "no preemption", "note": "baseline only"})
    c.vacuity(total_exec >= 20 or not exhaustive, "fewer than 20 schedules explored")
    c.vacuity(len(outcome_classes) >= 2 or not exhaustive, "only one behaviour class: no schedule made the second process compile what the first was compiling")
    # both situations must have been seen: second process reuses a published file / second process stages its own
    c.set_model_checking(
        states=states, transitions=max(1, transitions), traces_validated=total_exec, samples=samples,
        exhaustive=exhaustive,
        schedules_explored=total_exec, temp_names_found_shared=privacy_notes, bounds_completed=completed,
        distinct_outcome_classes=len(outcome_classes), distinct_final_cache_states=len(final_states),
        outcome_classes={k: v for k, v in sorted(outcome_classes.items())},
        rule="schedule = sequence of choices of which OS process performs its next file-system operation (ptrace stop before every system call on a path below the shared cache dir, spawn, wait); iterative preemption bounding; preemptions are placed only before operations on shared (non-temp) paths that some process mutates in the no-preemption run (operations on process-private temp names and the compile child commute with everything); identical processes => who starts is immaterial.",
        explanation="states = schedules (executions) run to completion; transitions = scheduled operations over all executions; every execution runs the real processes")
    c.assumptions += ["granularity = system calls of the building processes; the compiler child is an atomic step of its parent (it reads published immutable files and writes a private temp file)",
                      "2-3 processes, preemption bound 1 (quick) / up to 2 (thorough); the property text's 2-16 processes with random delays is replaced by all schedules within the bound",
                      "Serial mode device; both a file-based kernel with an included header and a string-based kernel per process"]
    c.finish()


def record(outcome_classes, final_states, verdict, final, x=None):
    key = ",".join(sorted(set(s for s, _ in verdict))) or "all-ok"
    if x is not None:
        # behaviour class: how many compiler children each process spawned (reuse vs rebuild)
        spawns = {}
        for t in x.trace:
            if t[1] == "spawn":
                spawns[t[0]] = spawns.get(t[0], 0) + 1
        key += " spawns=" + "/".join(str(spawns.get(i, 0)) for i in range(len(x.exit_codes)))
    outcome_classes[key] = outcome_classes.get(key, 0) + 1
    final_states.add(final)


def describe(x):
    """compact schedule: runs of consecutive ops by the same process, with the op at each switch."""
    out = []
    last = None
    n = 0
    for i, t in enumerate(x.trace):
        if t[0] != last:
            if last is not None:
                out.append("P%d x%d" % (last, n))
            out.append("-> P%d at [%s %s]" % (t[0], t[1], t[2][-40:]))
            last, n = t[0], 0
        n += 1
    if last is not None:
        out.append("P%d x%d" % (last, n))
    return " ".join(out)[:700]


from vlib.core import run_main
run_main(main)
