// C19 run-and-compare driver: translated @dim accesses against the documented mixed-radix formula.
//
// Linked with a generated TU providing dim_table[]: per program the translated Serial kernel (records the
// linear index with vidx()) and the reference formula in which every argument is a complete,
// parenthesised expression.  Variables: i j p q (index values), m n (dimension values), c (condition),
// a[] (lookup table).  Every program is run for all values of the variables it uses.
//
// Output:  K <name> tuples=<n> mism=<n> distinct=<n> [bij=<ok|fail|na>]
//          M <name> value i j p q m n c | ref=<r> got=<g>
//          B <name> <message>                      (bijection failures)
// Replay:  driver <name> i j p q m n c
#include <cstdio>
#include <cstdlib>
#include <cstring>
#include <map>
#include <set>
#include <vector>

#include "driver.hpp"

static long recorded = 0;
static int recordCount = 0;

void vidx(long index) {
  recorded = index;
  ++recordCount;
}

// a[]: a permutation-like lookup table, large enough for every subscript of the alphabet
static int lookup[16] = {2, 0, 3, 1, 5, 4, 7, 6, 1, 3, 0, 2, 6, 7, 4, 5};
// the @dim variable points into the middle of a large block so that computing &x[index] stays inside
// one object whatever index a (possibly wrong) translation produces
static int block[1 << 18];

static const int LO[7] = {0, 0, 0, 0, 1, 1, 0};
static const int HI[7] = {2, 2, 1, 1, 3, 3, 1};
static const int DEF[7] = {0, 0, 0, 0, 1, 1, 0};

static bool runOne(const DimEntry &e, const int v[7], long &ref, long &got) {
  int *x = block + (1 << 17);
  recorded = -999999;
  recordCount = 0;
  ref = e.ref(v[0], v[1], v[2], v[3], v[4], v[5], v[6], lookup);
  e.impl(v[0], v[1], v[2], v[3], v[4], v[5], v[6], lookup, x);
  got = recorded;
  return recordCount == 1 && ref == got;
}

int main(int argc, char **argv) {
  if (argc == 9) {
    for (int k = 0; k < dim_count; ++k) {
      if (std::strcmp(dim_table[k].name, argv[1])) continue;
      int v[7];
      for (int d = 0; d < 7; ++d) v[d] = std::atoi(argv[2 + d]);
      long ref, got;
      const bool ok = runOne(dim_table[k], v, ref, got);
      std::printf("R %s ref=%ld got=%ld records=%d %s\n", argv[1], ref, got, recordCount, ok ? "equal" : "MISMATCH");
      return ok ? 0 : 1;
    }
    std::printf("E no such program\n");
    return 2;
  }
  for (int k = 0; k < dim_count; ++k) {
    const DimEntry &e = dim_table[k];
    long tuples = 0, mism = 0;
    bool reported = false;
    std::set<long> distinct;
    std::map<long, int> hits;
    int idx[7];
    for (int d = 0; d < 7; ++d) idx[d] = (e.uses & (1u << d)) ? LO[d] : DEF[d];
    while (true) {
      // for bijection programs only in-range index tuples are enumerated (hi[d] = D_d - 1)
      bool inRange = true;
      if (e.bijDims[0]) {
        for (int d = 0; d < e.arity; ++d) if (idx[d] >= e.bijDims[d]) inRange = false;
      }
      if (inRange) {
        long ref, got;
        ++tuples;
        if (!runOne(e, idx, ref, got)) {
          ++mism;
          if (!reported) {
            reported = true;
            std::printf("M %s value %d %d %d %d %d %d %d | ref=%ld got=%ld records=%d\n", e.name,
                        idx[0], idx[1], idx[2], idx[3], idx[4], idx[5], idx[6], ref, got, recordCount);
          }
        }
        distinct.insert(got);
        ++hits[got];
      }
      int d = 6;
      while (d >= 0) {
        if (!(e.uses & (1u << d))) { --d; continue; }
        const int hi = (e.bijDims[0] && d < e.arity) ? e.bijDims[d] - 1 : HI[d];
        if (idx[d] < hi) { ++idx[d]; break; }
        idx[d] = LO[d];
        --d;
      }
      if (d < 0) break;
    }
    const char *bij = "na";
    if (e.bijDims[0]) {
      long total = 1;
      for (int d = 0; d < e.arity; ++d) total *= e.bijDims[d];
      bool ok = (tuples == total) && ((long) hits.size() == total);
      for (std::map<long, int>::iterator it = hits.begin(); it != hits.end(); ++it) {
        if (it->first < 0 || it->first >= total || it->second != 1) ok = false;
      }
      bij = ok ? "ok" : "fail";
      if (!ok) std::printf("B %s in-range indices do not map one-to-one onto [0,%ld): %zu distinct values for %ld tuples\n",
                           e.name, total, hits.size(), tuples);
    }
    std::printf("K %s tuples=%ld mism=%ld distinct=%zu bij=%s\n", e.name, tuples, mism, distinct.size(), bij);
  }
  std::printf("DONE %d\n", dim_count);
  return 0;
}
