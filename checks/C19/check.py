#!/usr/bin/env python3
"""C19: @dim array access computes the documented linear index (E2 enumeration).

All @dim/@dimOrder accesses of a bounded grammar (arity 1-4, every permutation, index and dimension
arguments from an alphabet with one representative per C operator class) are rewritten by the real
translator (Serial mode); the rewritten access is compiled with g++ and evaluated for all values of its
variables; the index must equal the documented mixed-radix formula with every argument taken as a complete
(parenthesised) expression, and for in-range indices the map must be a bijection onto [0, D0*...*Dk).
"""
import itertools, os, re, subprocess, sys, time
from concurrent.futures import ThreadPoolExecutor
ROOT = os.path.dirname(os.path.dirname(os.path.dirname(os.path.abspath(__file__))))
sys.path.insert(0, ROOT)
sys.path.insert(0, os.path.join(ROOT, "checks", "C17"))
from vlib.core import Check, san_env, load_replay, sh, NCPU
import loopfam as lf

HERE = os.path.dirname(os.path.abspath(__file__))
VARS = "ijpqmnc"
PARAMS = "const int i, const int j, const int p, const int q, const int m, const int n, const int c, const int *a"
# (operator class, index-argument form, dimension-argument form); lowest precedence first
EXPRS = [
    ("comma", "(i,j)", "(m,n)"),
    ("cond", "c?i:j", "c?m:n"),
    ("logor", "i||j", "m||n"),
    ("logand", "i&&j", "m&&n"),
    ("bitor", "i|1", "m|1"),
    ("bitxor", "i^1", "m^1"),
    ("bitand", "i&3", "m&3"),
    ("eq", "i==j", "m==n"),
    ("rel", "i<j", "m<n"),
    ("shift", "i<<1", "m<<1"),
    ("add", "i+1", "m+1"),
    ("sub", "j-i", "n-1"),
    # multiplicative operators have the precedence of the '*' the index is combined with:
    # N * j / 2 is (N*j)/2, not N*(j/2)  (added after a seeded change that only broke these)
    ("mul", "i*2", "m*2"),
    ("div", "j/2", "(m+4)/2"),
    ("mod", "j%2", "(m+3)%3"),
    ("neg", "-i", "-m"),
    ("not", "!i", "!m"),
    ("subscript", "a[i]", "a[m]"),
]
PRIORITY = [e[0] for e in EXPRS]
PAIR_CLASSES = ["cond", "bitand", "shift", "comma", "add", "div"]
TRIVIAL_IDX = ["i", "j", "p", "q"]
TRIVIAL_DIM = ["3", "2", "2", "2"]


class DimProgram:
    def __init__(self, name, arity, order, idx, dims, feature, bij):
        self.name, self.arity, self.order, self.idx, self.dims, self.feature, self.bij = name, arity, order, idx, dims, feature, bij

    def attrs(self):
        s = "@dim(%s)" % ", ".join(self.dims)
        if self.order is not None:
            s += " @dimOrder(%s)" % ", ".join(str(o) for o in self.order)
        return s

    def access(self):
        return "x(%s)" % ", ".join(self.idx)

    def okl(self):
        return ("@kernel void %s(%s, int *x %s) { for (int o = 0; o < 1; ++o; @outer) { for (int t = 0; t < 1; ++t; @inner) "
                "{ vidx(&%s - x); } } }" % (self.name, PARAMS, self.attrs(), self.access()))

    def ref_expr(self):
        """documented formula: index = sum_k (E[order[k]]) * prod_{j<k} (D[order[j]]), every argument complete"""
        o = list(self.order) if self.order is not None else list(range(self.arity))
        e = "(%s)" % self.idx[o[-1]]
        for k in range(self.arity - 2, -1, -1):
            e = "(%s) + (%s) * (%s)" % (self.idx[o[k]], self.dims[o[k]], e)
        return e

    def uses_mask(self):
        txt = " ".join(self.idx + self.dims)
        return sum(1 << d for d, ch in enumerate(VARS) if re.search(r"(?<![A-Za-z_0-9])%s(?![A-Za-z_0-9])" % ch, txt))

    def desc(self):
        return "int *x %s; %s" % (self.attrs(), self.access())

    def replay_obj(self):
        return {"name": self.name, "arity": self.arity, "order": self.order, "idx": self.idx, "dims": self.dims,
                "feature": self.feature, "bij": self.bij}


def orders(arity, tier):
    perms = [None] + [list(p) for p in itertools.permutations(range(arity))]
    if tier == "quick" and arity == 4:
        perms = [None, [0, 1, 2, 3], [3, 2, 1, 0], [1, 2, 3, 0], [2, 0, 3, 1]]
    return perms


def programs(tier):
    progs = []

    def add(arity, order, idx, dims, feature, bij=False):
        progs.append(DimProgram("k%d" % len(progs), arity, order, list(idx), list(dims), feature, bij))

    # 1. plain accesses: formula + bijection
    for arity in range(1, 5):
        for order in orders(arity, "thorough"):
            add(arity, order, TRIVIAL_IDX[:arity], TRIVIAL_DIM[:arity], "plain", bij=True)
    # 2. one non-trivial argument in every position
    for arity in range(1, 5):
        for order in orders(arity, tier):
            for pos in range(2 * arity):
                for cls, ie, de in EXPRS:
                    idx, dims = TRIVIAL_IDX[:arity], TRIVIAL_DIM[:arity]
                    if pos < arity:
                        idx[pos] = ie
                        feat = "index-arg:" + cls
                    else:
                        dims[pos - arity] = de
                        feat = "dim-arg:" + cls
                    add(arity, order, idx, dims, feat)
    # 3. all pairs of positions with two non-trivial arguments (arity <= 3)
    pair_exprs = [e for e in EXPRS if e[0] in PAIR_CLASSES]
    for arity in ((2,) if tier == "quick" else (1, 2, 3)):
        for order in orders(arity, tier):
            for pa, pb in itertools.combinations(range(2 * arity), 2):
                for ea in pair_exprs:
                    for eb in pair_exprs:
                        idx, dims = TRIVIAL_IDX[:arity], TRIVIAL_DIM[:arity]
                        feats = []
                        for pos, e in ((pa, ea), (pb, eb)):
                            if pos < arity:
                                idx[pos] = e[1]
                                feats.append(("index-arg:", e[0]))
                            else:
                                dims[pos - arity] = e[2]
                                feats.append(("dim-arg:", e[0]))
                        feats.sort(key=lambda f: PRIORITY.index(f[1]))
                        add(arity, order, idx, dims, "pair:" + feats[0][0] + feats[0][1])
    return progs


def gen_tu(progs, translated):
    s = ['#include "driver.hpp"', '#include "%s"' % translated]
    for p in progs:
        s.append("static long ref_%s(int i, int j, int p, int q, int m, int n, int c, const int *a) { return %s; }"
                 % (p.name, p.ref_expr()))
        s.append("static void impl_%s(int i, int j, int p, int q, int m, int n, int c, const int *a, int *x) "
                 "{ %s(i, j, p, q, m, n, c, a, x); }" % (p.name, p.name))
    s.append("DimEntry dim_table[] = {")
    for p in progs:
        bij = (p.dims + ["0"] * 4)[:4] if p.bij else ["0"] * 4
        s.append('  {"%s", %du, %d, {%s}, ref_%s, impl_%s},' % (p.name, p.uses_mask(), p.arity, ", ".join(bij), p.name, p.name))
    s.append("};")
    s.append("int dim_count = %d;" % len(progs))
    return "\n".join(s) + "\n"


def cxx(src, obj):
    return ["g++", "-std=c++17", "-O0", "-g1", "-w", "-fsanitize=undefined", "-I" + HERE, "-c", src, "-o", obj]


def build_run(wd, tag, progs, translated, driver_o, env, run_args=None):
    src = lf.write(os.path.join(wd, tag + ".cpp"), gen_tu(progs, translated))
    obj, exe = os.path.join(wd, tag + ".o"), os.path.join(wd, tag + ".exe")
    lf.run_cmd(cxx(src, obj), "compile " + tag)
    lf.run_cmd(["g++", "-fsanitize=undefined", driver_o, obj, "-o", exe], "link " + tag)
    p = subprocess.run([exe] + (run_args or []), stdout=subprocess.PIPE, stderr=subprocess.PIPE, text=True, env=env, cwd=wd, timeout=600)
    return p.returncode, p.stdout, p.stderr


def main():
    c = Check("C19", "exploration")
    c.build(lf.VARIANT)
    env = san_env(c.scratch)
    xlate = lf.compile_xlate(c)
    wd = os.path.join(c.scratch, "dim")
    os.makedirs(wd, exist_ok=True)
    driver_o = os.path.join(wd, "driver.o")
    lf.run_cmd(cxx(os.path.join(HERE, "driver.cpp"), driver_o), "driver compile")

    if c.args.replay:
        r = load_replay(c.args.replay)["replay"]
        o = r["program"]
        p = DimProgram(o["name"], o["arity"], o["order"], o["idx"], o["dims"], o["feature"], o["bij"])
        okl = lf.write(os.path.join(wd, "r.okl"), p.okl() + "\n")
        out = os.path.join(wd, "r.xl")
        v = lf.translate_files(xlate, [("serial", okl, out, "-")], wd, env)
        print("translate:", v[0])
        if v[0] != "OK":
            sys.exit(0)
        print(open(out).read())
        print("documented index: " + p.ref_expr())
        rc, so, se = build_run(wd, "r", [p], out, driver_o, env, [p.name] + [str(x) for x in r["values"]] if r.get("values") else None)
        print(so)
        bad = rc != 0 or any(ln.startswith(("M ", "B ")) for ln in so.split("\n"))
        sys.exit(1 if bad else 0)

    progs = programs(c.tier)
    deadline = c.t0 + c.budget(240, 1500)
    verdicts = lf.validate(xlate, [type("P", (), {"okl": p.okl()}) for p in progs], "serial", wd, env)
    accepted = [p for p, v in zip(progs, verdicts) if v == "OK"]
    for p, v in zip(progs, verdicts):
        if v.startswith("CRASH"):
            c.violation("translator-crash", "%s: translator died (%s)" % (p.desc(), v), {"program": p.replay_obj(), "values": None})
    rejected_features = sorted(set(p.feature for p, v in zip(progs, verdicts) if v != "OK"))
    chunks = lf.chunks_of(accepted, 50)
    jobs = []
    for ci, ch in enumerate(chunks):
        okl = lf.write(os.path.join(wd, "c%d.okl" % ci), "\n".join(p.okl() for p in ch) + "\n")
        jobs.append(("serial", okl, os.path.join(wd, "c%d.xl" % ci), "-"))
    tv = lf.translate_files(xlate, jobs, wd, env)
    bad = [i for i, v in enumerate(tv) if v != "OK"]
    if bad:
        c.harness_error("chunk translation failed although every program was accepted alone: chunks %s" % bad[:5])

    def work(ci):
        if time.time() > deadline:
            return None
        try:
            return build_run(wd, "c%d" % ci, chunks[ci], jobs[ci][2], driver_o, env)
        except lf.BuildError as e:
            return ("builderror", str(e), "")

    with ThreadPoolExecutor(max_workers=NCPU) as ex:
        results = list(ex.map(work, range(len(chunks))))

    evaluations = judged = bij_ok = 0
    complete = True
    distinct_total = 0
    judged_features = set()
    for ci, r in enumerate(results):
        if r is None:
            complete = False
            continue
        rc, out, err = r
        if rc == "builderror":
            c.harness_error("translated @dim access did not compile:\n" + out)
        if rc != 0 or "DONE" not in out:
            c.harness_error("driver for chunk %d ended abnormally rc=%s\n%s\n%s" % (ci, rc, out[-1500:], err[-1500:]))
        byname = dict((p.name, p) for p in chunks[ci])
        for ln in out.split("\n"):
            if ln.startswith("K "):
                f = ln.split()
                kv = dict(x.split("=") for x in f[2:])
                evaluations += int(kv["tuples"])
                judged += 1
                judged_features.add(byname[f[1]].feature)
                if int(kv["distinct"]) > 1:
                    distinct_total += 1
                if kv["bij"] == "ok":
                    bij_ok += 1
            elif ln.startswith("M "):
                head, rest = ln.split("|", 1)
                f = head.split()
                p = byname[f[1]]
                vals = [int(x) for x in f[3:10]]
                c.violation("index-value:" + p.feature,
                            "%s -> documented index %s; for i,j,p,q,m,n,c=%s: %s" % (p.desc(), p.ref_expr(), vals, rest.strip()),
                            {"program": p.replay_obj(), "values": vals})
            elif ln.startswith("B "):
                f = ln.split(None, 2)
                p = byname[f[1]]
                c.violation("bijection:arity%d" % p.arity, "%s: %s" % (p.desc(), f[2]), {"program": p.replay_obj(), "values": None})
        for path, line, kind in lf.ub_reports(err):
            owners = lf.line_owner(path, [p.name for p in chunks[ci]])
            name = owners.get(line)
            if name:
                p = byname[name]
                c.violation("ub-in-translation:" + p.feature, "%s: %s" % (p.desc(), kind), {"program": p.replay_obj(), "values": None})

    nbij = sum(1 for p in accepted if p.bij)
    c.vacuity(len(accepted) >= len(progs) * 3 // 4, "fewer than 3/4 of the @dim programs accepted by the translator (%d of %d; rejected features %s)"
              % (len(accepted), len(progs), rejected_features[:8]))
    c.vacuity(nbij >= 30 and (bij_ok > 0 or not complete), "bijection programs")
    for cls in PRIORITY:
        c.vacuity(("index-arg:" + cls) in judged_features or not complete, "no accepted program with an index argument of class " + cls)
    c.vacuity(any(f.startswith("dim-arg:") for f in judged_features), "no accepted program with a non-trivial dimension argument")
    c.set_exploration(
        evaluations=evaluations,
        distinct_nontrivial=distinct_total,
        rule="all @dim accesses: arity 1-4 x (no @dimOrder | every permutation%s) x one non-trivial argument (18 operator classes: "
             "comma-in-parens, ?:, |, &, ==, <<, +, unary -, subscript) in every index and every dimension position, plus all pairs of "
             "positions over 5 classes for arity %s; rewritten by the Serial translator, compiled, evaluated for all i,j in [0,2], "
             "p,q in [0,1], m,n in [1,3], c in {0,1}; index == documented mixed-radix formula with parenthesised arguments; plain "
             "accesses with dims 3x2x2x2: bijection onto [0, prod D)"
             % (" (5 of 25 orders at arity 4)" if c.tier == "quick" else "", "2" if c.tier == "quick" else "<= 3"),
        samples=[progs[0].desc(), progs[len(progs) // 2].desc(), progs[-1].desc()],
        exhaustive=complete,
        programs_generated=len(progs), programs_accepted=len(accepted), programs_judged=judged,
        rejected_features=rejected_features,
        bijection_programs=nbij, bijection_ok=bij_ok,
        argument_classes_judged=sorted(judged_features),
    )
    c.assumptions += [
        "Serial translator only: the @dim rewrite is a mode-independent parser transformation (dim::applyCodeTransformations)",
        "the linear index is observed as &x(...) - x on a pointer into the middle of a 1 MiB block (no dereference)",
        "documented formula: index = sum_k arg[order[k]] * prod_{j<k} dim[order[j]] (docs/guide/okl/attributes.md, @dim/@dimOrder examples)",
    ]
    c.finish()


if __name__ == "__main__":      # (C18 is also imported by tooling for its generators)
    from vlib.core import run_main; run_main(main)
