// shared declarations of the C19 driver and the generated TUs
#ifndef VERIF_C19_DRIVER_HPP
#define VERIF_C19_DRIVER_HPP

// variables: i j p q m n c  (bit d of `uses` set = variable d is enumerated)
struct DimEntry {
  const char *name;
  unsigned uses;
  int arity;
  int bijDims[4];     // literal dimensions of a bijection program (bijDims[0] == 0: not a bijection program)
  long (*ref)(int i, int j, int p, int q, int m, int n, int c, const int *a);
  void (*impl)(int i, int j, int p, int q, int m, int n, int c, const int *a, int *x);
};

extern DimEntry dim_table[];
extern int dim_count;

void vidx(long index);   // recorder called by the translated kernel
#endif
