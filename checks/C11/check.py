#!/usr/bin/env python3
"""C11: dtype and kernel-metadata JSON serialization round-trips (E2 bounded-exhaustive).

Terms (see harness.cpp): leaves = 10 builtins passed as the global object (b), by-value copies of builtins (r),
3 custom dtypes (c), enums (e named/4 bytes, f anonymous/0 bytes); constructors = tuple(2|3), struct(1..3 fields,
anonymous or named "S"), union(1..2 fields, built from JSON because there is no other public way).
  D  every dtype tree of depth <= 2 (quick) / <= 3 with width 2 (thorough) over those alphabets
  P  every ordered pair of a 22-tree sub-alphabet: canBeCastedTo before / after (either side, both sides, text route)
  M  every argument-metadata list of length <= 2 over a 12-tree sub-alphabet x {const,ptr} flags
"""
import os, sys, time
sys.path.insert(0, os.path.dirname(os.path.dirname(os.path.dirname(os.path.abspath(__file__)))))
from vlib.core import Check, san_env, load_replay, sh
from vlib.batch import run_items

HERE = os.path.dirname(os.path.abspath(__file__))


def rerun_timeouts(results, items, cmd, workdir, env):
    """A driver that exceeds its wall-clock limit on a loaded machine is not an observation about the item:
    re-run such an item alone with a generous limit; only a reproducible timeout stays a crash."""
    n = 0
    for r in results:
        if r.crash == "timeout":
            n += 1
            res, _ = run_items(cmd, [items[r.index]], os.path.join(workdir, "retry"), env, chunk=1, workers=1, per_item_timeout=300)
            if res and not res[0].crash:
                r.lines, r.crash, r.stderr = res[0].lines, None, ""
    return n


def fast_env(scratch, extra=None):
    """san_env with a small ASan quarantine: the default 256 MB quarantine makes every allocation of a long-running
    driver touch fresh pages (measured: 3.4x wall, 5x system time); 8 MB still catches use-after-free of recent frees."""
    env = san_env(scratch, extra)
    env["ASAN_OPTIONS"] += ":quarantine_size_mb=8"
    return env

LEAVES = ["b%d" % i for i in range(10)] + ["r6", "r4", "r8", "c0", "c1", "c2", "e1", "e2", "f2"]
SMALL_LEAVES = ["b6", "b4", "r6", "c0", "b8", "e2"]
# depth <= 1 sub-alphabet used as children of the next level
SUB = ["b6", "r4", "c0", "b8", "e2", "t2b6", "t3r6", "s2b6b4", "s1c0", "N2b6b7", "u2b6b4", "s2t2b6r4"]
# sub-alphabet for cast pairs: related by prefix / cyclic / order / byte
CAST = SUB + ["b0", "b7", "b9", "b4", "t2b4", "t4b4", "s2b4b6", "s2b6b6", "t2s2b6b4", "s3b6b6b6"]


def level(children, small, with_s3=True):
    out = []
    for x in children:
        out += ["t2" + x, "t3" + x, "s1" + x, "N1" + x, "u1" + x]
    for x in children:
        for y in children:
            out += ["s2" + x + y, "u2" + x + y, "N2" + x + y]
    if with_s3:
        for x in small:
            for y in small:
                for z in small:
                    out.append("s3" + x + y + z)
    return out


def gen(tier):
    d0 = list(LEAVES)
    d1 = level(LEAVES, SMALL_LEAVES)
    d2 = level(SUB, SUB if tier == "thorough" else SUB[:8])
    terms = d0 + d1 + d2
    if tier == "thorough":
        d1all = level(LEAVES, LEAVES)                       # all structs of 3 leaf fields
        sub2 = SUB + ["s2s2b6b4c0", "t2t3r6", "u1s2b6b4", "N2t2b6e2", "s2u2b6b4b8", "t3s1c0", "s2N2b6b7N2b6b7", "u2t2b6s1c0",
                      "s1s1b6", "t2u1c0", "s3b6r4c0", "N1e2"]
        d3 = level(sub2, [], with_s3=False)                 # depth 3, width 2
        d2all = level(LEAVES + ["t2b6", "t3r6", "s2b6b4", "s1c0", "u2b6b4", "N2b6b7", "t2c0", "s1e2"], [], with_s3=False)
        # depth 3, width 2 over ALL depth-1 trees of the 6 small leaves (plus the sub-alphabet): ~68 000 trees
        sub3 = SUB + [t for t in level(SMALL_LEAVES, [], with_s3=False) if t not in SUB]
        d3all = level(sub3, [], with_s3=False)
        terms += d1all + d3 + d2all + d3all
    seen, items = set(), []
    for t in terms:
        if t not in seen:
            seen.add(t)
            items.append("D " + t)
    nd = len(items)
    for a in CAST:
        for b in CAST:
            items.append("P %s %s" % (a, b))
    npairs = len(items) - nd
    args = [(f, t) for t in SUB for f in range(4)]
    metas = ["M"] + ["M %d:%s" % a for a in args] + ["M %d:%s %d:%s" % (a + b) for a in args for b in args]
    items += metas
    return items, nd, npairs, len(metas)


def main():
    c = Check("C11", "exploration")
    c.build("asan")
    exe = c.compile(os.path.join(HERE, "harness.cpp"), "harness")
    env = fast_env(c.scratch)
    if c.args.replay:
        r = load_replay(c.args.replay)
        p = sh([exe, "one"] + r["replay"]["item"].split(" "), env=env)
        print(p.stdout)
        bad = any(ln.startswith("F ") for ln in p.stdout.split("\n")) or p.returncode != 0
        print("replay:", "VIOLATION" if bad else "ok")
        sys.exit(1 if bad else 0)

    items, nd, npairs, nmeta = gen(c.tier)
    # The work of a tier is a fixed, bounded set sized by CPU time (quick: 4-7 CPU-minutes = 15-25 s on 16 idle cores).
    # The wall-clock deadline is only a safety net for a heavily loaded machine; it starts after the (possibly long) build.
    deadline = time.time() + c.budget(600, 3000)
    results, complete = run_items([exe], items, c.scratch, env, chunk=max(100, len(items) // 16 + 1), per_item_timeout=0.5, deadline=deadline)
    c.coverage["driver_timeouts_retried"] = rerun_timeouts(results, items, [exe], c.scratch, env)
    kinds, digests, cast_outcomes, bytes_pos = {}, set(), set(), 0
    answered = 0
    for r in results:
        it = items[r.index]
        ok = False
        for ln in r.lines:
            if ln.startswith("F "):
                sig, _, detail = ln[2:].partition("\t")
                if sig.startswith("harness:"):
                    c.harness_error("harness rejected item %s: %s" % (it, ln))
                c.violation(sig, "item %s :: %s" % (it, detail), {"item": it})
            elif ln.startswith("K "):
                ok = True
                _, kind, b, dg = ln.split(" ")
                if kind == "cast":
                    cast_outcomes.add(b)
                else:
                    kinds[kind] = kinds.get(kind, 0) + 1
                    digests.add(dg)
                    if kind in ("struct", "tuple") and int(b) > 0:
                        bytes_pos += 1
        if r.crash:
            c.violation("crash:%s:%s" % ("asan" if "AddressSanitizer" in r.stderr else r.crash.replace(":", ""), it[0]),
                        "item %s :: %s :: %s" % (it, r.crash, r.stderr[-700:]), {"item": it})
        elif ok:
            answered += 1
    if complete:
        c.vacuity(len(results) == len(items), "every item produced a result record")
        c.vacuity(answered + sum(1 for r in results if r.crash) == len(items), "every item was evaluated (%d of %d)" % (answered, len(items)))
        for k in ("builtin", "builtin-vector", "custom", "tuple", "struct", "union", "enum", "meta"):
            c.vacuity(kinds.get(k, 0) > 0, "kind %s was generated" % k)
        c.vacuity(bytes_pos >= 100, "structs / tuples with a non-zero byte size were generated (%d)" % bytes_pos)
        c.vacuity(cast_outcomes == {"0", "1"}, "both castable and non-castable pairs were generated")
    c.set_exploration(
        evaluations=len(results),
        distinct_nontrivial=len(digests),
        rule="bounded-exhaustive dtype term generation (all trees of the depth/width bound over the leaf and constructor alphabets), all ordered pairs of a 22-tree sub-alphabet for cast compatibility, all argument lists of length <= 2 over 12 trees x 4 flag combinations; every item serialised and read back through 3 routes (json object, dumped text parsed, fromJson(string))",
        samples=[items[0], items[nd // 2], items[nd - 1], items[nd + npairs // 2], items[-1]],
        exhaustive=bool(complete),
        dtype_trees=nd, cast_pairs=npairs, metadata_lists=nmeta, kinds=kinds,
        alphabet="leaves: byte,bool,char,short,int,long,float,double,float2,int4 (global objects), by-value copies of float/int/float2, custom (foo,12) (bar,0) ('my \"type\"',3), enum E{A[,B]} of 4 bytes, anonymous enum; constructors: tuple(2|3), struct(1..3 fields x,y,z; anonymous or named S), union(1..2 fields)",
        oracle="fromJson(toJson(t)): same kind, name(), field names in order (by index and by name), element dtypes recursively (builtins: the same global object), tuple size, enumerators, bytes(); toJson of the result equals toJson(t); text routes agree with the in-memory route; canBeCastedTo(t,u) unchanged when either/both sides are read back; metadata: kernel name, argument count, const, ptr, argument name, dtype",
    )
    c.assumptions += ["union dtypes are built with dtype_t::fromJson (no other public constructor exists)",
                      "cast compatibility is compared on two separately built dtype objects (custom leaves only cast to the very same object, before and after)",
                      "occa::dtype::memory / none / void are not in the alphabet"]
    c.finish()


from vlib.core import run_main
run_main(main)
