// C11: dtype and kernel-metadata JSON serialization round-trips.
//
// Batch driver (vlib.batch protocol).  Items:
//   D <term>                 one dtype tree: serialise, read back (3 routes), compare
//   P <termA> <termB>        cast compatibility of two separately built dtypes, before / after the round trip
//   M <flags>:<term> ...     kernel argument metadata list (flags: bit0 const, bit1 ptr)
// Terms (prefix notation):
//   b<d> builtin global d      r<d> by-value copy of builtin d (a reference dtype)     c<d> custom dtype d
//   t<n>X tuple(X,n)           s<n>X.. anonymous struct, fields x,y,z                 N<n>X.. struct named "S"
//   u<n>X.. union, fields x,y (only constructible from JSON: dtype_t::fromJson)       e<n> enum "E", 4 bytes, n enumerators
//   f<n> anonymous enum, 0 bytes
// Result lines:  F <signature>\t<detail>   |   K <kind> <bytes> <json digest>
#include <cstdio>
#include <cstdlib>
#include <cstring>
#include <deque>
#include <fstream>
#include <sstream>
#include <string>
#include <vector>

#include <occa/dtype.hpp>
#include <occa/dtype/utils.hpp>
#include <occa/types/json.hpp>
#include <occa/utils/exception.hpp>
#include <occa/internal/lang/kernelMetadata.hpp>

using occa::dtype_t;

static const dtype_t *BUILTINS[] = {
  &occa::dtype::byte, &occa::dtype::bool_, &occa::dtype::char_, &occa::dtype::short_, &occa::dtype::int_,
  &occa::dtype::long_, &occa::dtype::float_, &occa::dtype::double_, &occa::dtype::float2, &occa::dtype::int4
};
static const int NBUILTINS = 10;
struct Custom { const char *name; int bytes; };
static const Custom CUSTOMS[] = { {"foo", 12}, {"bar", 0}, {"my \"type\"", 3} };
static const int NCUSTOMS = 3;
// declaration order deliberately not alphabetical: field order must come from the declaration, not from a sorted container
static const char *FIELDS[] = {"y", "x", "z"};
static const char *ENUMERATORS[] = {"A", "B", "C"};

typedef std::deque<dtype_t> Pool;      // owns the built dtypes; deque keeps addresses stable
static const dtype_t* buildTerm(const char *&c, Pool &pool);

static bool buildFields(const char *&c, int n, std::vector<const dtype_t*> &kids, Pool &pool) {
  for (int i = 0; i < n; ++i) {
    const dtype_t *k = buildTerm(c, pool);
    if (!k) return false;
    kids.push_back(k);
  }
  return true;
}

// Returns the built dtype (the global itself for 'b'), or NULL for a malformed term.
static const dtype_t* buildTerm(const char *&c, Pool &pool) {
  const char k = *c;
  if (!k) return NULL;
  ++c;
  if (*c < '0' || *c > '9') return NULL;
  const int d = *c - '0';
  ++c;
  switch (k) {
  case 'b': return (d < NBUILTINS) ? BUILTINS[d] : NULL;                            // the global object itself
  case 'r': {                                                                      // dtype_t x = occa::dtype::float_;
    if (d >= NBUILTINS) return NULL;
    pool.emplace_back(*BUILTINS[d]);
    return &pool.back();
  }
  case 'c': {
    if (d >= NCUSTOMS) return NULL;
    pool.emplace_back(CUSTOMS[d].name, CUSTOMS[d].bytes);
    return &pool.back();
  }
  case 't': {
    if (d < 1) return NULL;
    const dtype_t *e = buildTerm(c, pool);
    if (!e) return NULL;
    pool.emplace_back(dtype_t::tuple(*e, d));
    return &pool.back();
  }
  case 's': case 'N': {
    std::vector<const dtype_t*> kids;
    if (d < 1 || d > 3 || !buildFields(c, d, kids, pool)) return NULL;
    pool.emplace_back(k == 'N' ? "S" : "");
    dtype_t &s = pool.back();
    for (int i = 0; i < d; ++i) s.addField(FIELDS[i], *kids[i]);
    return &s;
  }
  case 'u': {
    std::vector<const dtype_t*> kids;
    if (d < 1 || d > 2 || !buildFields(c, d, kids, pool)) return NULL;
    occa::json j;
    j["type"] = "union";
    occa::json &fields = j["fields"].asArray();
    for (int i = 0; i < d; ++i) {
      occa::json f;
      f["name"] = FIELDS[i];
      f["dtype"] = occa::dtype::toJson(*kids[i]);
      fields += f;
    }
    pool.emplace_back(dtype_t::fromJson(j));
    return &pool.back();
  }
  case 'e': case 'f': {
    if (d < 1 || d > 3) return NULL;
    pool.emplace_back(k == 'e' ? "E" : "", k == 'e' ? 4 : 0);
    dtype_t &e = pool.back();
    for (int i = 0; i < d; ++i) e.addEnumerator(ENUMERATORS[i]);
    return &e;
  }}
  return NULL;
}

static std::string kindOf(const dtype_t &t) {
  const dtype_t &s = t.self();
  if (s.enum_) return "enum";
  if (s.struct_) return "struct";
  if (s.union_) return "union";
  if (s.tuple_) return s.registered ? "builtin-vector" : "tuple";
  if (s.registered) return "builtin";
  return "custom";
}

typedef std::vector<std::pair<std::string, std::string> > Diffs;

// Structural comparison written from the property sentence: kind, names, field order, element types,
// byte size.  `a` is the original, `b` the value that was read back.
static void compare(const dtype_t &a, const dtype_t &b, const std::string &path, Diffs &out, const bool nameExpected = true) {
  const dtype_t &A = a.self();
  const dtype_t &B = b.self();
  const std::string ka = kindOf(a), kb = kindOf(b);
  const std::string where = path.size() ? path : "(top)";
  if (ka != kb) {
    out.push_back(std::make_pair("kind:" + ka, where + ": " + ka + " read back as " + kb));
    if (!(ka == "builtin-vector" && kb == "tuple")) return;
  }
  if (nameExpected && a.name() != b.name()) {
    out.push_back(std::make_pair("name-lost:" + ka, where + ": name() '" + a.name() + "' read back as '" + b.name() + "'"));
  }
  if (a.bytes() != b.bytes()) {
    out.push_back(std::make_pair("bytes:" + ka, where + ": bytes() " + std::to_string(a.bytes()) + " read back as " + std::to_string(b.bytes())));
  }
  if (ka == "builtin") {
    if (&A != &B) out.push_back(std::make_pair("element-type:builtin", where + ": builtin " + A.name_ + " read back as another object (" + B.name_ + ")"));
    return;
  }
  if (A.enum_) {
    if (A.enum_->enumeratorNames != B.enum_->enumeratorNames)
      out.push_back(std::make_pair("enumerators:enum", where + ": enumerator names / order differ"));
    if (a.enumEnumeratorCount() != b.enumEnumeratorCount())
      out.push_back(std::make_pair("enumerators:enum", where + ": enumerator count differs"));
    return;
  }
  if (A.tuple_) {
    if (!B.tuple_) return;
    if (A.tuple_->size != B.tuple_->size)
      out.push_back(std::make_pair("tuple-size:" + ka, where + ": tuple size " + std::to_string(A.tuple_->size) + " read back as " + std::to_string(B.tuple_->size)));
    compare(A.tuple_->dtype, B.tuple_->dtype, path + "[]", out);
    return;
  }
  if (A.struct_ || A.union_) {
    const occa::strVector &na = A.struct_ ? A.struct_->fieldNames : A.union_->fieldNames;
    const occa::strVector &nb = B.struct_ ? B.struct_->fieldNames : B.union_->fieldNames;
    const int ca = A.struct_ ? a.structFieldCount() : a.unionFieldCount();
    const int cb = B.struct_ ? b.structFieldCount() : b.unionFieldCount();
    if (ca != cb || na.size() != nb.size()) {
      out.push_back(std::make_pair("field-count:" + ka, where + ": " + std::to_string(ca) + " fields read back as " + std::to_string(cb)));
      return;
    }
    if (na != nb) {
      std::string l, r;
      for (auto &s : na) l += s + ",";
      for (auto &s : nb) r += s + ",";
      out.push_back(std::make_pair("field-order:" + ka, where + ": field names " + l + " read back as " + r));
      return;
    }
    for (int i = 0; i < ca; ++i) {
      compare(a[i], b[i], path + "." + na[i], out);              // by index
      compare(a[na[i]], b[na[i]], path + "." + na[i], out);      // by name
    }
    return;
  }
  // custom: name and bytes already compared
}

static dtype_t roundTrip(const dtype_t &t, int route, const std::string &name = "") {
  const occa::json j = occa::dtype::toJson(t, name);
  if (route == 0) return occa::dtype::fromJson(j);
  if (route == 1) return occa::dtype::fromJson(occa::json::parse(j.dump(2)));
  return occa::dtype::fromJson(j.dump(0));
}

static void emit(const Diffs &d, const std::string &prefix = "") {
  for (auto &p : d) {
    std::string det = p.second;
    for (auto &ch : det) if (ch == '\n' || ch == '\t' || ch == '\r') ch = ' ';
    printf("F %s%s\t%s\n", prefix.c_str(), p.first.c_str(), det.c_str());
  }
}

static uint32_t fnv(const std::string &s) {
  uint32_t h = 2166136261u;
  for (unsigned char ch : s) { h ^= ch; h *= 16777619u; }
  return h;
}

static bool hasCustomLeaf(const dtype_t &t) {
  const dtype_t &s = t.self();
  if (s.enum_) return false;
  if (s.tuple_) return hasCustomLeaf(s.tuple_->dtype);
  if (s.struct_) { for (auto &kv : s.struct_->fieldTypes) if (hasCustomLeaf(kv.second)) return true; return false; }
  if (s.union_) { for (auto &kv : s.union_->fieldTypes) if (hasCustomLeaf(kv.second)) return true; return false; }
  return !s.registered;
}

static void itemDtype(const std::string &term) {
  const char *c = term.c_str();
  Pool pool;
  const dtype_t *tp = buildTerm(c, pool);
  if (!tp || *c) { printf("F harness:bad-item\t%s\n", term.c_str()); return; }
  const dtype_t &t = *tp;
  const occa::json j = occa::dtype::toJson(t);
  printf("K %s %d %08x\n", kindOf(t).c_str(), t.bytes(), fnv(j.dump(0)));
  const dtype_t r0 = roundTrip(t, 0);
  {
    Diffs d;
    compare(t, r0, "", d);
    emit(d);
  }
  // serialising the read-back value gives the same JSON again
  {
    const occa::json j2 = occa::dtype::toJson(r0);
    if (!(j2 == j) || j2.dump(0) != j.dump(0))
      printf("F rejson:%s\ttoJson(fromJson(toJson(t))) = %s but toJson(t) = %s\n", kindOf(t).c_str(), j2.dump(0).c_str(), j.dump(0).c_str());
  }
  // routes through JSON text must give what the in-memory route gives
  for (int route = 1; route <= 2; ++route) {
    const dtype_t r = roundTrip(t, route);
    Diffs d;
    compare(r0, r, "", d);
    emit(d, route == 1 ? "text-route:" : "string-route:");
  }
  // the serialiser's name argument carries the dtype's own name
  {
    const dtype_t rn = roundTrip(t, 0, "Nm");
    const std::string k = kindOf(t);
    if (k != "builtin" && k != "builtin-vector" && k != "custom" && rn.name() != "Nm")
      printf("F name-argument:%s\tfromJson(toJson(t, \"Nm\")).name() = '%s'\n", k.c_str(), rn.name().c_str());
    Diffs d;
    compare(r0, rn, "", d, false);          // apart from the name, the same value as without the argument
    emit(d, "with-name-argument:");
  }
  // OCCA's own structural equality (undefined for custom leaves: they only match themselves)
  if (!hasCustomLeaf(t) && !t.matches(r0))
    printf("F matches:%s\tt.matches(fromJson(toJson(t))) is false\n", kindOf(t).c_str());
}

static void itemPair(const std::string &ta, const std::string &tb) {
  const char *c = ta.c_str();
  Pool poolA, poolB;
  const dtype_t *ap = buildTerm(c, poolA);
  if (!ap || *c) { printf("F harness:bad-item\t%s\n", ta.c_str()); return; }
  c = tb.c_str();
  const dtype_t *bp = buildTerm(c, poolB);
  if (!bp || *c) { printf("F harness:bad-item\t%s\n", tb.c_str()); return; }
  const dtype_t &a = *ap, &b = *bp;
  const bool before = a.canBeCastedTo(b);
  const dtype_t ra = roundTrip(a, 0), rb = roundTrip(b, 0);
  const bool v1 = ra.canBeCastedTo(b), v2 = a.canBeCastedTo(rb), v3 = ra.canBeCastedTo(rb);
  printf("K cast %d 0\n", (int) before);
  const std::string sigTail = kindOf(a) + "-to-" + kindOf(b);
  if (v1 != before) printf("F cast-changed:from-side:%s\tcanBeCastedTo %d before, %d with the source read back from JSON\n", sigTail.c_str(), before, v1);
  if (v2 != before) printf("F cast-changed:to-side:%s\tcanBeCastedTo %d before, %d with the target read back from JSON\n", sigTail.c_str(), before, v2);
  if (v3 != before) printf("F cast-changed:both-sides:%s\tcanBeCastedTo %d before, %d with both read back from JSON\n", sigTail.c_str(), before, v3);
  // through JSON text as well
  const dtype_t ta2 = roundTrip(a, 1), tb2 = roundTrip(b, 2);
  if (ta2.canBeCastedTo(tb2) != before) printf("F cast-changed:text-route:%s\tcanBeCastedTo %d before, %d after the text round trip\n", sigTail.c_str(), before, !before);
}

static void itemMeta(std::istringstream &is) {
  occa::lang::kernelMetadata_t meta;
  meta.name = "kern";
  std::string spec;
  int n = 0;
  Pool pool;
  while (is >> spec) {
    const size_t colon = spec.find(':');
    if (colon == std::string::npos) { printf("F harness:bad-item\t%s\n", spec.c_str()); return; }
    const int flags = atoi(spec.substr(0, colon).c_str());
    const std::string term = spec.substr(colon + 1);
    const char *c = term.c_str();
    const dtype_t *tp = buildTerm(c, pool);
    if (!tp || *c) { printf("F harness:bad-item\t%s\n", term.c_str()); return; }
    const dtype_t &t = *tp;
    meta += occa::lang::argMetadata_t(flags & 1, flags & 2, t, "arg" + std::to_string(n));
    ++n;
  }
  if (n == 0) meta.initialized = true;
  const occa::json j = meta.toJson();
  printf("K meta %d %08x\n", n, fnv(j.dump(0)));
  occa::lang::kernelMetadata_t back0;
  for (int route = 0; route < 2; ++route) {
    const std::string pre = route ? "text-route:" : "";
    occa::lang::kernelMetadata_t back = occa::lang::kernelMetadata_t::fromJson(route ? occa::json::parse(j.dump(2)) : j);
    if (back.name != meta.name) printf("F %smetadata:kernel-name\t'%s' read back as '%s'\n", pre.c_str(), meta.name.c_str(), back.name.c_str());
    if (!back.isInitialized()) printf("F %smetadata:initialized\tread-back metadata is not initialized\n", pre.c_str());
    if (back.arguments.size() != meta.arguments.size()) {
      printf("F %smetadata:argument-count\t%zu arguments read back as %zu\n", pre.c_str(), meta.arguments.size(), back.arguments.size());
      continue;
    }
    for (int i = 0; i < n; ++i) {
      const occa::lang::argMetadata_t &x = meta.arguments[i], &y = back.arguments[i];
      if (x.isConst != y.isConst) printf("F %smetadata:const\targument %d const %d read back as %d\n", pre.c_str(), i, x.isConst, y.isConst);
      if (x.isPtr != y.isPtr) printf("F %smetadata:ptr\targument %d ptr %d read back as %d\n", pre.c_str(), i, x.isPtr, y.isPtr);
      if (x.name != y.name) printf("F %smetadata:argument-name\targument %d '%s' read back as '%s'\n", pre.c_str(), i, x.name.c_str(), y.name.c_str());
      Diffs d;
      if (route == 0) {
        compare(x.dtype, y.dtype, "arg" + std::to_string(i), d);          // same clauses as a D item
        emit(d);
      } else if ((int) back0.arguments.size() == n) {
        compare(back0.arguments[i].dtype, y.dtype, "arg" + std::to_string(i), d);   // text route = in-memory route
        emit(d, pre + "metadata:");
      }
    }
    const occa::json j2 = back.toJson();
    if (!(j2 == j)) printf("F %smetadata:rejson\ttoJson(fromJson(toJson(m))) differs: %s vs %s\n", pre.c_str(), j2.dump(0).c_str(), j.dump(0).c_str());
    if (route == 0) back0 = back;
  }
  // single-argument API
  for (int i = 0; i < n; ++i) {
    const occa::lang::argMetadata_t &x = meta.arguments[i];
    occa::lang::argMetadata_t y = occa::lang::argMetadata_t::fromJson(x.toJson());
    if (x.isConst != y.isConst || x.isPtr != y.isPtr || x.name != y.name)
      printf("F metadata:argument-api\targMetadata_t::fromJson(toJson()) changed const/ptr/name of argument %d\n", i);
  }
}

static void runItem(const std::string &line) {
  std::istringstream is(line);
  std::string kind, a, b;
  is >> kind;
  try {
    if (kind == "D") { is >> a; itemDtype(a); }
    else if (kind == "P") { is >> a >> b; itemPair(a, b); }
    else if (kind == "M") { itemMeta(is); }
    else printf("F harness:bad-item\t%s\n", line.c_str());
  } catch (occa::exception &e) {
    std::string m = e.message;
    for (auto &ch : m) if (ch == '\n' || ch == '\t') ch = ' ';
    printf("F exception:%s\tocca::exception: %s\n", kind.c_str(), m.c_str());
  }
}

int main(int argc, char **argv) {
  if (argc < 2) return 2;
  setvbuf(stdout, NULL, _IOLBF, 0);
  if (std::string(argv[1]) == "one") {
    std::string line;
    for (int i = 2; i < argc; ++i) line += std::string(i > 2 ? " " : "") + argv[i];
    runItem(line);
    return 0;
  }
  std::ifstream in(argv[1]);
  std::string line;
  long idx = 0;
  while (std::getline(in, line)) {
    printf("BEGIN %ld\n", idx);
    runItem(line);
    printf("END %ld\n", idx);
    ++idx;
  }
  return 0;
}
