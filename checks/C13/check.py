#!/usr/bin/env python3
"""C13: OCCA's preprocessor agrees with the C preprocessor on the supported subset (E2, differential vs gcc -E).

Three bounded-exhaustive program families (gen.py): conditional skeletons, #if expressions, macro expansion.
Reference: `gcc -E -P -x c -std=c11 -pedantic-errors` (many programs per invocation, separated by marker lines;
programs on which gcc reports an error are dropped and counted).  Implementation: the real
tokenizer_t -> preprocessor_t stream (ASan+UBSan build), one fresh tokenizer/preprocessor per program.
Oracle: the kept lines and the pp-token sequence of every line are equal (both outputs re-tokenised by one neutral
tokenizer); no crash / sanitizer report / exception / hang; a program that contains an operand C never evaluates
(guarded 1/0, #elif after a taken group) must not make OCCA report an error.
Only *minimal* failing programs are reported (a failing program one of whose one-step reductions also fails is
not reported), so one defect gives few signatures.
"""
import json, os, re, subprocess, sys
from concurrent.futures import ThreadPoolExecutor
sys.path.insert(0, os.path.dirname(os.path.dirname(os.path.dirname(os.path.abspath(__file__)))))
sys.path.insert(0, os.path.dirname(os.path.abspath(__file__)))
from vlib.core import Check, san_env, load_replay, NCPU
from vlib import batch
import gen
sys.path.insert(0, os.path.join(os.path.dirname(os.path.dirname(os.path.dirname(os.path.abspath(__file__)))), "engines"))
import forkbatch as fbp

HERE = os.path.dirname(os.path.abspath(__file__))
GCC = ["gcc", "-E", "-P", "-x", "c", "-std=c11", "-pedantic-errors"]


class Sides:
    """Evaluates program texts on both sides, with a cache keyed by text."""

    def __init__(self, c, exe, env):
        self.c, self.exe, self.env = c, exe, env
        self.cache = {}      # text -> verdict dict
        self.nrun = 0
        self.gcc_dropped = {}

    # -- reference ------------------------------------------------------------------------------------------
    def _gcc_file(self, idx, texts):
        """texts: list of program texts -> list of (lines | None, reason)"""
        path = os.path.join(self.c.scratch, "gcc-%d.c" % idx)
        ranges = []
        with open(path, "w") as f:
            ln = 1
            for i, t in enumerate(texts):
                head = "".join("#undef %s\n" % n for n in gen.NAMES) + "VPBEGIN_%d\n" % i
                f.write(head)
                ln += head.count("\n")
                start = ln
                f.write(t)
                if not t.endswith("\n"):
                    f.write("\n")
                ln += t.count("\n") + (0 if t.endswith("\n") else 1)
                f.write("VPEND_%d\n" % i)
                ln += 1
                ranges.append((start, ln - 1))
        p = subprocess.run(GCC + [path], stdout=subprocess.PIPE, stderr=subprocess.PIPE, env={"PATH": os.environ.get("PATH", "/usr/bin:/bin"), "LC_ALL": "C"})
        out = p.stdout.decode("utf-8", "replace").split("\n")
        errs = {}
        for m in re.finditer(r"^[^\n:]*:(\d+):(?:\d+:)? (?:fatal )?error: ([^\n]*)", p.stderr.decode("utf-8", "replace"), re.M):
            line = int(m.group(1))
            for i, (a, b) in enumerate(ranges):
                if a <= line <= b:
                    errs.setdefault(i, m.group(2))
                    break
            else:
                raise RuntimeError("gcc error outside any program: " + m.group(0))
        res = [None] * len(texts)
        cur, acc = None, []
        for ln_ in out:
            s = ln_.strip()
            m = re.match(r"VPBEGIN_(\d+)$", s)
            if m:
                cur, acc = int(m.group(1)), []
                continue
            m = re.match(r"VPEND_(\d+)$", s)
            if m:
                if cur != int(m.group(1)):
                    raise RuntimeError("gcc output markers out of order in %s" % path)
                res[cur] = acc
                cur = None
                continue
            if cur is not None:
                acc.append(ln_)
        final = []
        for i in range(len(texts)):
            if i in errs:
                final.append((None, errs[i]))
            elif res[i] is None:
                raise RuntimeError("gcc output lacks program %d of %s (stderr: %s)" % (i, path, p.stderr.decode()[:500]))
            else:
                final.append((res[i], None))
        if p.returncode != 0 and not errs:
            raise RuntimeError("gcc failed without a parsed error: " + p.stderr.decode()[:500])
        os.unlink(path)
        return final

    def gcc(self, texts, per_file=400):
        chunks = [texts[i:i + per_file] for i in range(0, len(texts), per_file)]
        base = self.nrun * 100000
        with ThreadPoolExecutor(max_workers=NCPU) as ex:
            parts = list(ex.map(lambda a: self._gcc_file(base + a[0], a[1]), enumerate(chunks)))
        return [x for part in parts for x in part]

    # -- implementation -------------------------------------------------------------------------------------
    def occa(self, texts, chunk=1500):
        wd = os.path.join(self.c.scratch, "occa-run%d" % self.nrun)
        items = [t.encode().hex() for t in texts]
        # the driver process needs seconds to start on a busy machine (ASan): never less than 180 s per process
        pit = max(5.0, 180.0 / max(1, min(chunk, len(items))))
        res, complete = batch.run_items([self.exe], items, wd, self.env, chunk=chunk, per_item_timeout=pit)
        if not complete or len(res) != len(items):
            self.c.harness_error("OCCA driver run incomplete")
        out = []
        for r in res:
            crash, err = fbp.crash_of(r)
            d = {"lines": [], "err": None, "exc": None, "crash": crash, "stderr": fbp.symbolize(err) if crash else ""}
            for ln in r.lines:
                f = ln.split(" ")
                if f[0] == "L":
                    d["lines"].append(bytes.fromhex(f[1]).decode("utf-8", "replace") if f[1] != "-" else "")
                elif f[0] == "ERR":
                    d["err"] = (int(f[1]), int(f[2]), int(f[3]))
                elif f[0] == "EXC":
                    d["exc"] = f[1] + ": " + (bytes.fromhex(f[2]).decode("utf-8", "replace") if f[2] != "-" else "")
            out.append(d)
        return out

    # -- both -----------------------------------------------------------------------------------------------
    def evaluate(self, progs):
        """Fill the cache for every program text not yet evaluated."""
        todo, seen = [], set()
        for p in progs:
            t = p.text()
            if t not in self.cache and t not in seen:
                seen.add(t)
                todo.append(p)
        if not todo:
            return
        self.nrun += 1
        texts = [p.text() for p in todo]
        try:
            g = self.gcc(texts)
        except RuntimeError as e:
            self.c.harness_error("reference side: %s" % e)
        keep = [i for i in range(len(todo)) if g[i][0] is not None]
        o = self.occa([texts[i] for i in keep])
        # a timeout is only a hang if the program also times out when it is run again in a small batch
        again = [j for j, d in enumerate(o) if d["crash"] == "timeout"]
        if again:
            self.nrun += 1
            o2 = self.occa([texts[keep[j]] for j in again], chunk=4)
            for j, d in zip(again, o2):
                o[j] = d
        for i in range(len(todo)):
            if g[i][0] is None:
                reason = re.sub(r"[\"'`][^\"'`]*[\"'`]", "X", g[i][1])
                self.gcc_dropped[reason] = self.gcc_dropped.get(reason, 0) + 1
                self.cache[texts[i]] = {"dropped": True, "fail": None}
        for i, d in zip(keep, o):
            self.cache[texts[i]] = self.judge(todo[i], g[i][0], d)

    def judge(self, prog, glines, d):
        v = {"dropped": False, "fail": None, "occa_lines": d["lines"], "gcc_lines": [x for x in glines if x.strip()], "err": d["err"], "exc": d["exc"],
             "equal_output_with_error": False}
        if d["crash"]:
            st = d["stderr"] or ""
            sig = fbp.crash_signature(d["crash"], st)
            v["fail"] = (sig, "%s\n%s" % (d["crash"], st[:1200]))
            return v
        if d["exc"]:
            v["fail"] = ("exception", d["exc"][:300])
            return v
        ub = re.findall(r"[^\n]*runtime error:[^\n]*", d["stderr"] or "")
        a, b = gen.norm_lines(d["lines"]), gen.norm_lines(glines)
        if a != b:
            v["fail"] = ("lines", "OCCA keeps %s ; gcc -E keeps %s%s" % (
                [" ".join(x) for x in a], [" ".join(x) for x in b], (" ; OCCA errors=%s" % (d["err"],)) if d["err"] and (d["err"][0] or d["err"][1]) else ""))
            return v
        if d["err"] and (d["err"][0] or d["err"][1]):
            if prog.guard:
                v["fail"] = ("error-on-unevaluated-operand", "OCCA reports %d preprocessor / %d tokenizer error(s) on a program gcc accepts; output lines are equal" % d["err"][:2])
            else:
                v["equal_output_with_error"] = True
        return v


def classify(c, S, progs, family):
    """progs = (number generated, list of evaluated programs).  Report the minimal failing programs of a family.
    Returns (statistics, programs evaluated)."""
    total, progs = progs
    failing = [p for p in progs if S.cache[p.text()]["fail"]]
    reported, seen_texts = {}, set()
    frontier = failing
    rounds = 0
    nonminimal = 0
    while frontier:
        rounds += 1
        if rounds > 12:
            c.harness_error("reduction did not converge")
        red = {}
        for p in frontier:
            if p.text() in seen_texts:
                continue
            red[p.text()] = (p, p.reductions())
        S.evaluate([r for (p, rs) in red.values() for r in rs])
        nxt = []
        for t, (p, rs) in red.items():
            seen_texts.add(t)
            bad = [r for r in rs if S.cache[r.text()]["fail"]]
            if bad:
                nonminimal += 1
                for r in bad:
                    if r.text() not in seen_texts:
                        nxt.append(r)
            else:
                reported[t] = p
        frontier = nxt
    for t, p in reported.items():
        v = S.cache[t]
        clause, detail = v["fail"]
        sig = "%s:%s:%s" % (p.cls(), clause, p.sig())
        c.violation(sig, "program:\n%s\n%s" % (t, detail), {"family": family, "text": t, "guard": p.guard})
    return {"programs_generated": total, "programs": len(progs), "programs_not_run_budget": total - len(progs), "failing": len(failing),
            "minimal_failing": len(reported), "non_minimal_failing_examined": nonminimal}, progs


def replay(c, S, r):
    rp = r["replay"]

    class P(gen.Program):
        def __init__(self, t, g):
            self.t, self.g = t, g

        def text(self):
            return self.t

        @property
        def guard(self):
            return self.g
    p = P(rp["text"], rp.get("guard", False))
    S.evaluate([p])
    v = S.cache[p.text()]
    print("program:\n" + p.text())
    if v.get("dropped"):
        print("gcc -E rejects the program: dropped")
        sys.exit(0)
    print("gcc -E -P lines :", v["gcc_lines"])
    print("OCCA lines      :", v["occa_lines"], "errors(pp,tokenizer,warnings)=", v["err"], "exception=", v["exc"])
    if v["fail"]:
        print("STILL FAILS [%s]: %s" % v["fail"])
        sys.exit(1)
    print("replay: no violation observed")
    sys.exit(0)


def main():
    c = Check("C13", "exploration")
    c.build("asan")
    exe = c.compile(os.path.join(HERE, "driver.cpp"), "driver")
    env = fbp.asan_env(san_env(c.scratch))
    S = Sides(c, exe, env)
    if c.args.replay:
        replay(c, S, load_replay(c.args.replay))
    stats = {}
    import time
    deadline = c.t0 + c.budget(1800, 3600)   # safety net; an idle 16-core machine needs ~1.5 min (quick) / ~10 min (thorough)
    fams = [("skeleton", gen.skeletons), ("ifexpr", gen.ifexprs), ("macro", gen.macros)]
    only = os.environ.get("C13_DEBUG_FAMILY")      # development aid only
    if only:
        fams = [f for f in fams if f[0] == only]
    allp = {}
    undefined_in_c = 0
    generated = {}
    for name, fn in fams:
        progs = fn(c.tier)
        if name == "ifexpr":
            n0 = len(progs)
            progs = [p for p in progs if gen.ifexpr_reference(p) is not None]
            undefined_in_c = n0 - len(progs)
        generated[name] = progs
    # evaluate in stages, round robin over the families (generation order = simplest first); the wall-clock budget is
    # checked between stages, what was not reached is reported (exhaustive=false), never judged
    STAGE = 8000
    pos = {name: 0 for name in generated}
    while any(pos[n] < len(generated[n]) for n in generated) and time.time() <= deadline:
        for name in generated:
            if pos[name] < len(generated[name]) and time.time() <= deadline:
                S.evaluate(generated[name][pos[name]:pos[name] + STAGE])
                pos[name] = min(len(generated[name]), pos[name] + STAGE)
    for name in generated:
        stats[name], progs = classify(c, S, (len(generated[name]), generated[name][:pos[name]]), name)
        allp[name] = progs
        if name == "ifexpr":
            # cross-check of the filter: gcc and the reference evaluator must agree on every kept program
            for p in progs:
                v = S.cache[p.text()]
                if not v["dropped"] and [x.strip() for x in v["gcc_lines"]] != [gen.ifexpr_reference(p)]:
                    c.harness_error("reference evaluator and gcc disagree on %r: gcc keeps %s, evaluator says %s" % (
                        p.text(), v["gcc_lines"], gen.ifexpr_reference(p)))
    # vacuity guards and outcome statistics
    outcomes = set()
    kept = dropped = guard_ok = eq_err = 0
    both_branches = set()
    elif_after_taken = 0
    expanded = 0
    for name, progs in allp.items():
        for p in progs:
            v = S.cache[p.text()]
            if v["dropped"]:
                dropped += 1
                continue
            kept += 1
            outcomes.add(tuple(gen.norm_lines(v["gcc_lines"])))
            if p.guard and not v["fail"]:
                guard_ok += 1
            if v.get("equal_output_with_error"):
                eq_err += 1
            if name == "ifexpr":
                both_branches.update(x.strip() for x in v["gcc_lines"])
            if name == "skeleton" and re.search(r"#if 1\n(?:(?!#endif).)*#elif \(1/0\)", p.text(), re.S):
                elif_after_taken += 1
            if name == "macro" and not v["fail"] and gen.norm_lines(v["gcc_lines"]) != gen.norm_lines([p.line] * len(v["gcc_lines"])):
                expanded += 1
    if only:
        for v in c.violations:
            print(v["sig"], "::", v["detail"].replace("\n", " | ")[:400])
        print(stats, kept, dropped)
        sys.exit(3)
    c.vacuity(kept >= 1000, "programs accepted by gcc: %d" % kept)
    c.vacuity(not allp.get("ifexpr") or {"t", "f"} <= both_branches, "#if expressions: both the true and the false branch are kept by the reference")
    c.vacuity(not allp.get("skeleton") or elif_after_taken > 0, "skeletons with '#elif (1/0)' after a taken group accepted by gcc: %d" % elif_after_taken)
    c.vacuity(not allp.get("macro") or expanded >= 100, "macro programs whose reference output differs from the input line (a macro was expanded): %d" % expanded)
    c.vacuity(len(outcomes) >= 50, "distinct reference outputs: %d" % len(outcomes))
    c.set_exploration(
        evaluations=kept,
        distinct_nontrivial=len(outcomes),
        rule="bounded-exhaustive generation of three program families (conditional skeletons <= %d directive lines, depth <= 2; #if expressions "
             "of depth <= 2; macro programs with <= %d definitions + one invocation line, optional #undef/redefinition), every program run on both sides" % (
                 5 if c.tier == "quick" else 6, 2 if c.tier == "quick" else 3),
        samples=[pl[i].text() for pl in allp.values() if pl for i in (0, len(pl) // 2, len(pl) - 1)],
        exhaustive=all(st["programs_not_run_budget"] == 0 for st in stats.values()),
        budget_hit=any(st["programs_not_run_budget"] > 0 for st in stats.values()),
        families=stats,
        programs_generated=sum(len(p) for p in allp.values()),
        programs_dropped_because_gcc_errors=dropped,
        ifexpr_programs_filtered_as_undefined_in_c=undefined_in_c,
        gcc_error_reasons=dict(sorted(S.gcc_dropped.items(), key=lambda kv: -kv[1])[:12]),
        programs_with_unevaluated_operand_passing=guard_ok,
        programs_with_equal_output_but_occa_error=eq_err,
        programs_evaluated_including_reductions=len(S.cache),
        reference=" ".join(GCC),
        oracle="kept lines and pp-token sequence per line equal to gcc -E -P; no crash/sanitizer report/exception/timeout; no OCCA error on programs "
               "whose only problematic operand is one that C never evaluates",
    )
    c.assumptions += [
        "programs on which gcc -E -pedantic-errors reports an error (division by zero in an evaluated operand, signed overflow, too-large literals, "
        "wrong argument counts, missing variadic arguments) are outside the property and dropped",
        "# and ## operators, empty macro arguments, multi-line invocations, #include and special macros are outside the generated grammar",
        "an OCCA error count > 0 with equal output is only a violation for programs that contain an unevaluated operand (counted otherwise)",
    ]
    c.finish()


from vlib.core import run_main
run_main(main)
