"""C13 program generators (deterministic, simplest first) and the neutral pp-token tokenizer.

A Program has: text (bytes-free str), family, guard (True if it contains an operand that C never evaluates),
reductions() -> list of Programs one step simpler, sig() -> compact stable rendering used as violation signature.
"""
import itertools, re

NAMES = ["A", "B", "F", "G", "V"]

# ---------------------------------------------------------------------------------------------------------
# neutral pp-token tokenizer (both sides' output lines go through it)
_PUNCT = ["%:%:", "...", "<<=", ">>=", "->*", "<:", ":>", "<%", "%>", "%:", "::", ".*", "->", "++", "--", "<<", ">>", "<=", ">=", "==", "!=",
          "&&", "||", "*=", "/=", "%=", "+=", "-=", "&=", "^=", "|=", "##"]
_TOKEN_RE = re.compile(
    r"""\s*(?:
      (?P<id>[A-Za-z_][A-Za-z_0-9]*)
    | (?P<num>\.?[0-9](?:[eEpP][+-]|[A-Za-z_0-9.])*)
    | (?P<str>(?:u8|u|U|L)?"(?:\\.|[^"\\])*")
    | (?P<chr>(?:u8|u|U|L)?'(?:\\.|[^'\\])*')
    | (?P<punct>%s)
    | (?P<other>\S)
    )""" % "|".join(re.escape(p) for p in _PUNCT), re.X)


def pp_tokens(line):
    out, i = [], 0
    line = line.strip()
    while i < len(line):
        m = _TOKEN_RE.match(line, i)
        if not m or m.end() == i:
            out.append(line[i])
            i += 1
            continue
        out.append(m.group(m.lastgroup))
        i = m.end()
    return tuple(out)


def norm_lines(lines):
    r = []
    for ln in lines:
        t = pp_tokens(ln)
        if t:
            r.append(t)
    return r


# ---------------------------------------------------------------------------------------------------------
class Program:
    family = "?"

    def text(self):
        raise NotImplementedError

    def reductions(self):
        return []

    def sig(self):
        raise NotImplementedError

    def cls(self):
        """coarse defect class, first component of the violation signature (known findings match by prefix)"""
        return self.family

    @property
    def guard(self):
        return "(1/0)" in self.text()


# ---------------------------------------------------------------------------------------------------------
# family (a): conditional skeletons
IFC_FULL = ["0", "1", "defined(A)", "!defined(A)", "defined A", "A", "0 && (1/0)", "1 || (1/0)", "1 ? 2 : (1/0)", "0 ? (1/0) : 2"]
ELC_FULL = IFC_FULL + ["(1/0)"]
IFC_MID = ["0", "1", "defined(A)", "A", "0 && (1/0)"]
ELC_MID = ["0", "1", "defined(A)", "(1/0)", "1 || (1/0)"]
IFC_MIN = ["0", "1"]
ELC_MIN = ["0", "1", "(1/0)"]
PROLOGUES = [(), ("#define A 1",), ("#define A 0",), ("#define A 1", "#undef A")]
ACTIONS = ["#define A 1", "#undef A"]


class Block:
    """opener: ('if', cond) | ('ifdef',) | ('ifndef',); elifs: list of cond; has_else; bodies: list (one per group)
    of lists of nested Blocks; actions: dict group index -> action line."""

    def __init__(self, opener, elifs, has_else, bodies, actions=None):
        self.opener, self.elifs, self.has_else, self.bodies = opener, list(elifs), has_else, [list(b) for b in bodies]
        self.actions = dict(actions or {})

    def ngroups(self):
        return 1 + len(self.elifs) + (1 if self.has_else else 0)

    def copy(self):
        return Block(self.opener, self.elifs, self.has_else, [[b.copy() for b in body] for body in self.bodies], self.actions)

    def ndirectives(self):
        return 2 + len(self.elifs) + (1 if self.has_else else 0) + sum(b.ndirectives() for body in self.bodies for b in body)

    def conds(self):
        return ([self.opener[1]] if self.opener[0] == "if" else []) + self.elifs


def _open_text(op):
    if op[0] == "if":
        return "#if " + op[1]
    return "#" + op[0] + " A"


class Skeleton(Program):
    family = "skeleton"

    def __init__(self, prologue, blocks):
        self.prologue, self.blocks = tuple(prologue), blocks
        self._text = None

    def text(self):
        if self._text is None:
            ctr = [0]
            lines = list(self.prologue)
            lines.append("pre")

            def emit(b):
                lines.append(_open_text(b.opener))
                g = 0

                def body(gi):
                    if gi in b.actions:
                        lines.append(b.actions[gi])
                    lines.append("m%d" % ctr[0])
                    ctr[0] += 1
                    for nb in b.bodies[gi]:
                        emit(nb)
                        lines.append("m%d" % ctr[0])
                        ctr[0] += 1
                body(0)
                for i, c in enumerate(b.elifs):
                    lines.append("#elif " + c)
                    body(1 + i)
                if b.has_else:
                    lines.append("#else")
                    body(1 + len(b.elifs))
                lines.append("#endif")
            for i, b in enumerate(self.blocks):
                emit(b)
                lines.append("post%d" % i)
            self._text = "\n".join(lines) + "\n"
        return self._text

    def sig(self):
        def r(b):
            s = {"if": "if[%s]" % (b.opener[1] if b.opener[0] == "if" else ""), "ifdef": "ifdef", "ifndef": "ifndef"}[b.opener[0]]

            def body(gi):
                t = ""
                if gi in b.actions:
                    t += "<%s>" % b.actions[gi].replace("#", "").replace(" ", "_")
                if b.bodies[gi]:
                    t += "{" + ";".join(r(nb) for nb in b.bodies[gi]) + "}"
                return t
            s += body(0)
            for i, c in enumerate(b.elifs):
                s += "elif[%s]" % c + body(1 + i)
            if b.has_else:
                s += "else" + body(1 + len(b.elifs))
            return s
        p = ""
        if self.prologue:
            p = ",".join(x.replace("#", "").replace(" ", "_") for x in self.prologue) + ";"
        return (p + ";".join(r(b) for b in self.blocks)).replace(" ", "")

    def _clone(self):
        return Skeleton(self.prologue, [b.copy() for b in self.blocks])

    def _all_blocks(self, blocks=None, acc=None):
        acc = [] if acc is None else acc
        for b in (self.blocks if blocks is None else blocks):
            acc.append(b)
            for body in b.bodies:
                self._all_blocks(body, acc)
        return acc

    def reductions(self):
        out = []
        # drop the prologue / one line of it
        if self.prologue:
            out.append(Skeleton((), [b.copy() for b in self.blocks]))
            if len(self.prologue) > 1:
                out.append(Skeleton(self.prologue[:1], [b.copy() for b in self.blocks]))
        n = len(self._all_blocks())
        for bi in range(n):
            # remove the whole block bi
            p = self._clone()

            def remove(blocks, counter):
                for i, b in enumerate(blocks):
                    if counter[0] == bi:
                        del blocks[i]
                        counter[0] = -10**6
                        return True
                    counter[0] += 1
                    for body in b.bodies:
                        if remove(body, counter):
                            return True
                return False
            remove(p.blocks, [0])
            if p._all_blocks() or True:
                out.append(p)
            b0 = self._all_blocks()[bi]
            # replace the block by one of its nested blocks
            for body in b0.bodies:
                for nb in body:
                    p = self._clone()

                    def hoist(blocks, counter, nb_copy):
                        for i, b in enumerate(blocks):
                            if counter[0] == bi:
                                blocks[i] = nb_copy
                                counter[0] = -10**6
                                return True
                            counter[0] += 1
                            for bd in b.bodies:
                                if hoist(bd, counter, nb_copy):
                                    return True
                        return False
                    hoist(p.blocks, [0], nb.copy())
                    out.append(p)
            # remove an elif group / the else group
            for ei in range(len(b0.elifs)):
                p = self._clone()
                b = p._all_blocks()[bi]
                del b.elifs[ei]
                del b.bodies[1 + ei]
                b.actions = {}
                out.append(p)
            if b0.has_else:
                p = self._clone()
                b = p._all_blocks()[bi]
                b.has_else = False
                del b.bodies[-1]
                b.actions = {}
                out.append(p)
            # remove actions
            for gi in list(b0.actions):
                p = self._clone()
                b = p._all_blocks()[bi]
                del b.actions[gi]
                out.append(p)
            # simplify conditions to literals
            if b0.opener[0] != "if" or b0.opener[1] not in ("0", "1"):
                for lit in ("0", "1"):
                    p = self._clone()
                    p._all_blocks()[bi].opener = ("if", lit)
                    out.append(p)
            for ei, cnd in enumerate(b0.elifs):
                if cnd not in ("0", "1"):
                    for lit in ("0", "1"):
                        p = self._clone()
                        p._all_blocks()[bi].elifs[ei] = lit
                        out.append(p)
        return [p for p in out if p.blocks]


def _shapes(max_dir, max_depth):
    """All lists of block *shapes* (conditions unlabeled) with total directives <= max_dir, nesting <= max_depth.
    A shape block: (n_elif, has_else, bodies) with bodies = tuple (per group) of tuples of shape blocks."""
    from functools import lru_cache

    @lru_cache(None)
    def seqs(nd, depth, maxblocks):
        """tuple of sequences (tuples of shape blocks) using exactly nd directives."""
        res = []
        if nd == 0:
            return ((),)
        if maxblocks == 0:
            return ()
        for first_nd in range(2, nd + 1):
            for fb in block(first_nd, depth):
                for rest in seqs(nd - first_nd, depth, maxblocks - 1):
                    res.append((fb,) + rest)
        return tuple(res)

    @lru_cache(None)
    def block(nd, depth):
        """shape blocks using exactly nd directives (>= 2)."""
        res = []
        for n_elif in range(0, nd - 1):
            for has_else in (False, True):
                own = 2 + n_elif + (1 if has_else else 0)
                if own > nd:
                    continue
                groups = 1 + n_elif + (1 if has_else else 0)
                inner = nd - own
                if inner and depth <= 1:
                    continue
                # distribute the inner directives over the groups; each group holds at most one nested block
                for dist in _distribute(inner, groups):
                    options = []
                    for d in dist:
                        if d == 0:
                            options.append(((),))
                        elif d == 1:
                            options.append(())
                        else:
                            options.append(tuple((nb,) for nb in block(d, depth - 1)))
                    for bodies in itertools.product(*options):
                        res.append((n_elif, has_else, bodies))
        return tuple(res)

    out = []
    for nd in range(2, max_dir + 1):
        out.extend(seqs(nd, max_depth, 2))
    return out


def _distribute(total, k):
    if k == 1:
        yield (total,)
        return
    for first in range(total + 1):
        for rest in _distribute(total - first, k - 1):
            yield (first,) + rest


def _count_conds(shape_seq):
    n_if = n_elif = 0
    for (ne, he, bodies) in shape_seq:
        n_if += 1
        n_elif += ne
        for body in bodies:
            a, b = _count_conds(body)
            n_if += a
            n_elif += b
    return n_if, n_elif


def skeletons(tier):
    max_dir = 5 if tier == "quick" else 6
    progs = []
    for shape in _shapes(max_dir, 2):
        n_if, n_elif = _count_conds(shape)
        k = n_if + n_elif
        if k <= 2:
            ifc, elc = IFC_FULL, ELC_FULL
        elif k == 3:
            ifc, elc = (IFC_MID, ELC_MID)
        else:
            ifc, elc = IFC_MIN, ELC_MIN
        if tier == "thorough" and k == 3:
            ifc, elc = IFC_FULL, ELC_FULL
        openers = [("if", c) for c in ifc] + ([("ifdef",), ("ifndef",)] if k <= 3 else [])

        def label(seq):
            """yield lists of Blocks for a shape sequence."""
            if not seq:
                yield []
                return
            (ne, he, bodies) = seq[0]
            for op in openers:
                for els in itertools.product(elc, repeat=ne):
                    for lb in itertools.product(*[list(label(body)) for body in bodies]):
                        for rest in label(seq[1:]):
                            yield [Block(op, els, he, lb)] + rest
        for blocks in label(shape):
            uses_a = any(("A" in c) for b in Skeleton((), blocks)._all_blocks() for c in b.conds()) or \
                any(b.opener[0] != "if" for b in Skeleton((), blocks)._all_blocks())
            pros = PROLOGUES if (uses_a and k <= 3) else [()]
            for pro in pros:
                progs.append(Skeleton(pro, blocks))
            # A defined / undefined inside a group (first block only, small programs only)
            if uses_a and k <= 2:
                b0 = blocks[0]
                for gi in range(min(2, b0.ngroups())):
                    for act in ACTIONS:
                        for pro in ((), ("#define A 1",)):
                            nb = [b.copy() for b in blocks]
                            nb[0].actions = {gi: act}
                            progs.append(Skeleton(pro, nb))
    return progs


# ---------------------------------------------------------------------------------------------------------
# family (b): #if expressions
LIT_FULL = ["0", "1", "2", "3", "31", "32", "63", "2147483647", "2147483648", "4294967295", "4294967296", "9223372036854775807",
            "0x7fffffff", "0x80000000", "0xffffffff", "0xffffffffffffffff", "1u", "0u", "2l", "3ul", "1ll", "4294967295u", "0x80000000u",
            "defined(A)", "defined A", "(1/0)"]
LIT_D1Q = ["0", "1", "2", "31", "32", "63", "2147483647", "2147483648", "4294967296", "0x7fffffff", "0x80000000", "0xffffffff",
           "0xffffffffffffffff", "1u", "3ul", "defined(A)", "defined A", "(1/0)"]
LIT_Q = ["0", "1", "2147483648", "0xffffffff"]
LIT_QO = ["1", "0xffffffff", "1u"]
LIT_T = ["0", "1", "3", "2147483648", "0xffffffff", "1u"]
UNARY = ["-", "+", "!", "~"]
BINARY = ["+", "-", "*", "/", "%", "<<", ">>", "<", "<=", ">", ">=", "==", "!=", "&", "|", "^", "&&", "||"]
OPCLASS = {"+": "arith", "-": "arith", "*": "arith", "/": "arith", "%": "arith", "<<": "shift", ">>": "shift", "<": "rel", "<=": "rel",
           ">": "rel", ">=": "rel", "==": "eq", "!=": "eq", "&": "bit", "|": "bit", "^": "bit", "&&": "logic", "||": "logic"}


def lit_class(l):
    if l.startswith("defined"):
        return "DEFINED"
    if l == "(1/0)":
        return "DIV0"
    m = re.match(r"(0x[0-9a-f]+|[0-9]+)([ul]*)$", l)
    v = int(m.group(1), 0)
    suf = m.group(2)
    c = "HEX" if l.startswith("0x") else "DEC"
    if v <= 0x7fffffff:
        rng = "small"
    elif v <= 0xffffffff:
        rng = "gt-INT_MAX"
    elif v <= 0x7fffffffffffffff:
        rng = "gt-UINT_MAX"
    else:
        rng = "gt-INT64_MAX"
    return c + "." + rng + ("." + suf if suf else "")


class E:
    """expression tree: ('lit', text) | ('un', op, e) | ('bin', op, l, r) | ('ter', c, t, f)"""

    def __init__(self, *a):
        self.a = a

    def text(self, top=True):
        a = self.a
        if a[0] == "lit":
            return a[1]
        if a[0] == "un":
            s = a[1] + a[2].text(False)
        elif a[0] == "bin":
            s = "%s %s %s" % (a[2].text(False), a[1], a[3].text(False))
        else:
            s = "%s ? %s : %s" % (a[1].text(False), a[2].text(False), a[3].text(False))
        return s if top else "(" + s + ")"

    def cls(self, top=True):
        a = self.a
        if a[0] == "lit":
            return lit_class(a[1])
        if a[0] == "un":
            s = a[1] + a[2].cls(False)
        elif a[0] == "bin":
            s = "%s%s%s" % (a[2].cls(False), a[1], a[3].cls(False))
        else:
            s = "%s?%s:%s" % (a[1].cls(False), a[2].cls(False), a[3].cls(False))
        return s if top else "(" + s + ")"

    def children(self):
        a = self.a
        if a[0] == "un":
            return [a[2]]
        if a[0] == "bin":
            return [a[2], a[3]]
        if a[0] == "ter":
            return [a[1], a[2], a[3]]
        return []

    def depth(self):
        return 0 if self.a[0] == "lit" else 1 + max(c.depth() for c in self.children())

    def replace_child(self, i, new):
        a = list(self.a)
        off = {"un": 2, "bin": 2, "ter": 1}[a[0]]
        a[off + i] = new
        return E(*a)


def _bool_typed(e):
    """sub-expression whose OCCA value has type bool (comparison, logical operator, !)"""
    a = e.a
    return (a[0] == "bin" and OPCLASS[a[1]] in ("rel", "eq", "logic")) or (a[0] == "un" and a[1] == "!")


def _bitop_on_bool(e):
    a = e.a
    if a[0] == "un" and a[1] == "~" and _bool_typed(a[2]):
        return True
    if a[0] == "bin" and a[1] in ("&", "|", "^") and (_bool_typed(a[2]) or _bool_typed(a[3])):
        return True
    return any(_bitop_on_bool(c) for c in e.children())


class IfExpr(Program):
    family = "ifexpr"

    def cls(self):
        return "ifexpr-bitop-on-bool" if _bitop_on_bool(self.e) else "ifexpr"

    def __init__(self, e, a_defined=False):
        self.e, self.a_defined = e, a_defined

    def text(self):
        pro = "#define A 1\n" if self.a_defined else ""
        return pro + "#if " + self.e.text() + "\nt\n#else\nf\n#endif\n"

    def sig(self):
        return self.e.cls() + (";A=1" if self.a_defined else "")

    def reductions(self):
        out = []
        e = self.e
        # replace the expression by one of its sub-expressions
        for ch in e.children():
            out.append(IfExpr(ch, self.a_defined))
        # replace one grandchild-bearing child by each of its children; simplify literals
        for i, ch in enumerate(e.children()):
            for g in ch.children():
                out.append(IfExpr(e.replace_child(i, g), self.a_defined))
            if ch.a[0] == "lit" and ch.a[1] not in ("0", "1"):
                for lit in ("1", "0"):
                    out.append(IfExpr(e.replace_child(i, E("lit", lit)), self.a_defined))
            for j, g in enumerate(ch.children()):
                if g.a[0] == "lit" and g.a[1] not in ("0", "1"):
                    for lit in ("1", "0"):
                        out.append(IfExpr(e.replace_child(i, ch.replace_child(j, E("lit", lit))), self.a_defined))
        if self.a_defined and "defined" not in e.text():
            out.append(IfExpr(e, False))
        return out


def ifexprs(tier):
    progs = []
    L = [E("lit", l) for l in (LIT_D1Q if tier == "quick" else LIT_FULL)]

    def add(e):
        if "defined" in e.text():
            progs.append(IfExpr(e, False))
            progs.append(IfExpr(e, True))
        else:
            progs.append(IfExpr(e))
    for l in L:
        add(l)
    for op in UNARY:
        for l in L:
            add(E("un", op, l))
    for op in BINARY:
        for l in L:
            for r in L:
                add(E("bin", op, l, r))
    T3 = [E("lit", l) for l in ["0", "1", "2", "2147483648", "0xffffffff", "(1/0)"]]
    for c in T3:
        for t in T3:
            for f in T3:
                add(E("ter", c, t, f))
    # depth 2
    sub = [E("lit", l) for l in (LIT_Q if tier == "quick" else LIT_T)]
    d1 = [E("un", op, l) for op in UNARY for l in sub] + [E("bin", op, l, r) for op in BINARY for l in sub for r in sub]
    for op in UNARY:
        for x in d1:
            add(E("un", op, x))
    outer = [E("lit", l) for l in LIT_QO] if tier == "quick" else sub
    for op in BINARY:
        for x in d1:
            for l in outer:
                add(E("bin", op, x, l))
    right_ops = ["-", "<<", "<", "&&"] if tier == "quick" else BINARY
    for op in right_ops:
        for l in outer:
            for x in d1:
                add(E("bin", op, l, x))
    # guarded division under one more operator
    g = [E("bin", "&&", E("lit", "0"), E("lit", "(1/0)")), E("bin", "||", E("lit", "1"), E("lit", "(1/0)")),
         E("ter", E("lit", "1"), E("lit", "2"), E("lit", "(1/0)")), E("ter", E("lit", "0"), E("lit", "(1/0)"), E("lit", "2"))]
    for x in g:
        for op in UNARY:
            add(E("un", op, x))
        for op in BINARY:
            for l in sub:
                add(E("bin", op, x, l))
                add(E("bin", op, l, x))
    return progs


# ---------------------------------------------------------------------------------------------------------
# family (c): macro expansion
class MDef:
    def __init__(self, name, params, body, feat):
        """params: None (object-like) | tuple of names, possibly ending in '...'"""
        self.name, self.params, self.body, self.feat = name, params, body, feat

    def line(self):
        if self.params is None:
            return ("#define %s %s" % (self.name, self.body)).rstrip()
        return ("#define %s(%s) %s" % (self.name, ", ".join(self.params), self.body)).rstrip()

    def arity(self):
        if self.params is None:
            return None
        return len([p for p in self.params if p != "..."])

    def variadic(self):
        return self.params is not None and "..." in self.params


DEFS = [
    MDef("A", None, "", "obj-empty"), MDef("A", None, "1", "obj-lit"), MDef("A", None, "B", "obj-other"),
    MDef("A", None, "A", "obj-self"), MDef("A", None, "A + 1", "obj-self"), MDef("A", None, "B + B", "obj-other"),
    MDef("A", None, "(B)", "obj-other"), MDef("A", None, "F(1)", "obj-calls-fn"), MDef("A", None, "F", "obj-names-fn"),
    MDef("A", None, "x y", "obj-lit"), MDef("A", None, "(1, 2)", "obj-paren-comma"),
    MDef("B", None, "2", "obj-lit"), MDef("B", None, "A", "obj-other"), MDef("B", None, "B A", "obj-self"), MDef("B", None, "F(A)", "obj-calls-fn"),
    MDef("F", (), "", "fn0"), MDef("F", (), "1", "fn0"), MDef("F", (), "A", "fn0-other"), MDef("F", (), "F()", "fn0-self"),
    MDef("F", ("x",), "x", "fn1"), MDef("F", ("x",), "(x)", "fn1"), MDef("F", ("x",), "x x", "fn1-param-twice"), MDef("F", ("x",), "x + 1", "fn1"),
    MDef("F", ("x",), "A x", "fn1-other"), MDef("F", ("x",), "F(x)", "fn1-self"), MDef("F", ("x",), "G(x)", "fn1-calls-fn"),
    MDef("F", ("x",), "B", "fn1-other"), MDef("F", ("x",), "1", "fn1-unused-param"), MDef("F", ("x",), "x F", "fn1-self-name"),
    MDef("F", ("x", "y"), "x y", "fn2"), MDef("F", ("x", "y"), "y x", "fn2"), MDef("F", ("x", "y"), "x + y", "fn2"),
    MDef("F", ("x", "y"), "F(y, x)", "fn2-self"), MDef("F", ("x", "y"), "G(x) y", "fn2-calls-fn"),
    MDef("G", ("x",), "F(x)", "fn1-calls-fn"), MDef("G", ("x",), "x A", "fn1-other"), MDef("G", ("x",), "[x]", "fn1"),
    MDef("V", ("...",), "__VA_ARGS__", "variadic"), MDef("V", ("x", "..."), "x | __VA_ARGS__", "variadic-named"),
    MDef("V", ("x", "..."), "G(__VA_ARGS__) x", "variadic-to-fn"), MDef("V", ("...",), "F(__VA_ARGS__)", "variadic-to-fn"),
    MDef("V", ("...",), "V(__VA_ARGS__)", "variadic-self"),
]

ARG1 = [("1", "lit"), ("a", "ident"), ("A", "macro"), ("(1,2)", "paren-comma"), ("1 + 2", "multi-token"), ("G(1)", "call"), ("B", "macro")]


def invocation_lines(defs):
    """well-formed (arity-respecting, non-empty arguments) invocation lines for the defined macros: (text, feature)"""
    by = {d.name: d for d in defs}
    out = []
    for n in ("A", "B"):
        if n in by and by[n].params is None:
            out += [(n, "obj"), ("x %s y" % n, "obj"), ("(%s)" % n, "obj"), ("%s %s" % (n, n), "obj-twice"), ("%s(1)" % n, "obj-followed-by-paren")]
    for n in ("F", "G"):
        if n not in by:
            continue
        d = by[n]
        k = d.arity()
        out += [(n + " ;", "fn-name-no-call"), ("%s + %s ;" % (n, n), "fn-name-no-call")]
        if k == 0:
            out += [(n + "()", "call0"), (n + " ()", "call-space-before-paren"), ("x %s() y" % n, "call0"), ("%s()()" % n, "call-then-paren")]
        elif k == 1:
            for a, f in ARG1:
                out.append(("%s(%s)" % (n, a), "call1-arg-" + f))
            out += [("%s (1)" % n, "call-space-before-paren"), ("%s(%s(1))" % (n, n), "call1-arg-self-call"), ("%s(%s(%s(1)))" % (n, n, n), "call1-arg-self-call"),
                    ("x %s(1) y" % n, "call1-arg-lit"), ("%s(1)(2)" % n, "call-then-paren"), ("%s(1) %s(2)" % (n, n), "call-twice"),
                    ("%s( 1 )" % n, "call1-arg-lit"), ("%s(%s)" % (n, n), "call1-arg-own-name")]
        elif k == 2:
            out += [("%s(1, 2)" % n, "call2-arg-lit"), ("%s(1,2)" % n, "call2-arg-lit"), ("%s(A, B)" % n, "call2-arg-macro"), ("%s((1,2), 3)" % n, "call2-arg-paren-comma"),
                    ("%s(%s(1, 2), 3)" % (n, n), "call2-arg-self-call"), ("%s(a, G(1))" % n, "call2-arg-call"), ("%s(1 + 2, 3 4)" % n, "call2-arg-multi-token"),
                    ("%s (1, 2)" % n, "call-space-before-paren")]
    if "V" in by:
        d = by["V"]
        lo = d.arity() + 1
        cand = [("V(1)", 1, "variadic1"), ("V(1, 2)", 2, "variadic2"), ("V(1, 2, 3)", 3, "variadic3"), ("V((1,2), 3)", 2, "variadic-paren-comma"),
                ("V(A, B)", 2, "variadic-arg-macro"), ("V(G(1), 2)", 2, "variadic-arg-call"), ("V(V(1, 2), 3)", 2, "variadic-arg-self-call"),
                ("V(1, 2, 3, 4)", 4, "variadic4"), ("V(a)", 1, "variadic1"), ("V(1 2, 3)", 2, "variadic-multi-token")]
        out += [(t, f) for (t, n, f) in cand if n >= lo]
        out += [("V ;", "fn-name-no-call")]
    return out


def _recursive(defs):
    """some macro of the program can reach its own name through the replacement lists"""
    names = {d.name for d in defs}
    refs = {d.name: {t for t in re.findall(r"[A-Za-z_]\w*", d.body) if t in names} for d in defs}
    for n in names:
        seen, todo = set(), list(refs[n])
        while todo:
            x = todo.pop()
            if x == n:
                return True
            if x not in seen:
                seen.add(x)
                todo.extend(refs[x])
    return False


def _empty_expansion_argument(defs, line):
    """an object-like macro whose complete expansion is empty (empty replacement list, or only names of such macros) is
    used inside parentheses - in the invocation line or in a replacement list, where it becomes an argument"""
    empty = set()
    changed = True
    while changed:
        changed = False
        for d in defs:
            if d.params is None and d.name not in empty:
                toks = re.findall(r"\S+", d.body)
                if all(t in empty for t in toks):
                    empty.add(d.name)
                    changed = True
    if not empty:
        return False
    for text in [line] + [d.body for d in defs]:
        for m in re.finditer(r"\((.*)\)", text):
            if set(re.findall(r"[A-Za-z_]\w*", m.group(1))) & empty:
                return True
    return False


class MacroProg(Program):
    family = "macro"

    def cls(self):
        if _empty_expansion_argument(self.defs, self.line):
            return "macro-argument-expands-to-nothing"
        return "macro-recursive" if _recursive(self.defs) else "macro"

    def __init__(self, defs, line, line_feat, undef=None, redefine=None):
        self.defs, self.line, self.line_feat, self.undef, self.redefine = list(defs), line, line_feat, undef, redefine

    def text(self):
        lines = [d.line() for d in self.defs] + [self.line]
        if self.undef:
            lines += ["#undef " + self.undef]
            if self.redefine:
                lines += [self.redefine.line()]
            lines += [self.line]
        return "\n".join(lines) + "\n"

    @property
    def guard(self):
        return False

    def sig(self):
        s = ";".join(d.line().replace("#define ", "") for d in self.defs) + "|" + self.line
        if self.undef:
            s += "|undef_" + self.undef + ("+redefine" if self.redefine else "")
        return s.replace(" ", "_")

    def reductions(self):
        out = []
        if self.undef:
            out.append(MacroProg(self.defs, self.line, self.line_feat))
            if self.redefine:
                out.append(MacroProg(self.defs, self.line, self.line_feat, self.undef))
        for i in range(len(self.defs)):
            out.append(MacroProg(self.defs[:i] + self.defs[i + 1:], self.line, self.line_feat, self.undef if self.undef != self.defs[i].name else None,
                                 self.redefine if self.undef != self.defs[i].name else None))
        return out


def macros(tier):
    progs = []
    maxdefs = 2 if tier == "quick" else 3
    for k in range(1, maxdefs + 1):
        for combo in itertools.combinations(range(len(DEFS)), k):
            defs = [DEFS[i] for i in combo]
            names = [d.name for d in defs]
            if len(set(names)) != len(names):
                continue
            lines = invocation_lines(defs)
            for (ln, feat) in lines:
                progs.append(MacroProg(defs, ln, feat))
            # #undef of each defined macro between two copies of the line (smaller programs only)
            if k <= (1 if tier == "quick" else 2):
                for d in defs:
                    for (ln, feat) in lines:
                        if re.search(r"\b%s\b" % d.name, ln) or any(re.search(r"\b%s\b" % d.name, o.body) for o in defs):
                            progs.append(MacroProg(defs, ln, feat, undef=d.name))
            if k == 1:
                # re-definition after #undef with every other body of the same name and shape
                d = defs[0]
                for d2 in DEFS:
                    if d2.name == d.name and d2 is not d and d2.arity() == d.arity() and d2.variadic() == d.variadic():
                        for (ln, feat) in lines:
                            progs.append(MacroProg(defs, ln, feat, undef=d.name, redefine=d2))
    return progs


# ---------------------------------------------------------------------------------------------------------
# Reference evaluator of #if expressions with C preprocessor semantics (intmax_t / uintmax_t arithmetic).
# It is used only to FILTER expressions whose evaluation is undefined in C but which gcc -E accepts silently
# (shift counts < 0 or >= 64, left shift of a negative value) and to cross-check gcc's verdict (a disagreement
# is a harness error, never a property verdict).
class UB(Exception):
    pass


M64 = (1 << 64) - 1
IMAX, IMIN = (1 << 63) - 1, -(1 << 63)


def _lit(l, a_defined):
    if l.startswith("defined"):
        return (1 if a_defined else 0, False)
    if l == "(1/0)":
        raise UB("div0")
    m = re.match(r"(0x[0-9a-f]+|[0-9]+)([ul]*)$", l)
    v = int(m.group(1), 0)
    uns = "u" in m.group(2) or v > IMAX
    return (v, uns)


def _tou(v):
    return v & M64


def _chk(v):
    if v > IMAX or v < IMIN:
        raise UB("overflow")
    return v


def cpp_eval(e, a_defined=False):
    a = e.a
    if a[0] == "lit":
        return _lit(a[1], a_defined)
    if a[0] == "un":
        v, u = cpp_eval(a[2], a_defined)
        op = a[1]
        if op == "+":
            return (v, u)
        if op == "-":
            return (_tou(-v), True) if u else (_chk(-v), False)
        if op == "!":
            return (0 if v else 1, False)
        return (_tou(~v), True) if u else (~v, False)
    if a[0] == "ter":
        cv, cu = cpp_eval(a[1], a_defined)
        # the type of ?: follows the usual conversions of both branches; only the chosen one is evaluated
        chosen, other = (a[2], a[3]) if cv else (a[3], a[2])
        v, u = cpp_eval(chosen, a_defined)
        try:
            ou = cpp_eval(other, a_defined)[1]
        except UB:
            ou = False
        if ou and not u:
            return (_tou(v), True)
        return (v, u)
    op = a[1]
    if op in ("&&", "||"):
        lv, lu = cpp_eval(a[2], a_defined)
        if op == "&&" and not lv:
            return (0, False)
        if op == "||" and lv:
            return (1, False)
        rv, ru = cpp_eval(a[3], a_defined)
        return (1 if rv else 0, False)
    lv, lu = cpp_eval(a[2], a_defined)
    rv, ru = cpp_eval(a[3], a_defined)
    if op in ("<<", ">>"):
        if (not ru and rv < 0) or rv >= 64:
            raise UB("shift-count")
        if op == "<<":
            if lu:
                return (_tou(lv << rv), True)
            if lv < 0:
                raise UB("shift-negative")
            return (_chk(lv << rv), False)
        return (lv >> rv, lu)
    u = lu or ru
    if u:
        lv, rv = _tou(lv), _tou(rv)
    if op in ("<", "<=", ">", ">=", "==", "!="):
        r = {"<": lv < rv, "<=": lv <= rv, ">": lv > rv, ">=": lv >= rv, "==": lv == rv, "!=": lv != rv}[op]
        return (1 if r else 0, False)
    if op in ("/", "%"):
        if rv == 0:
            raise UB("div0")
        q = abs(lv) // abs(rv)
        if (lv < 0) != (rv < 0):
            q = -q
        r = q if op == "/" else lv - q * rv
    else:
        r = {"+": lv + rv, "-": lv - rv, "*": lv * rv, "&": lv & rv, "|": lv | rv, "^": lv ^ rv}[op]
    return (_tou(r), True) if u else (_chk(r), False)


def ifexpr_reference(p):
    """'t' / 'f' by the reference evaluator, or None if evaluation is undefined in C."""
    try:
        v, u = cpp_eval(p.e, p.a_defined)
    except UB:
        return None
    return "t" if v else "f"
