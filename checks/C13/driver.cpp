// C13 driver: runs the real tokenizer_t -> preprocessor_t stream over one program per item.
// Item: hex of the program text.  Output per item:
//   L <hex>     one per non-empty output line: the printed tokens of the line joined by single spaces
//   ERR <preprocessor errors> <tokenizer errors> <preprocessor warnings>
//   EXC <kind> <hex message>   if an exception escaped
// A fresh tokenizer and preprocessor are constructed for every program (no state is shared between programs).
#include <cstdio>
#include <cstdlib>
#include <cstring>
#include <fstream>
#include <iostream>
#include <sstream>
#include <string>
#include <vector>

#include "forkbatch.hpp"

#include <occa/utils/exception.hpp>
#include <occa/internal/io/output.hpp>
#include <occa/internal/lang/tokenizer.hpp>
#include <occa/internal/lang/preprocessor.hpp>
#include <occa/internal/lang/token.hpp>

using namespace occa::lang;

static void quiet(const char *) {}

static std::string hex(const std::string &s) {
  static const char *d = "0123456789abcdef";
  std::string r;
  for (unsigned char c : s) { r += d[c >> 4]; r += d[c & 15]; }
  if (r.empty()) r = "-";
  return r;
}

static std::string unhex(const std::string &h) {
  std::string r;
  if (h == "-") return r;
  for (size_t i = 0; i + 1 < h.size(); i += 2) r += (char) strtol(h.substr(i, 2).c_str(), NULL, 16);
  return r;
}

static void runProgram(const std::string &src) {
  // exact-size heap copy: the tokenizer must not read past the terminator
  char *buf = (char *) malloc(src.size() + 1);
  memcpy(buf, src.data(), src.size());
  buf[src.size()] = '\0';
  {
    tokenizer_t tokenizer;
    preprocessor_t preprocessor;
    occa::lang::stream<token_t*> st = tokenizer.map(preprocessor);
    tokenizer.set(buf);

    std::string line;
    bool any = false;
    token_t *token = NULL;
    while (!st.isEmpty()) {
      token = NULL;
      st >> token;
      if (!token) break;
      if (token->type() & tokenType::newline) {
        if (any) printf("L %s\n", hex(line).c_str());
        line.clear();
        any = false;
      } else {
        if (any) line += ' ';
        line += token->str();
        any = true;
      }
      delete token;
    }
    if (any) printf("L %s\n", hex(line).c_str());
    printf("ERR %d %d %d\n", preprocessor.errors, tokenizer.errors, preprocessor.warnings);
  }
  free(buf);
}

static void runItem(long idx, const std::string &line) {
  try {
    runProgram(unhex(line));
  } catch (occa::exception &e) {
    printf("EXC occa %s\n", hex(e.message).c_str());
  } catch (std::exception &e) {
    printf("EXC std %s\n", hex(e.what()).c_str());
  }
}

int main(int argc, char **argv) {
  occa::io::stderr.setOverride(quiet);
  occa::io::stdout.setOverride(quiet);
  // items run in forked workers of this initialised process (see engines/forkbatch.hpp)
  return fb::run(argv[argc - 1], runItem, 10.0);
}
