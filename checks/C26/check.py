#!/usr/bin/env python3
"""C26: mode-specific properties override generic ones only for their mode (E2 bounded-exhaustive).

Alphabet
  A *layer* is one place where a value for the key x can be written.  For an object o in {kernel, memory, stream},
  a device of mode M and the other mode N (Serial/OpenMP) there are 13 layers:
    global settings (occa::settings(), merged like the config file):
        o/x   o/modes/M/x   modes/M/o/x   o/modes/N/x   modes/N/o/x
    device properties (the JSON handed to occa::device):   the same five paths
    per-call properties (the JSON handed to kernelProperties/memoryProperties/streamProperties(props), createStream,
        malloc, buildKernel):   x   modes/M/x   modes/N/x
  For o = device there are 8 layers: settings device/x, device/modes/M/x, modes/M/device/x (+ the two N forms),
  device properties x, modes/M/x, modes/N/x.
  Every layer that is set gets its own value (layer index + 1), so the observed value names the winning layer.
  An independent key y is written at one rotating layer (value 100 + index).
Bound
  ALL subsets of the layers: thorough = 2^13 per object kind and device mode, 2^8 for the device; quick = 2^13 for kernels
  of a Serial device, 2^8 for the device in both modes, all subsets of size <= 3 for the rest; all subsets of size
  <= 2 again with the mode selected by a differently spelled name (mode names are matched case-insensitively) and by an
  unavailable mode name (documented fall-back to Serial); for the key defines/VX all subsets of size <= 2 (thorough:
  <= 3, both modes) are additionally compiled into a kernel that echoes the macro.
Oracle (the property sentence, nothing more)
  candidates = layers that are set and are generic or belong to the device's own mode (device.mode());
  A dominates B  iff  both are in the same property set and A is the own-mode entry, B the generic one;  or A is
  user-supplied (device or per-call properties), B is a settings entry and A is at least as specific.  The sentence orders
  nothing else: the two spellings of an own-mode entry, device properties vs per-call properties, "settings own-mode" vs
  "user generic" are NOT ordered, any of them may win.
  - the observed value of x is the value of a non-dominated candidate; x is absent iff there is no candidate
    (this includes: a value written only under the other mode never shows up)
  - y is resolved the same way from its own single layer, whatever the x layers are
  observed at device.properties(), kernelProperties()/memoryProperties()/streamProperties() without and with per-call
  properties, the properties() of created streams / memories / kernels, and the macro value seen by a built kernel.
"""
import itertools, json, os, re, sys, time
sys.path.insert(0, os.path.dirname(os.path.dirname(os.path.dirname(os.path.abspath(__file__)))))
from vlib.core import Check, san_env, load_replay, sh
from vlib.batch import run_items

HERE = os.path.dirname(os.path.abspath(__file__))
MODES = ["Serial", "OpenMP"]
SETTINGS, DEVICE, CALL = 0, 1, 2
SRCNAME = {SETTINGS: "settings", DEVICE: "devprops", CALL: "call"}


def fast_env(scratch, extra=None):
    env = san_env(scratch, extra)
    env["ASAN_OPTIONS"] += ":quarantine_size_mb=8"
    return env


class Layer:
    __slots__ = ("idx", "src", "own", "generic", "path", "tag")

    def __init__(self, idx, src, kind, path, tag):
        self.idx, self.src, self.path, self.tag = idx, src, path, tag
        self.generic = kind == "g"
        self.own = kind == "m"          # kind 'n' = other mode

    @property
    def spec(self):
        return 0 if self.generic else 1


def layers_for(obj, M, N, key):
    """List of Layer for one object kind; M = the device's own (canonical) mode name, N = another mode name."""
    L = []

    def add(src, kind, path, tag):
        L.append(Layer(len(L), src, kind, path, tag))

    if obj == "device":
        add(SETTINGS, "g", "device/" + key, "settings:device/x")
        add(SETTINGS, "m", "device/modes/%s/%s" % (M, key), "settings:device/modes/OWN/x")
        add(SETTINGS, "m", "modes/%s/device/%s" % (M, key), "settings:modes/OWN/device/x")
        add(SETTINGS, "n", "device/modes/%s/%s" % (N, key), "settings:device/modes/OTHER/x")
        add(SETTINGS, "n", "modes/%s/device/%s" % (N, key), "settings:modes/OTHER/device/x")
        add(DEVICE, "g", key, "devprops:x")
        add(DEVICE, "m", "modes/%s/%s" % (M, key), "devprops:modes/OWN/x")
        add(DEVICE, "n", "modes/%s/%s" % (N, key), "devprops:modes/OTHER/x")
        return L
    for src in (SETTINGS, DEVICE):
        s = SRCNAME[src]
        add(src, "g", "%s/%s" % (obj, key), s + ":o/x")
        add(src, "m", "%s/modes/%s/%s" % (obj, M, key), s + ":o/modes/OWN/x")
        add(src, "m", "modes/%s/%s/%s" % (M, obj, key), s + ":modes/OWN/o/x")
        add(src, "n", "%s/modes/%s/%s" % (obj, N, key), s + ":o/modes/OTHER/x")
        add(src, "n", "modes/%s/%s/%s" % (N, obj, key), s + ":modes/OTHER/o/x")
    add(CALL, "g", key, "call:x")
    add(CALL, "m", "modes/%s/%s" % (M, key), "call:modes/OWN/x")
    add(CALL, "n", "modes/%s/%s" % (N, key), "call:modes/OTHER/x")
    return L


def set_path(tree, path, value):
    parts = path.split("/")
    cur = tree
    for p in parts[:-1]:
        cur = cur.setdefault(p, {})
    cur[parts[-1]] = value


def get_path(tree, path):
    cur = tree
    for p in path.split("/"):
        if not isinstance(cur, dict) or p not in cur:
            return None
        cur = cur[p]
    return cur


def dominates(a, b):
    """a dominates b (see module docstring): inside one property set the own-mode entry beats the generic one; a user-supplied
    entry (device or per-call properties) beats a settings entry that is not more specific.  Device properties and per-call
    properties are two different user-supplied sets: the sentence does not order them."""
    if a.src == b.src:
        return a.spec > b.spec
    if a.src != SETTINGS and b.src == SETTINGS:
        return a.spec >= b.spec
    return False


def expected(layers, chosen, sources):
    """-> (set of acceptable values or {None}, candidates list)"""
    cand = [l for l in layers if l.idx in chosen and l.src in sources and (l.generic or l.own)]
    if not cand:
        return {None}, cand
    top = [a for a in cand if not any(dominates(b, a) for b in cand)]
    return set(l.idx + 1 for l in top), cand


class Item:
    """One configuration: object kind, spelled mode, canonical mode, other mode, subset of x layers, y layer."""

    def __init__(self, obj, spelled, M, N, subset, ylayer, key="vx", flags="o", spelling="canonical"):
        self.obj, self.spelled, self.M, self.N = obj, spelled, M, N
        self.subset = tuple(subset)
        self.ylayer = ylayer
        self.key = key
        self.flags = flags
        self.spelling = spelling

    def to_obj(self):
        return {"obj": self.obj, "spelled": self.spelled, "M": self.M, "N": self.N, "subset": list(self.subset),
                "ylayer": self.ylayer, "key": self.key, "flags": self.flags, "spelling": self.spelling}

    @staticmethod
    def from_obj(o):
        return Item(o["obj"], o["spelled"], o["M"], o["N"], o["subset"], o["ylayer"], o["key"], o["flags"], o["spelling"])

    def layers(self):
        return layers_for(self.obj, self.M, self.N, self.key)

    def ylayers(self):
        return layers_for(self.obj, self.M, self.N, "vy")

    def line(self):
        trees = {SETTINGS: {}, DEVICE: {"mode": self.spelled}, CALL: {}}
        L = self.layers()
        for i in self.subset:
            set_path(trees[L[i].src], L[i].path, i + 1)
        if self.ylayer is not None:
            yl = self.ylayers()[self.ylayer]
            set_path(trees[yl.src], yl.path, 100 + self.ylayer)
        return "\t".join([self.flags] + [json.dumps(trees[s], sort_keys=True) for s in (SETTINGS, DEVICE, CALL)])

    def describe(self):
        L = self.layers()
        return "object=%s mode=%r (device.mode()=%s, other=%s) x set at {%s}" % (
            self.obj, self.spelled, self.M, self.N,
            ", ".join("%s=%d" % (L[i].path + "@" + SRCNAME[L[i].src], i + 1) for i in self.subset))


def parse_occa_json(text):
    """occa's dump(0) of the property trees used here is plain JSON (ints, strings, bools, objects)."""
    return json.loads(text)


# observation tag -> (where x lives inside the dumped JSON, sources that can contribute, class for signatures)
def observations(item):
    o = item.obj
    if o == "device":
        return [("D", "", (SETTINGS, DEVICE), "device.properties")]
    t = {"kernel": "K", "memory": "M", "stream": "S"}[o]
    obs = [("D", o + "/", (SETTINGS, DEVICE), "device.properties"),
           (t + "0", "", (SETTINGS, DEVICE), o + "Properties()"),
           (t + "1", "", (SETTINGS, DEVICE, CALL), o + "Properties(props)")]
    if "o" in item.flags and o in ("memory", "stream"):
        obs.append((t + "O", "", (SETTINGS, DEVICE, CALL), "created-%s.properties" % o))
    if "k" in item.flags and o == "kernel":
        obs.append(("KO", "", (SETTINGS, DEVICE, CALL), "built-kernel.properties"))
        obs.append(("KB", "", (SETTINGS, DEVICE, CALL), "kernel-from-binary.properties"))
    return obs


def judge(item, lines, crash, stderr):
    """-> list of (signature, detail); also returns outcome summary string for distinct-outcome counting."""
    out = []
    vals = {}
    for ln in lines:
        tag, _, rest = ln.partition(" ")
        vals[tag] = rest
    sp = "" if item.spelling == "canonical" else ":" + item.spelling
    if crash:
        out.append(("crash:%s%s" % (item.obj, sp), "%s :: driver %s :: %s" % (item.describe(), crash, (stderr or "")[-600:])))
        return out, "crash"
    if "EXC" in vals:
        out.append(("exception:%s%s" % (item.obj, sp), "%s :: occa::exception %s" % (item.describe(), vals["EXC"][:300])))
        return out, "exception"
    if vals.get("MODE") != item.M:
        return None, "device.mode() is %r, expected %r" % (vals.get("MODE"), item.M)
    L = item.layers()
    YL = item.ylayers()
    summary = []
    for tag, prefix, sources, cls in observations(item):
        if tag not in vals:
            return None, "missing observation %s" % tag
        tree = parse_occa_json(vals[tag])
        # ---- x
        got = get_path(tree, prefix + item.key)
        want, cand = expected(L, set(item.subset), sources)
        summary.append("%s=%s" % (tag, got))
        if got not in want:
            if got is None:
                best = sorted(want)[0]
                sig = "entry-lost:%s:%s" % (L[best - 1].tag, cls)
            elif isinstance(got, int) and 1 <= got <= len(L) and (got - 1) in item.subset:
                g = L[got - 1]
                if not (g.generic or g.own):
                    sig = "other-mode-entry-took-effect:%s:%s" % (g.tag, cls)
                elif g.src not in sources:
                    sig = "foreign-value:%s:%s" % (g.tag, cls)
                else:
                    dom = [b for b in cand if dominates(b, g)]
                    sig = "dominated-entry-won:%s-over-%s:%s" % (g.tag, dom[0].tag if dom else "?", cls)
            else:
                sig = "foreign-value:%s" % cls
            if sp:
                sig = sig.split(":")[0]
            out.append((sig + sp, "%s :: %s shows x=%r, the property allows %s" % (
                item.describe(), cls, got, sorted(want, key=lambda v: (v is None, v)))))
        # ---- y
        if item.ylayer is not None:
            yl = YL[item.ylayer]
            ywant = (100 + item.ylayer) if (yl.src in sources and (yl.generic or yl.own)) else None
            ygot = get_path(tree, prefix + "vy")
            if ygot != ywant:
                out.append((("independent-key-changed:%s:%s" % (yl.tag, cls)) if not sp else ("independent-key-changed" + sp),
                            "%s ; y at %s :: %s shows y=%r, expected %r" % (item.describe(), yl.path, cls, ygot, ywant)))
    if "k" in item.flags and item.obj == "kernel":
        want, cand = expected(L, set(item.subset), (SETTINGS, DEVICE, CALL))
        want = set(-1 if v is None else v for v in want)
        try:
            kv = int(vals.get("KV", "x"))
        except ValueError:
            return None, "missing KV observation"
        summary.append("KV=%d" % kv)
        if kv not in want:
            if kv == -1:
                sig = "entry-lost:%s:compiled-kernel" % L[sorted(want)[0] - 1].tag
            elif 1 <= kv <= len(L) and not (L[kv - 1].generic or L[kv - 1].own):
                sig = "other-mode-entry-took-effect:%s:compiled-kernel" % L[kv - 1].tag
            elif 1 <= kv <= len(L):
                dom = [b for b in cand if dominates(b, L[kv - 1])]
                sig = "dominated-entry-won:%s-over-%s:compiled-kernel" % (L[kv - 1].tag, dom[0].tag if dom else "?")
            else:
                sig = "foreign-value:compiled-kernel"
            if sp:
                sig = sig.split(":")[0]
            out.append((sig + sp, "%s :: the compiled kernel saw VX=%d, the property allows %s" % (item.describe(), kv, sorted(want))))
    return out, " ".join(summary)


def gen_items(tier, have_openmp):
    items = []
    modes = [("Serial", "OpenMP")] + ([("OpenMP", "Serial")] if have_openmp else [])
    # 1. all subsets, canonical spelling
    for M, N in modes:
        for obj in ("device", "kernel", "memory", "stream"):
            n = len(layers_for(obj, M, N, "vx"))
            cnt = 0
            # the three object kinds and the two modes run through the same code with a different object / mode name: the
            # quick tier explores the full power set for the device (both modes) and for kernels of a Serial device, and all
            # subsets of size <= 3 for the rest; the thorough tier explores every power set
            top = n if (tier == "thorough" or obj == "device" or (obj == "kernel" and M == "Serial")) else 3
            for size in range(0, top + 1):
                for sub in itertools.combinations(range(n), size):
                    items.append(Item(obj, M, M, N, sub, cnt % n))
                    cnt += 1
    # 2. the mode chosen through another spelling / an unavailable mode name (falls back to Serial): subsets of size <= 2
    variants = [("serial", "Serial", "OpenMP", "mode-spelled-lowercase"), ("SERIAL", "Serial", "OpenMP", "mode-spelled-uppercase"),
                ("NoSuchMode", "Serial", "NoSuchMode", "unavailable-mode-fallback")]
    if have_openmp:
        variants.append(("openmp", "OpenMP", "Serial", "mode-spelled-lowercase"))
    for spelled, M, N, cls in variants:
        for obj in ("device", "kernel", "memory", "stream"):
            n = len(layers_for(obj, M, N, "vx"))
            cnt = 0
            for size in range(0, 3):
                for sub in itertools.combinations(range(n), size):
                    items.append(Item(obj, spelled, M, N, sub, cnt % n, spelling=cls))
                    cnt += 1
    n_plain = len(items)
    # 3. compiled kernels: key defines/VX
    kmax = 2 if tier == "quick" else 3
    kmodes = modes[:1] if tier == "quick" else modes
    for M, N in kmodes:
        n = len(layers_for("kernel", M, N, "defines/VX"))
        for size in range(0, kmax + 1):
            for sub in itertools.combinations(range(n), size):
                items.append(Item("kernel", M, M, N, sub, None, key="defines/VX", flags="k"))
    if tier == "thorough":
        for sub in itertools.combinations(range(13), 1):
            items.append(Item("kernel", "serial", "Serial", "OpenMP", sub, None, key="defines/VX", flags="k", spelling="mode-spelled-lowercase"))
    return items, n_plain


def run(c, exe, items, env, deadline):
    lines = [it.line() for it in items]
    plain = [i for i, it in enumerate(items) if "k" not in it.flags]
    jit = [i for i, it in enumerate(items) if "k" in it.flags]
    results = {}
    complete = True
    for idxs, chunk, tmo, name in ((plain, 700, 1.0, "plain"), (jit, 6, 100.0, "jit")):
        if not idxs:
            continue
        res, ok = run_items([exe], [lines[i] for i in idxs], os.path.join(c.scratch, name), env, chunk=chunk,
                            per_item_timeout=tmo, deadline=deadline)
        complete = complete and ok
        for r in res:
            results[idxs[r.index]] = r
            if r.crash == "timeout":
                # not a verdict on a loaded machine: once more on its own with a much larger limit
                r2, _ = run_items([exe], [lines[idxs[r.index]]], os.path.join(c.scratch, name + "-retry"), env, chunk=1, per_item_timeout=900.0)
                results[idxs[r.index]] = r2[0]
    return results, complete


def main():
    c = Check("C26", "exploration")
    c.build("asan")
    exe = c.compile(os.path.join(HERE, "driver.cpp"), "driver")
    env = fast_env(c.scratch)
    # default compiler flags for the echo kernels: keep the JIT cheap
    env["OCCA_CXXFLAGS"] = "-O0 -g0"

    if c.args.replay:
        r = load_replay(c.args.replay)
        it = Item.from_obj(r["replay"]["item"])
        res, _ = run_items([exe], [it.line()], c.scratch, env, per_item_timeout=60.0)
        print("item: " + it.describe())
        print("line: " + it.line())
        for ln in res[0].lines:
            print("  " + ln)
        v, summ = judge(it, res[0].lines, res[0].crash, res[0].stderr)
        if v is None:
            print("harness problem: " + summ)
            sys.exit(2)
        for sig, detail in v:
            print("FAIL %s :: %s" % (sig, detail))
        sys.exit(1 if v else 0)

    # is OpenMP available in this build?
    probe = Item("device", "OpenMP", "OpenMP", "Serial", (), None)
    res, _ = run_items([exe], [probe.line()], os.path.join(c.scratch, "probe"), env, per_item_timeout=900.0)
    if res[0].crash or not any(ln.startswith("MODE ") for ln in res[0].lines):
        c.harness_error("the OpenMP probe did not answer: %s %r" % (res[0].crash, res[0].lines[:3]))
    have_openmp = any(ln == "MODE OpenMP" for ln in res[0].lines)

    items, n_plain = gen_items(c.tier, have_openmp)
    deadline = time.time() + c.budget(75, 1100) * float(os.environ.get("VERIF_BUDGET_SCALE", "1"))   # from the end of the build + harness compile; the scale is for loaded machines
    results, complete = run(c, exe, items, env, deadline)

    outcomes = set()
    judged = 0
    winners = set()
    other_only = 0
    samples = []
    for i, it in enumerate(items):
        r = results.get(i)
        if r is None:
            continue
        v, summ = judge(it, r.lines, r.crash, r.stderr)
        if v is None:
            c.harness_error("item %d (%s): %s" % (i, it.describe(), summ))
        judged += 1
        outcomes.add((it.obj, summ))
        for m in re.finditer(r"=(\d+)", summ):
            winners.add((it.obj, int(m.group(1))))
        L = it.layers()
        if it.subset and all(not (L[j].generic or L[j].own) for j in it.subset):
            other_only += 1
        for sig, detail in v:
            c.violation(sig, detail, {"item": it.to_obj(), "line": it.line()})
        if i in (0, len(items) // 3, n_plain - 1, len(items) - 1):
            samples.append({"item": it.describe(), "observed": summ})

    n_jit = len([it for it in items if "k" in it.flags])
    c.vacuity(judged >= (len(items) if complete else 1000), "too few items judged (%d of %d)" % (judged, len(items)))
    # every generic / own-mode layer of the kernel object must have been seen winning somewhere
    klayers = layers_for("kernel", "Serial", "OpenMP", "vx")
    need = set(l.idx + 1 for l in klayers if l.generic or l.own)
    seen = set(v for (o, v) in winners if o == "kernel")
    if not c.violations:
        c.vacuity(need <= seen, "some generic/own-mode kernel layers never won: %s" % sorted(need - seen))
    c.vacuity(other_only >= 100, "fewer than 100 configurations with only other-mode entries (%d)" % other_only)
    c.vacuity(have_openmp, "OpenMP mode is not available in this build: only one device mode explored")
    c.set_exploration(
        evaluations=judged, distinct_nontrivial=len(outcomes),
        rule="every subset of the 13 (device: 8) places where a value for one key can be written - global settings, device "
             "properties, per-call properties; generic, own-mode in both spellings, other-mode - each with its own value; the observed "
             "value must be that of a non-dominated generic/own-mode entry (own-mode over generic, user-supplied over settings), "
             "absent when only other-mode entries exist",
        samples=samples, exhaustive=complete,
        items_total=len(items), items_all_subsets=n_plain, items_compiled_kernels=n_jit,
        configurations_with_only_other_mode_entries=other_only,
        device_modes=["Serial"] + (["OpenMP"] if have_openmp else []),
        distinct_winning_layers=len(winners), budget_hit=not complete)
    c.assumptions += [
        "the property sentence orders only own-mode over generic and user-supplied over settings; device vs per-call properties, the two "
        "spellings of an own-mode entry and (settings own-mode) vs (user generic) are accepted in either order",
        "global settings are reset to their start-up value between items inside one driver process",
        "own-mode entries are written under the canonical mode name reported by device.mode()",
    ]
    c.finish()


from vlib.core import run_main
run_main(main)
