// C26: mode-specific property layering.
//
// Batch driver (vlib.batch protocol).  One item per line, TAB separated:
//   <flags> \t <settings JSON> \t <device props JSON> \t <per-call props JSON>
// flags: letters  o  create the objects (stream / memory) with the per-call props and print their properties
//                 k  build (JIT) and run the echo kernel with the per-call props; prints its properties and
//                    the value of the macro VX the compiled kernel saw
// For every item the global settings are reset to the value they had at process start and the item's settings
// JSON is merged in (the same operation loadConfig() performs for the config file).
// Output per item (every line is  <tag> <one-line JSON or text>):
//   MODE <device.mode()>     D <device.properties()>
//   K0/M0/S0 <kernel|memory|streamProperties()>      K1/M1/S1 <...Properties(per-call props)>
//   SO/MO <properties() of the created stream / memory>     KO <kernel.properties()>   KV <int seen by the kernel>
//   KB <properties() of the kernel loaded with buildKernelFromBinary from the binary just built>
//   EXC <message>  when libocca raised occa::exception
#include <cstdio>
#include <cstdlib>
#include <cstring>
#include <fstream>
#include <iostream>
#include <string>
#include <vector>

#include <occa.hpp>
#include <occa/internal/utils/env.hpp>

static std::string oneLine(const occa::json &j) {
  std::string s = j.dump(0);
  std::string out;
  for (char ch : s) {
    if (ch == '\n' || ch == '\r') continue;
    out += ch;
  }
  return out;
}

static std::vector<std::string> splitTabs(const std::string &s) {
  std::vector<std::string> v;
  size_t a = 0;
  while (true) {
    size_t b = s.find('\t', a);
    if (b == std::string::npos) { v.push_back(s.substr(a)); break; }
    v.push_back(s.substr(a, b - a));
    a = b + 1;
  }
  return v;
}

static const char *KSRC =
  "#ifndef VX\n#define VX -1\n#endif\n"
  "@kernel void echo(int *out) {\n"
  "  for (int i = 0; i < 1; ++i; @tile(1, @outer, @inner)) {\n"
  "    out[i] = VX;\n"
  "  }\n"
  "}\n";

int main(int argc, char **argv) {
  if (argc < 2) return 2;
  std::ifstream in(argv[1]);
  std::string line;
  std::vector<std::string> items;
  while (std::getline(in, line)) items.push_back(line);

  // Force initialization, remember pristine settings
  const occa::json pristine = occa::settings();

  for (size_t i = 0; i < items.size(); ++i) {
    printf("BEGIN %zu\n", i);
    std::vector<std::string> f = splitTabs(items[i]);
    if (f.size() != 4) {
      printf("HARNESS bad item\nEND %zu\n", i);
      continue;
    }
    const std::string &flags = f[0];
    try {
      occa::settings() = pristine;
      occa::json extra = occa::json::parse(f[1]);
      if (extra.isObject() && extra.size()) {
        occa::settings() += extra;
      }
      const occa::json devProps = occa::json::parse(f[2]);
      const occa::json call = occa::json::parse(f[3]);
      {
        occa::device dev(devProps);
        printf("MODE %s\n", dev.mode().c_str());
        printf("D %s\n", oneLine(dev.properties()).c_str());
        printf("K0 %s\n", oneLine(dev.kernelProperties()).c_str());
        printf("M0 %s\n", oneLine(dev.memoryProperties()).c_str());
        printf("S0 %s\n", oneLine(dev.streamProperties()).c_str());
        printf("K1 %s\n", oneLine(dev.kernelProperties(call)).c_str());
        printf("M1 %s\n", oneLine(dev.memoryProperties(call)).c_str());
        printf("S1 %s\n", oneLine(dev.streamProperties(call)).c_str());
        if (flags.find('o') != std::string::npos) {
          occa::stream s = dev.createStream(call);
          printf("SO %s\n", oneLine(s.properties()).c_str());
          occa::memory m = dev.malloc<int>(1, call);
          printf("MO %s\n", oneLine(m.properties()).c_str());
        }
        if (flags.find('k') != std::string::npos) {
          occa::kernel k = dev.buildKernelFromString(KSRC, "echo", call);
          printf("KO %s\n", oneLine(k.properties()).c_str());
          int host = -7;
          occa::memory m = dev.malloc<int>(1);
          m.copyFrom(&host);
          k(m);
          dev.finish();
          m.copyTo(&host);
          printf("KV %d\n", host);
          // the same binary loaded again with the same per-call properties
          occa::kernel kb = dev.buildKernelFromBinary(k.binaryFilename(), "echo", call);
          printf("KB %s\n", oneLine(kb.properties()).c_str());
        }
      }
    } catch (occa::exception &e) {
      std::string msg = e.message;
      for (char &ch : msg) if (ch == '\n') ch = ' ';
      printf("EXC %s\n", msg.c_str());
    }
    occa::settings() = pristine;
    printf("END %zu\n", i);
    fflush(stdout);
  }
  return 0;
}
