// C12 driver: runs the real occa::lang::tokenizer_t over byte strings.
//
// Item forms (one per line of the file argv[1]):
//   E <hex>                 tokenise exactly this byte string; print one line per token
//   P <hexprefix> <k> <hexalphabet>
//                           tokenise prefix+s for every s of length 1..k over the alphabet (bytes),
//                           print an aggregate (counts, distinct token-kind sequences)
// Every string is tokenised twice:
//   variant A: copied into an exact-size malloc block (len+1, NUL terminated) -> ASan red zone is adjacent to
//              the terminator, so stepping over the NUL is a heap-buffer-overflow report
//   variant B: as the content of a heap-allocated lang::file_t (the way parser_t::parseFile feeds the
//              tokenizer; this enables fileOrigin::emptyLinesBefore/After) -> reads in front of the buffer
//              are reported
// Both variants must produce the same tokens (kind + value); a difference is reported as 'ABDIFF'.
#include <cstdio>
#include <cstdlib>
#include <cstring>
#include <fstream>
#include <iostream>
#include <set>
#include <sstream>
#include <string>
#include <vector>

#include "forkbatch.hpp"

#include <occa/utils/exception.hpp>
#include <occa/internal/io/output.hpp>
#include <occa/internal/lang/tokenizer.hpp>
#include <occa/internal/lang/token.hpp>

using namespace occa::lang;

static void quiet(const char *) {}

static std::string hex(const std::string &s) {
  static const char *d = "0123456789abcdef";
  std::string r;
  r.reserve(2 * s.size() + 1);
  for (unsigned char c : s) { r += d[c >> 4]; r += d[c & 15]; }
  if (r.empty()) r = "-";
  return r;
}

static std::string unhex(const std::string &h) {
  std::string r;
  if (h == "-") return r;
  for (size_t i = 0; i + 1 < h.size(); i += 2) {
    r += (char) strtol(h.substr(i, 2).c_str(), NULL, 16);
  }
  return r;
}

struct Tok {
  char kind;          // i identifier, p primitive, o operator, s string, c char, C comment, n newline, u unknown, ? other
  std::string value;  // canonical value representation
  std::string print;  // token_t::print
};

static Tok describe(token_t *t) {
  Tok r;
  r.kind = '?';
  const int ty = t->type();
  std::stringstream ss;
  if (ty == tokenType::identifier) {
    r.kind = 'i';
    ss << t->to<identifierToken>().value;
  } else if (ty == tokenType::primitive) {
    r.kind = 'p';
    primitiveToken &p = t->to<primitiveToken>();
    unsigned long long bits = 0;
    // value bits: copy sizeof_() bytes of the union (0 for none)
    const size_t n = (size_t) p.value.sizeof_();
    memcpy(&bits, &p.value.value, n > 8 ? 8 : n);
    ss << "type=" << p.value.type << ",bits=" << std::hex << bits << std::dec << ",str=" << p.strValue;
  } else if (ty == tokenType::op) {
    r.kind = 'o';
    operatorToken &o = t->to<operatorToken>();
    ss << o.op->str;
  } else if (ty == tokenType::string) {
    r.kind = 's';
    stringToken &s = t->to<stringToken>();
    ss << "enc=" << s.encoding << ",udf=" << s.udf << ",val=" << s.value;
  } else if (ty == tokenType::char_) {
    r.kind = 'c';
    charToken &c = t->to<charToken>();
    ss << "enc=" << c.encoding << ",udf=" << c.udf << ",val=" << c.value;
  } else if (ty == tokenType::comment) {
    r.kind = 'C';
    ss << t->to<commentToken>().value;
  } else if (ty == tokenType::newline) {
    r.kind = 'n';
  } else if (ty == tokenType::unknown) {
    r.kind = 'u';
    ss << t->origin.position.start[0];
  }
  r.value = ss.str();
  r.print = t->str();
  return r;
}

static tokenizer_t *TK = NULL;

// returns number of tokenizer errors
static int drain(std::vector<Tok> &out) {
  token_t *token = NULL;
  while (!TK->isEmpty()) {
    TK->setNext(token);
    if (!token) break;
    out.push_back(describe(token));
    delete token;
    token = NULL;
  }
  return TK->errors;
}

static int tokA(const std::string &s, std::vector<Tok> &out) {
  char *buf = (char *) malloc(s.size() + 1);
  memcpy(buf, s.data(), s.size());
  buf[s.size()] = '\0';
  TK->set(buf);
  const int e = drain(out);
  TK->clear();
  free(buf);
  return e;
}

static int tokB(const std::string &s, std::vector<Tok> &out) {
  file_t *f = new file_t(true, "c12-input");   // not reference counted (dontUseRefs), no file system access
  f->content = s;
  f->content.reserve(64);            // force a heap buffer (no SSO) so that reads in front of it are seen
  TK->set(f);
  const int e = drain(out);
  TK->clear();
  delete f;
  return e;
}

static bool same(const std::vector<Tok> &a, const std::vector<Tok> &b) {
  if (a.size() != b.size()) return false;
  for (size_t i = 0; i < a.size(); ++i) {
    if (a[i].kind != b[i].kind || a[i].value != b[i].value || a[i].print != b[i].print) return false;
  }
  return true;
}

static void runItem(long idx, const std::string &line) {
  std::istringstream ls(line);
  std::string mode, a;
  ls >> mode >> a;
  try {
    if (mode == "E") {
      const std::string s = unhex(a);
      std::vector<Tok> ta, tb;
      const int ea = tokA(s, ta);
      const int eb = tokB(s, tb);
      for (auto &t : ta) {
        printf("T %c %s %s\n", t.kind, hex(t.value).c_str(), hex(t.print).c_str());
      }
      printf("ERR %d %d\n", ea, eb);
      if (!same(ta, tb)) printf("ABDIFF %s\n", a.c_str());
    } else if (mode == "P") {
      int k = 0;
      std::string alh;
      ls >> k >> alh;
      const std::string prefix = unhex(a), al = unhex(alh);
      long nstr = 0, ntok = 0, nerr = 0;
      long kinds[256];
      memset(kinds, 0, sizeof(kinds));
      std::set<std::string> seqs;
      std::vector<std::string> cur(1, prefix);
      for (int len = 1; len <= k; ++len) {
        std::vector<std::string> nxt;
        nxt.reserve(cur.size() * al.size());
        for (auto &p : cur) for (char ch : al) nxt.push_back(p + ch);
        for (auto &s : nxt) {
          std::vector<Tok> ta, tb;
          const int ea = tokA(s, ta);
          tokB(s, tb);
          ++nstr;
          ntok += (long) ta.size();
          nerr += (ea > 0);
          std::string seq;
          for (auto &t : ta) { ++kinds[(unsigned char) t.kind]; seq += t.kind; }
          seqs.insert(seq);
          if (!same(ta, tb)) printf("ABDIFF %s\n", hex(s).c_str());
        }
        cur.swap(nxt);
      }
      printf("AGG %ld %ld %ld", nstr, ntok, nerr);
      for (int c = 0; c < 256; ++c) if (kinds[c]) printf(" %c=%ld", (char) c, kinds[c]);
      printf("\nSEQS");
      for (auto &s : seqs) printf(" %s", s.empty() ? "-" : s.c_str());
      printf("\n");
    } else if (mode == "OPS") {
      // dump OCCA's own operator table (keys of the tokenizer's trie)
      operatorTrie ops;
      getOperators(ops);
      ops.freeze();
      for (int i = 0; i < ops.size(); ++i) {
        printf("OP %s\n", hex(ops.values[i]->str).c_str());
      }
    } else {
      printf("BADITEM\n");
    }
  } catch (occa::exception &e) {
    printf("EXC occa %s\n", hex(e.message).c_str());
  } catch (std::exception &e) {
    printf("EXC std %s\n", hex(e.what()).c_str());
  }
}

int main(int argc, char **argv) {
  occa::io::stderr.setOverride(quiet);
  occa::io::stdout.setOverride(quiet);
  TK = new tokenizer_t();
  // items run in forked workers of this initialised process (see engines/forkbatch.hpp)
  const int rc = fb::run(argv[argc - 1], runItem, 60.0);
  delete TK;
  return rc;
}
