#!/usr/bin/env python3
"""C12: the tokenizer never crashes and re-reads its own token spellings (E2 bounded-exhaustive generation).

Part 1 (round trip): token alphabet T of (kind, spelling, feature) from the C/OKL lexical grammar.
   single   : tokenising the spelling alone gives exactly one token of the grammar's kind;
   reprint  : printing that token (token_t::print) and tokenising the print gives the same kind and value;
   sequence : all sequences of length <= 2 over T (and length 3 over a sub-alphabet), printed with whitespace
              between the tokens, tokenise to the same kinds and values (newline tokens are whitespace);
   munch    : operators (and identifier / number / literal) printed with NO whitespace are split by longest
              match: compared with a reference maximal-munch tokenizer over OCCA's own operator table.
Part 2 (totality): all byte strings up to a length over small alphabets (one symbol per lexer branch), each
   copied into an exact-size malloc block (variant A) and into a heap lang::file_t (variant B), tokenised to the
   end under ASan+UBSan with a watchdog.
"""
import itertools, json, os, re, sys
sys.path.insert(0, os.path.dirname(os.path.dirname(os.path.dirname(os.path.abspath(__file__)))))
from vlib.core import Check, san_env, load_replay
from vlib import batch
sys.path.insert(0, os.path.join(os.path.dirname(os.path.dirname(os.path.dirname(os.path.abspath(__file__)))), "engines"))
import forkbatch as fbp

HERE = os.path.dirname(os.path.abspath(__file__))

# ---------------------------------------------------------------------------------------------------------
# alphabets for totality (bytes)
S17 = b"a01.ex\"'\\/*\n <-#@"
S26 = S17 + b"\x80u8R()L_+"
PREFIXES = [b'R"(', b'u8R"x(', b'"ab', b"'a", b"/*", b"//", b"1e", b"0x", b'"\\', b"a\n", b'u8"', b"L'", b"#\n"]


def hx(b):
    return b.hex() if b else "-"


def unhx(h):
    return b"" if h == "-" else bytes.fromhex(h)


# ---------------------------------------------------------------------------------------------------------
# driver plumbing
class Runner:
    def __init__(self, c, exe, env):
        self.c, self.exe, self.env = c, exe, env
        self.n = 0
        self.cache = {}

    def run(self, items, chunk, per_item_timeout=2.0):
        self.n += 1
        wd = os.path.join(self.c.scratch, "run%d" % self.n)
        import time
        t0 = time.time()
        # the driver process needs seconds to start on a busy machine (ASan): never less than 180 s per process
        per_item_timeout = max(per_item_timeout, 180.0 / max(1, min(chunk, len(items))))
        res, complete = batch.run_items([self.exe], items, wd, self.env, chunk=chunk,
                                        per_item_timeout=per_item_timeout)
        if os.environ.get("C12_DEBUG_PART"):
            print("run%d: %d items chunk=%d %.1fs (t=%.1f)" % (self.n, len(items), chunk, time.time() - t0, self.c.elapsed()), file=sys.stderr)
        if not complete or len(res) != len(items):
            self.c.harness_error("driver run incomplete (%d of %d items)" % (len(res), len(items)))
        return res

    def prefetch(self, texts, chunk=6000):
        """Tokenise all texts in one driver run (few process starts); later tok() calls are answered from the cache."""
        todo = [t for t in dict.fromkeys(texts) if t not in self.cache]
        for t, d in zip(todo, self._tok(todo, chunk)):
            self.cache[t] = d

    def tok(self, texts, chunk=400):
        if all(t in self.cache for t in texts):
            return [self.cache[t] for t in texts]
        return self._tok(texts, chunk)

    def _tok(self, texts, chunk=400):
        """Tokenise every byte string; returns list of dict(tokens=[(kind,value,print)], crash, stderr, exc, abdiff)."""
        res = self.run(["E " + hx(t) for t in texts], chunk)
        out = []
        for r in res:
            crash, err = fbp.crash_of(r)
            d = {"tokens": [], "crash": crash, "stderr": fbp.symbolize(err) if crash else "", "exc": None, "abdiff": False, "err": None}
            for ln in r.lines:
                f = ln.split(" ")
                if f[0] == "T":
                    d["tokens"].append((f[1], unhx(f[2]), unhx(f[3])))
                elif f[0] == "EXC":
                    d["exc"] = f[1] + ":" + unhx(f[2]).decode("utf-8", "replace")[:200]
                elif f[0] == "ABDIFF":
                    d["abdiff"] = True
                elif f[0] == "ERR":
                    d["err"] = (int(f[1]), int(f[2]))
            out.append(d)
        return out


def crash_signature(crash, stderr):
    return fbp.crash_signature(crash, stderr)


# ---------------------------------------------------------------------------------------------------------
# token alphabet for the round trip
def token_alphabet(ops):
    T = []   # (kind, spelling(bytes), feature)

    def add(kind, sp, feat):
        T.append((kind, sp.encode() if isinstance(sp, str) else sp, feat))

    for s in ["a", "_b1", "x9", "ab_cd", "A"]:
        add("i", s, "ident")
    for s in ["int", "for", "return", "const", "if", "while", "struct", "void"]:
        add("i", s, "keyword")
    # identifiers that start with something the lexer treats specially
    for s in ["true1", "false_", "truex", "sizeofx", "newx", "u8x", "u8", "R", "L", "u", "U", "LR", "e1", "x0", "b1", "f"]:
        add("i", s, "ident-special-prefix")
    add("p", "true", "bool")
    add("p", "false", "bool")
    ints = ["0", "1", "42", "2147483648", "18446744073709551615", "017", "0x1F", "0X1f", "0xffffffff", "0b101", "0B1"]
    sufs = ["", "u", "U", "l", "L", "ul", "UL", "lu", "ll", "LL", "ull", "ULL", "uLL", "llu"]
    for s in ints:
        for u in sufs:
            add("p", s + u, "int" if not u else "int-suffix")
    floats = ["1.5", "1.", ".5", "0.0", "1e5", "1E5", "1e+5", "1e-5", "1.5e3", "1.5E-3", ".5e1", "1.e2"]
    for s in floats:
        for u in ["", "f", "F", "l", "L"]:
            add("p", s + u, "float" if not u else "float-suffix")
    for s in ["0x1p3", "0x1.8p-1", "0x1p3f"]:
        add("p", s, "hexfloat")
    chars = ["a", "\\n", "\\'", "\\\\", "\"", "\\x41", "\\0", "ab", " ", "\\'a", "a\\'"]
    for body in chars:
        feat = "char-leading-escaped-quote" if body.startswith("\\'") else ("char-escape" if "\\" in body else "char")
        for p in ["", "u", "U", "L"]:
            add("c", p + "'" + body + "'", feat if not p else feat + "-prefix")
    add("c", "'a'_c", "char-udf")
    strs = ["", "a", "a b", "\\n", "\\\"", "\\\"a", "a\\\"", "a\\\"b", "\\\\", "\\\\\\\"", "a\\\\", "'", "/*", "//", "\\\"\\\"", "\\t\\x41"]
    for body in strs:
        feat = "str-leading-escaped-quote" if body.startswith('\\"') else ("str-escape" if "\\" in body else "str")
        for p in ["", "u8", "u", "U", "L"]:
            add("s", p + '"' + body + '"', feat if not p else feat + "-prefix")
    add("s", '"a"_s', "str-udf")
    for s in ['R"(a)"', 'R"x(a)x"', 'u8R"(a)"', 'LR"(a b)"', 'R"()"', 'R"(\\)"', 'R"(a"b)"', 'R"x(a)"b)x"', 'R"(a\nb)"']:
        add("s", s, "rawstr")
    for o in ops:
        if o in (b"//", b"/*"):
            continue
        add("o", o, "op-word" if o[:1].isalpha() else "op")
    for s in ["/* c */", "/**/", "/* a * b */", "/* \" */", "/* ' */", "/* // */", "/***/", "/* a\nb */", "/*/ c */", "/*/*/"]:
        add("C", s, "block-comment")
    for s in ["// c", "//", "// \"a", "// /* x", "//c d"]:
        add("C", s, "line-comment")
    return T


def sub_alphabet(T, ops):
    """~20 tokens containing every operator-prefix chain plus one token of every other kind."""
    want = [b"+", b"++", b"+=", b"-", b"->", b"->*", b"<", b"<<", b"<<=", b"<<<", b".", b"...", b"#", b"##",
            b":", b"::", b"a", b"1", b".5", b'"a"', b"'a'", b"/* c */", b"// c", b"sizeof", b"sizeof...", b"=", b"/", b"*"]
    by = {t[1]: t for t in T}
    return [by[w] for w in want if w in by]


def pair_alphabet(good):
    """Representatives for the pair stage: every identifier/keyword/operator/comment token, and for literals the first
    two tokens of every feature class (the single/reprint stages run over the full alphabet)."""
    out, seen = [], {}
    for t in good:
        if t[0] in "ioC":
            out.append(t)
            continue
        n = seen.get(t[2], 0)
        if n < 2:
            out.append(t)
        seen[t[2]] = n + 1
    return out


def needs_newline_after(tok):
    return tok[2] == "line-comment"


def join_spaced(printed, toks, sep):
    out = b""
    for i, p in enumerate(printed):
        out += p
        if i + 1 < len(printed):
            out += b"\n" if needs_newline_after(toks[i]) else sep
    return out


# ---------------------------------------------------------------------------------------------------------
# reference maximal munch over OCCA's operator table (+ identifiers, decimal integers, simple literals)
IDS = set(b"abcdefghijklmnopqrstuvwxyzABCDEFGHIJKLMNOPQRSTUVWXYZ_")
IDC = IDS | set(b"0123456789")


def ref_munch(text, ops):
    """Reference tokenizer: returns list of (kind, spelling)."""
    opset = set(ops)
    maxlen = max(len(o) for o in ops)
    out, i, n = [], 0, len(text)
    while i < n:
        ch = text[i]
        if ch in b" \t":
            i += 1
            continue
        if ch == 0x0a:
            i += 1
            continue
        if ch in IDS:
            j = i + 1
            while j < n and text[j] in IDC:
                j += 1
            w = text[i:j]
            if w in opset:
                # word operators: longest operator starting here (sizeof...)
                best = w
                for L in range(maxlen, len(w), -1):
                    if text[i:i + L] in opset:
                        best = text[i:i + L]
                        break
                out.append(("o", best))
                i += len(best)
            else:
                out.append(("i", w))
                i = j
            continue
        if ch in b"0123456789":
            j = i + 1
            while j < n and text[j] in b"0123456789":
                j += 1
            out.append(("p", text[i:j]))
            i = j
            continue
        if ch in b"\"'":
            j = text.index(bytes([ch]), i + 1)
            out.append(("s" if ch == 0x22 else "c", text[i:j + 1]))
            i = j + 1
            continue
        best = None
        for L in range(min(maxlen, n - i), 0, -1):
            if text[i:i + L] in opset:
                best = text[i:i + L]
                break
        if best is None:
            out.append(("u", text[i:i + 1]))
            i += 1
        elif best == b"//":
            j = text.find(b"\n", i)
            j = n if j < 0 else j
            out.append(("C", text[i:j]))
            i = j
        elif best == b"/*":
            j = text.find(b"*/", i + 2)
            j = n if j < 0 else j + 2
            out.append(("C", text[i:j]))
            i = j
        else:
            out.append(("o", best))
            i += len(best)
    return out


def occa_kv(tokens):
    """(kind, value) list without newline tokens."""
    return [(k, v) for (k, v, p) in tokens if k != "n"]


def occa_spell(tokens):
    """(kind, spelling) list for the munch comparison: operators/identifiers/comments by value, literals by print."""
    out = []
    for (k, v, p) in tokens:
        if k == "n":
            continue
        out.append((k, v if k in "ioCu" else p))
    return out


# ---------------------------------------------------------------------------------------------------------
def judge_observation(c, d, text, where, replay, feat=""):
    """Crash / sanitizer / exception / A-B difference clauses common to every evaluation. True if clean."""
    if d["crash"]:
        sig = crash_signature(d["crash"], d["stderr"])
        c.violation(sig, "%s: tokenising %r: %s\n%s" % (where, text, d["crash"], (d["stderr"] or "")[:1500]), replay)
        return False
    if d["exc"]:
        c.violation("exception:" + re.sub(r"[^A-Za-z]+", "-", d["exc"])[:60], "%s: tokenising %r threw %s" % (where, text, d["exc"]), replay)
        return False
    if d["abdiff"]:
        c.violation("nondeterministic:malloc-vs-file-buffer", "%s: tokenising %r gives different tokens from a malloc block and from a file_t buffer" % (where, text), replay)
        return False
    return True


def fmt(tokens):
    return " ".join("%s:%s" % (k, v.decode("latin-1")) for (k, v) in tokens)


class RoundTrip:
    def __init__(self, c, R, ops):
        self.c, self.R, self.ops = c, R, ops
        self.T = token_alphabet(ops)
        self.info = {}       # spelling -> (kind, value, print)
        self.evals = 0
        self.kindseqs = set()
        self.masked = 0

    def singles(self):
        c, T = self.c, self.T
        res = self.R.tok([t[1] for t in T])
        self.evals += len(T)
        good = []
        for t, d in zip(T, res):
            kind, sp, feat = t
            rp = {"part": "single", "spelling": hx(sp), "kind": kind, "feature": feat}
            if not judge_observation(c, d, sp, "single token", rp):
                continue
            kv = occa_kv(d["tokens"])
            ok = len(kv) == 1 and kv[0][0] == kind and (kind not in "ioC" or kv[0][1] == sp)
            if not ok:
                c.violation("single:" + feat, "the %s token %r alone tokenises to [%s] instead of one %s token" % (
                    feat, sp.decode("latin-1"), fmt(kv), kind), rp)
                continue
            self.info[sp] = [t3 for t3 in d["tokens"] if t3[0] != "n"][0]
            good.append(t)
        # reprint: print of the token re-tokenises to the same kind and value
        res = self.R.tok([self.info[t[1]][2] for t in good])
        self.evals += len(good)
        good2 = []
        for t, d in zip(good, res):
            kind, sp, feat = t
            k0, v0, p0 = self.info[sp]
            rp = {"part": "reprint", "spelling": hx(sp), "kind": kind, "feature": feat}
            if not judge_observation(c, d, p0, "re-reading the print of %r" % sp, rp):
                continue
            kv = occa_kv(d["tokens"])
            if kv != [(k0, v0)]:
                c.violation("reprint:" + feat, "token %r (value %r) prints as %r which tokenises to [%s]" % (
                    sp.decode("latin-1"), v0.decode("latin-1"), p0.decode("latin-1"), fmt(kv)), rp)
                continue
            good2.append(t)
        self.masked = len(T) - len(good2)
        self.good = good2
        return good2

    def seq_texts(self, seqs, sep):
        return [join_spaced([self.info[t[1]][2] for t in s], s, sep) for s in seqs]

    def munch_texts(self, seqs):
        return [b"".join(self.info[t[1]][2] for t in s) for s in seqs]

    def sequences(self, seqs, sep, label):
        """seqs: list of tuples of alphabet entries (all singles-clean)."""
        c = self.c
        texts = self.seq_texts(seqs, sep)
        res = self.R.tok(texts, chunk=1500)
        self.evals += len(seqs)
        failed = set()
        nviol = 0
        for s, text, d in zip(seqs, texts, res):
            rp = {"part": "sequence", "spellings": [hx(t[1]) for t in s], "sep": hx(sep)}
            if not judge_observation(c, d, text, label, rp):
                failed.add(tuple(t[1] for t in s))
                continue
            kv = occa_kv(d["tokens"])
            self.kindseqs.add("".join(k for k, v in kv))
            exp = [(self.info[t[1]][0], self.info[t[1]][1]) for t in s]
            if kv != exp:
                key = tuple(t[1] for t in s)
                failed.add(key)
                # delta reduction: a triple is only reported if none of its adjacent pairs fails on its own
                if len(s) == 3 and ((key[0], key[1]) in self.failed_pairs or (key[1], key[2]) in self.failed_pairs):
                    continue
                i = 0
                while i < len(kv) and i < len(exp) and kv[i] == exp[i]:
                    i += 1
                i = min(i, len(s) - 1)
                feats = s[i][2] if i == 0 else s[i - 1][2] + "|" + s[i][2]
                nviol += 1
                c.violation("sequence:%s" % feats, "%s: tokens [%s] printed as %r tokenise to [%s]" % (
                    label, fmt(exp), text.decode("latin-1"), fmt(kv)), rp)
        return failed

    def munch(self, seqs, label):
        c, ops = self.c, self.ops
        texts = self.munch_texts(seqs)
        res = self.R.tok(texts, chunk=1500)
        self.evals += len(seqs)
        n_merge = 0
        for s, text, d in zip(seqs, texts, res):
            rp = {"part": "munch", "spellings": [hx(t[1]) for t in s]}
            if not judge_observation(c, d, text, label, rp):
                continue
            got = occa_spell(d["tokens"])
            exp = ref_munch(text, ops)
            if len(exp) < len(s):
                n_merge += 1
            self.kindseqs.add("".join(k for k, v in got))
            if got != exp:
                i = 0
                while i < len(got) and i < len(exp) and got[i] == exp[i]:
                    i += 1
                g = got[i] if i < len(got) else ("-", b"")
                e = exp[i] if i < len(exp) else ("-", b"")
                if g[0] != e[0]:
                    cls = "kind-%s-for-%s" % (g[0], e[0])
                elif len(g[1]) < len(e[1]):
                    cls = "shorter-than-longest-match"
                elif len(g[1]) > len(e[1]):
                    cls = "longer-than-reference"
                else:
                    cls = "other"
                c.violation("munch:" + cls, "%s: %r splits into [%s]; reference maximal munch over OCCA's operator table gives [%s]" % (
                    label, text.decode("latin-1"), fmt(got), fmt(exp)), rp)
        return n_merge


def adjacency_alphabet(T, ops):
    """Non-word operators + identifier a + number 1 + "s" + 'c' (comments arise from / / and / *)."""
    A = [t for t in T if t[0] == "o" and t[2] == "op"]
    by = {t[1]: t for t in T}
    A += [by[b"a"], by[b"1"], by[b'"a"'], by[b"'a'"]]
    return A


def adjacency_ok(s):
    """Exclude number next to a '.'-operator (that is a floating literal / pp-number, not operator munch) and
    identifier/number next to identifier/number/quote (merging words is not operator splitting)."""
    for x, y in zip(s, s[1:]):
        wx = x[0] in "ip"
        wy = y[0] in "ipsc"
        if wx and wy:
            return False
        if x[0] == "p" and y[1][:1] == b".":
            return False
        if x[1][-1:] == b"." and y[0] == "p":
            return False
    return True


# ---------------------------------------------------------------------------------------------------------
def totality(c, R, tier, deadline):
    fams = []   # (name, alphabet, maxlen, prefix)
    if tier == "quick":
        fams.append(("S17", S17, 5, b""))
        fams.append(("S26", S26, 4, b""))
        for p in PREFIXES:
            fams.append(("prefix", S17, 3, p))
    else:
        fams.append(("S17", S17, 6, b""))
        fams.append(("S26", S26, 5, b""))
        for p in PREFIXES:
            fams.append(("prefix", S17, 4, p))
    items, meta = [], []    # meta: (family index, kind, bytes)
    for fi, (name, al, n, pre) in enumerate(fams):
        lp = max(0, n - 3)           # P items enumerate 3 further symbols
        # exact items: all strings shorter than or equal to lp symbols after the prefix
        for L in range(0, lp + 1):
            for tup in itertools.product(al, repeat=L):
                s = pre + bytes(tup)
                items.append("E " + hx(s))
                meta.append((fi, "E", s))
        for tup in itertools.product(al, repeat=lp):
            s = pre + bytes(tup)
            items.append("P %s %d %s" % (hx(s), n - lp, hx(al)))
            meta.append((fi, "P", s))
    # P items are heavy (|al|+|al|^2+|al|^3 strings, two tokenisations each): small chunks
    order = list(range(len(items)))
    res = [None] * len(items)
    e_idx = [i for i in order if meta[i][1] == "E"]
    p_idx = [i for i in order if meta[i][1] == "P"]
    import time
    rr = R.run([items[i] for i in e_idx], 500, per_item_timeout=2.0)
    for i, r in zip(e_idx, rr):
        res[i] = r
    # groups in stages (generation order = simplest first); the wall-clock budget is checked between stages
    not_run = 0
    STAGE = 512
    for lo in range(0, len(p_idx), STAGE):
        part = p_idx[lo:lo + STAGE]
        if time.time() > deadline:
            not_run += len(part)
            continue
        rr = R.run([items[i] for i in part], 8, per_item_timeout=30.0)
        for i, r in zip(part, rr):
            res[i] = r
    nstr = ntok = nerr = 0
    kinds = {}
    seqs = set()
    crashed_groups = []
    groups_done = {}
    for i, r in enumerate(res):
        fi, kind, s = meta[i]
        if r is None:
            continue
        if kind == "P":
            groups_done[fi] = groups_done.get(fi, 0) + 1
        if kind == "E":
            nstr += 1
            crash, err = fbp.crash_of(r)
            d = {"crash": crash, "stderr": fbp.symbolize(err) if crash else "", "exc": None, "abdiff": False}
            toks = []
            for ln in r.lines:
                f = ln.split(" ")
                if f[0] == "T":
                    toks.append(f[1])
                elif f[0] == "EXC":
                    d["exc"] = f[1] + ":" + unhx(f[2]).decode("utf-8", "replace")[:200]
                elif f[0] == "ABDIFF":
                    d["abdiff"] = True
                elif f[0] == "ERR":
                    nerr += int(f[1]) > 0
            judge_observation(c, d, s, "totality", {"part": "totality", "hex": hx(s)})
            ntok += len(toks)
            for k in toks:
                kinds[k] = kinds.get(k, 0) + 1
            seqs.add("".join(toks))
            continue
        # P item
        if fbp.crash_of(r)[0]:
            crashed_groups.append(i)
            continue
        for ln in r.lines:
            f = ln.split(" ")
            if f[0] == "AGG":
                nstr += int(f[1]); ntok += int(f[2]); nerr += int(f[3])
                for kv in f[4:]:
                    k, v = kv.split("=")
                    kinds[k] = kinds.get(k, 0) + int(v)
            elif f[0] == "SEQS":
                seqs.update(x if x != "-" else "" for x in f[1:])
            elif f[0] == "ABDIFF":
                sx = unhx(f[1])
                c.violation("nondeterministic:malloc-vs-file-buffer", "tokenising %r gives different tokens from a malloc block and from a file_t buffer" % sx,
                            {"part": "totality", "hex": f[1]})
            elif f[0] == "EXC":
                c.violation("exception:in-group", "exception while tokenising an extension of %r: %s" % (s, unhx(f[2])[:200]),
                            {"part": "totality-group", "item": items[i]})
    # crash attribution inside groups: re-run the group's strings one by one, shortest first
    exact_groups = 0
    for gi in crashed_groups:
        fi, kind, s = meta[gi]
        name, al, n, pre = fams[fi]
        k = int(items[gi].split(" ")[2])
        if exact_groups >= 12:
            crash, err = fbp.crash_of(res[gi])
            err = fbp.symbolize(err)
            c.violation(crash_signature(crash, err), "crash while tokenising some extension (1..%d symbols) of %r: %s\n%s" % (
                k, s, crash, (err or "")[:1200]), {"part": "totality-group", "item": items[gi]})
            continue
        exact_groups += 1
        found = False
        for L in range(1, k + 1):
            strs = [s + bytes(t) for t in itertools.product(al, repeat=L)]
            rr = R.tok(strs, chunk=400)
            nstr += len(strs)
            for sx, d in zip(strs, rr):
                ntok += len(d["tokens"])
                seqs.add("".join(t[0] for t in d["tokens"]))
                if not judge_observation(c, d, sx, "totality", {"part": "totality", "hex": hx(sx)}):
                    found = True
            if found and L >= 2:
                break      # longer extensions of this group are not run (reported in the evidence)
        if not found:
            c.harness_error("group %s crashed but no single string of it does (nondeterministic crash?)" % items[gi])
    return {"strings": nstr, "tokens": ntok, "strings_with_tokenizer_error": nerr, "token_kinds": kinds,
            "kind_sequences": len(seqs), "seqs": seqs, "crashed_groups": len(crashed_groups),
            "groups_total": len(p_idx), "groups_not_run_budget": not_run, "complete": not_run == 0,
            "groups_completed_per_family": [groups_done.get(fi, 0) for fi in range(len(fams))],
            "families": [{"name": f[0], "alphabet": f[1].decode("latin-1"), "max_symbols": f[2], "prefix": f[3].decode("latin-1")} for f in fams]}


# ---------------------------------------------------------------------------------------------------------
def get_ops(c, R):
    r = R.run(["OPS"], 1)[0]
    ops = [unhx(ln.split(" ")[1]) for ln in r.lines if ln.startswith("OP ")]
    if len(ops) < 50:
        c.harness_error("operator table dump too small: %d" % len(ops))
    return sorted(set(ops))


def replay(c, R, ops, r):
    rp = r["replay"]
    part = rp["part"]
    before = len(c.violations)
    if part in ("totality",):
        s = unhx(rp["hex"])
        d = R.tok([s])[0]
        print("input %r -> tokens [%s] crash=%s" % (s, fmt(occa_kv(d["tokens"])), d["crash"]))
        if d["stderr"]:
            print(d["stderr"][:3000])
        judge_observation(c, d, s, "totality", rp)
    elif part == "totality-group":
        rr = R.run([rp["item"]], 1, per_item_timeout=60)[0]
        crash, err = fbp.crash_of(rr)
        err = fbp.symbolize(err)
        print("group %s -> crash=%s\n%s" % (rp["item"], crash, (err or "")[:3000]))
        if crash:
            c.violation(crash_signature(crash, err), "group crash", rp)
    else:
        rt = RoundTrip(c, R, ops)
        by = {t[1]: t for t in rt.T}
        if part in ("single", "reprint"):
            rt.T = [by[unhx(rp["spelling"])]]
            rt.singles()
        else:
            toks = [by[unhx(h)] for h in rp["spellings"]]
            rt.T = list({t[1]: t for t in toks}.values())
            rt.singles()
            rt.failed_pairs = set()
            if all(t[1] in rt.info for t in toks):
                if part == "sequence":
                    rt.sequences([tuple(toks)], unhx(rp["sep"]), "replay")
                else:
                    rt.munch([tuple(toks)], "replay")
    for v in c.violations[before:]:
        print("STILL FAILS [%s]: %s" % (v["sig"], v["detail"][:1500]))
    if len(c.violations) == before:
        print("replay: no violation observed")
    sys.exit(1 if len(c.violations) > before else 0)


def main():
    c = Check("C12", "exploration")
    c.build("asan")
    exe = c.compile(os.path.join(HERE, "driver.cpp"), "driver")
    env = fbp.asan_env(san_env(c.scratch))
    R = Runner(c, exe, env)
    ops = get_ops(c, R)
    if c.args.replay:
        replay(c, R, ops, load_replay(c.args.replay))
    deadline = c.t0 + c.budget(1800, 3600)   # safety net; an idle 16-core machine needs ~1 min (quick) / ~10 min (thorough)

    # ---- part 1: round trip ------------------------------------------------------------------------------
    rt = RoundTrip(c, R, ops)
    good = rt.singles()
    pal = pair_alphabet(good)
    pairs = list(itertools.product(pal, repeat=2))
    sub = [t for t in sub_alphabet(rt.T, ops) if t in good]
    triples = list(itertools.product(sub, repeat=3))
    adj = [t for t in adjacency_alphabet(rt.T, ops) if t in good]
    apairs = [s for s in itertools.product(adj, repeat=2) if adjacency_ok(s)]
    subadj = [t for t in sub if t in adj or t[1] in (b"a", b"1")]
    if c.tier == "thorough":
        atriples = [s for s in itertools.product(adj, repeat=3) if adjacency_ok(s)]
    else:
        atriples = [s for s in itertools.product(subadj, repeat=3) if adjacency_ok(s)]
    ones = [(t,) for t in good]
    # one driver run for all sequence texts (process starts of the ASan build are expensive)
    R.prefetch(rt.seq_texts(ones, b" ") + rt.seq_texts(pairs, b" ") + rt.seq_texts(pairs, b"\n") + rt.seq_texts(triples, b" ")
               + rt.seq_texts(triples, b" \t\n ") + rt.munch_texts(apairs) + rt.munch_texts(atriples))
    rt.failed_pairs = set()
    rt.sequences(ones, b" ", "single token with whitespace")
    rt.failed_pairs = rt.sequences(pairs, b" ", "pair separated by one space")
    rt.sequences(pairs, b"\n", "pair separated by a newline")
    rt.sequences(triples, b" ", "triple separated by spaces")
    rt.sequences(triples, b" \t\n ", "triple separated by mixed whitespace")
    n_merge = rt.munch(apairs, "adjacent pair")
    n_merge += rt.munch(atriples, "adjacent triple")
    c.vacuity(len(good) >= 0.5 * len(rt.T), "at least half of the token alphabet passes the single-token stage (%d of %d)" % (len(good), len(rt.T)))
    c.vacuity(n_merge >= 20, "adjacent operator sequences that the reference merges into longer operators: %d" % n_merge)
    c.vacuity(len(sub) >= 15, "triple sub-alphabet has %d tokens" % len(sub))

    if os.environ.get("C12_DEBUG_PART") == "rt":     # development aid only
        seen = {}
        for v in c.violations:
            seen.setdefault(v["sig"], []).append(v)
        for sg, vs in seen.items():
            print(len(vs), sg, "::", vs[0]["detail"][:400].replace("\n", " | "))
        print(len(rt.T), len(good), rt.evals, n_merge)
        sys.exit(3)
    # ---- part 2: totality ---------------------------------------------------------------------------------
    tot = totality(c, R, c.tier, deadline)
    seqs = tot.pop("seqs")
    c.vacuity(tot["kind_sequences"] >= 50, "distinct token-kind sequences in the totality part: %d" % tot["kind_sequences"])
    for k in "ipoCscnu":
        c.vacuity(tot["token_kinds"].get(k, 0) > 0, "totality part produced tokens of kind %s" % k)
    c.vacuity(tot["strings_with_tokenizer_error"] > 0, "totality part reached tokenizer error paths")

    c.set_exploration(
        evaluations=rt.evals + tot["strings"],
        distinct_nontrivial=len(rt.kindseqs | seqs),
        rule="bounded-exhaustive: every byte string up to the length bound over the listed alphabets (totality); every sequence "
             "of <=2 tokens over the token alphabet, <=3 over the sub-alphabet (round trip, spaced and adjacent)",
        samples=[repr(x[1])[:60] for x in (rt.T[0], rt.T[len(rt.T) // 2], rt.T[-1])] + ["\"abc", "'a", "u8R\"x(a"],
        exhaustive=tot["complete"],
        budget_hit=not tot["complete"],
        roundtrip={"token_alphabet": len(rt.T), "tokens_passing_single_and_reprint": len(good),
                   "masked_tokens": rt.masked, "pair_alphabet": len(pal), "pairs": len(pairs), "triples": len(triples),
                   "adjacent_pairs": len(apairs), "adjacent_triples": len(atriples),
                   "adjacent_sequences_merged_by_reference": n_merge, "operators_in_table": len(ops),
                   "evaluations": rt.evals, "distinct_kind_sequences": len(rt.kindseqs)},
        totality=tot,
        oracle="no crash / sanitizer report / exception / timeout; equal token kinds and values after print + re-tokenise; "
               "adjacent operators split as by maximal munch over OCCA's operator table",
    )
    c.assumptions += [
        "NUL cannot occur inside an input (the tokenizer API takes a C string)",
        "token values are compared as OCCA stores them (string/char value with encoding and udf suffix, primitive type + bits + spelling, operator spelling, comment text, identifier)",
        "newline tokens are whitespace and ignored when sequences are compared; a line comment is always followed by a newline",
        "tokens of the alphabet that fail alone (single/reprint) are reported once and not used in sequences (masked_tokens)",
    ]
    c.finish()


from vlib.core import run_main
run_main(main)
