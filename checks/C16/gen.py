"""C16 generators: deterministic, simplest first, no randomness.

Seeds are valid OKL kernels written as token lists (one string per token, '\n' = line break that is not a token), so
"token edit distance" is well defined without a tokenizer on the Python side.
"""
import itertools

NL = "\n"


def toks(src):
    """split a seed written with single blanks between tokens; a line break is kept as the pseudo token NL"""
    out = []
    for ln in src.strip().split("\n"):
        out.extend(ln.split())
        out.append(NL)
    return out


def render(tokens):
    out = []
    for t in tokens:
        if t == NL:
            out.append("\n")
        else:
            out.append(t)
            out.append(" ")
    return "".join(out)


# ---------------------------------------------------------------------------------------------------------------------
# 12 valid seed kernels: together they contain every OKL attribute and every statement kind of the front end
SEEDS = [
    ("basic", """
@ kernel void k ( const int N , float * a ) {
for ( int o = 0 ; o < N ; o += 4 ; @ outer ) {
for ( int i = 0 ; i < 4 ; ++ i ; @ inner ) {
a [ o + i ] = 1.5f ;
}
}
}"""),
    ("shared-barrier", """
@ kernel void k ( const int N , @ restrict int * a ) {
for ( int o = 0 ; o < N ; ++ o ; @ outer ) {
@ shared int s [ 8 ] ;
for ( int i = 0 ; i < 8 ; ++ i ; @ inner ) {
s [ i ] = a [ i ] ;
}
@ barrier ( ) ;
for ( int i = 0 ; i < 8 ; ++ i ; @ inner ) {
a [ i ] = s [ 7 - i ] ;
}
}
}"""),
    ("exclusive", """
@ kernel void k ( int * a ) {
for ( int o = 0 ; o < 2 ; ++ o ; @ outer ) {
@ exclusive int e ;
for ( int i = 0 ; i < 4 ; ++ i ; @ inner ) {
e = i ;
}
for ( int i = 0 ; i < 4 ; ++ i ; @ inner ) {
a [ i ] = e ;
}
}
}"""),
    ("tile", """
@ kernel void k ( const int N , float * a ) {
for ( int i = 0 ; i < N ; ++ i ; @ tile ( 16 , @ outer , @ inner , check = true ) ) {
a [ i ] = 0 ;
}
}"""),
    ("dim", """
typedef float * mat @ dim ( 4 , 4 ) ;
@ kernel void k ( mat a , int * b @ dim ( 2 , 2 ) @ dimOrder ( 1 , 0 ) ) {
for ( int o = 0 ; o < 4 ; ++ o ; @ outer ) {
for ( int i = 0 ; i < 4 ; ++ i ; @ inner ) {
a ( o , i ) = b ( 1 , 0 ) ;
}
}
}"""),
    ("atomic", """
@ kernel void k ( int * a ) {
for ( int o = 0 ; o < 4 ; ++ o ; @ outer ) {
for ( int i = 0 ; i < 4 ; ++ i ; @ inner ) {
@ atomic a [ 0 ] += i ;
@ atomic a [ 1 ] ++ ;
}
}
}"""),
    ("nested", """
@ kernel void k ( const int N , const int M , double * a ) {
for ( int y = 0 ; y < M ; ++ y ; @ outer ( 1 ) ) {
for ( int x = 0 ; x < N ; ++ x ; @ outer ( 0 ) ) {
for ( int j = 0 ; j < 2 ; ++ j ; @ inner ( 1 ) ) {
for ( int i = 0 ; i < 2 ; ++ i ; @ inner ( 0 ) ) {
a [ y * N + x ] = i + j ;
}
}
}
}
}"""),
    ("control-flow", """
@ kernel void k ( const int N , int * a ) {
for ( int o = 0 ; o < N ; ++ o ; @ outer ) {
for ( int i = 0 ; i < 4 ; ++ i ; @ inner ) {
int t = 0 , u = 1 ;
if ( i < 2 ) { t = 1 ; } else if ( i > 2 ) { t = 2 ; } else t = 3 ;
while ( t < 3 ) { ++ t ; if ( t == 2 ) break ; }
do { -- t ; } while ( t > 0 ) ;
for ( int j = 0 ; j < 2 ; ++ j ) { if ( j ) continue ; u += j ; }
switch ( t ) { case 0 : u = 2 ; break ; default : u = 3 ; }
a [ o ] = t ? u : - u ;
}
}
}"""),
    ("helper-struct", """
# define W 4
struct vec { float x , y ; } ;
float f ( const float v ) { return v * 2 ; }
@ kernel void k ( float * a ) {
for ( int o = 0 ; o < W ; ++ o ; @ outer ) {
for ( int i = 0 ; i < W ; ++ i ; @ inner ) {
struct vec p ;
p . x = f ( a [ i ] ) ;
a [ i ] = p . x + ( float ) o ;
}
}
}"""),
    ("launch-hints", """
@ kernel void k ( const int N , float * a ) {
for ( int o = 0 ; o < N ; ++ o ; @ outer ) {
@ shared float s [ 2 ] [ 4 ] ;
for ( int i = 0 ; i < 4 ; ++ i ; @ inner @ nobarrier ) {
s [ 0 ] [ i ] = a [ i ] ;
}
for ( int i = 0 ; i < 4 ; ++ i ; @ inner ) {
a [ i ] = s [ 0 ] [ i ] ;
}
}
}
@ kernel void k2 ( float * a ) {
@ max_inner_dims ( 4 ) for ( int o = 0 ; o < 4 ; ++ o ; @ outer @ simd_length ( 4 ) ) {
for ( int i = 3 ; i >= 0 ; -- i ; @ inner ) {
a [ i ] = i ;
}
}
}"""),
    ("preprocessor", """
# if defined ( OCCA_USING_GPU ) && ! defined ( Q )
# define S( x ) ( x + 1 )
# else
# define S( x ) x
# endif
@ kernel void k ( int * a ) {
# pragma occa attributes @ outer
for ( int o = 0 ; o < S ( 3 ) ; ++ o ) {
for ( int i = 0 ; i < 2 ; ++ i ; @ inner ) {
a [ i ] = __LINE__ + sizeof ( a [ 0 ] ) ;
}
}
}"""),
    ("multi-outer", """
const int G = 3 ;
@ kernel void k ( const long n , unsigned char * a , const float * b ) {
const int n2 = 2 * n ;
for ( long o = 0 ; o < n2 ; o ++ ; @ outer ) {
for ( int i = 0 ; i < G ; i ++ ; @ inner ) {
a [ i ] = ( unsigned char ) b [ o ] ;
}
}
for ( int o = n ; o > 0 ; o -= 2 ; @ outer ) {
for ( int i = 0 ; 4 > i ; i += 1 ; @ inner ) {
goto end ;
end : a [ i ] = 'c' ;
}
}
}"""),
]

# a 13th seed that only the host translators accept (CUDA/HIP reject general @atomic blocks with an error)
SEEDS.append(("atomic-block", """
@ kernel void k ( int * a ) {
for ( int o = 0 ; o < 4 ; ++ o ; @ outer ) {
for ( int i = 0 ; i < 4 ; ++ i ; @ inner ) {
@ atomic { a [ 1 ] = a [ 1 ] + 1 ; }
}
}
}"""))

HOST_ONLY_SEEDS = ("atomic-block",)

# replacement alphabet (one representative per lexical / syntactic role)
ALPHABET = ["(", ")", "{", "}", "[", "]", "@", ";", ",", "#", ":", "=", "<", "++", "*", ".",
            "for", "if", "else", "return", "break", "int", "void", "struct",
            "outer", "inner", "shared", "kernel", "tile", "barrier",
            "0", "1.5f", "\"s\"", "zz"]

# smaller alphabet for the distance-2 window family (both edits)
ALPHA2 = ["(", ")", "{", "[", "@", ";", ",", "for", "int", "0"]


def real_positions(tokens):
    return [i for i, t in enumerate(tokens) if t != NL]


def edits1(tokens, alphabet=ALPHABET, ops=("del", "dup", "swap", "trunc", "rep")):
    """every program at token edit distance 1: yields (description, token list)"""
    pos = real_positions(tokens)
    for k, i in enumerate(pos):
        t = tokens[i]
        if "del" in ops:
            yield ("del@%d" % k, tokens[:i] + tokens[i + 1:])
        if "dup" in ops:
            yield ("dup@%d" % k, tokens[:i] + [t, t] + tokens[i + 1:])
        if "swap" in ops and k + 1 < len(pos):
            j = pos[k + 1]
            if tokens[j] != t:
                n = list(tokens)
                n[i], n[j] = n[j], n[i]
                yield ("swap@%d" % k, n)
        if "trunc" in ops and k + 1 < len(pos):
            yield ("trunc@%d" % k, tokens[:i + 1])
        if "rep" in ops:
            for a in alphabet:
                if a != t:
                    yield ("rep@%d:%s" % (k, a), tokens[:i] + [a] + tokens[i + 1:])


def apply_edit(tokens, pos, k, op, a=None):
    """one edit on the k-th real token (positions recomputed by the caller); returns None if not applicable"""
    if k >= len(pos):
        return None
    i = pos[k]
    t = tokens[i]
    if op == "del":
        return tokens[:i] + tokens[i + 1:]
    if op == "dup":
        return tokens[:i] + [t, t] + tokens[i + 1:]
    if op == "swap":
        if k + 1 >= len(pos) or tokens[pos[k + 1]] == t:
            return None
        n = list(tokens)
        j = pos[k + 1]
        n[i], n[j] = n[j], n[i]
        return n
    if op == "rep":
        if a == t:
            return None
        return tokens[:i] + [a] + tokens[i + 1:]
    return None


def edits2_window(tokens, window=6, alphabet=ALPHA2):
    """every program obtained by two edits whose positions (in the original token numbering) are < window apart;
    the first edit is at k1, the second at k2 in (k1, k1+window) of the ORIGINAL numbering (mapped through the first
    edit), edits = del / dup / swap / rep(alphabet)."""
    pos0 = real_positions(tokens)
    n = len(pos0)
    ops = [("del", None), ("dup", None), ("swap", None)] + [("rep", a) for a in alphabet]
    for k1 in range(n):
        for (op1, a1) in ops:
            t1 = apply_edit(tokens, pos0, k1, op1, a1)
            if t1 is None:
                continue
            shift = {"del": -1, "dup": 1}.get(op1, 0)
            pos1 = real_positions(t1)
            for k2o in range(k1 + 1, min(n, k1 + window)):
                k2 = k2o + shift
                for (op2, a2) in ops:
                    t2 = apply_edit(t1, pos1, k2, op2, a2)
                    if t2 is None:
                        continue
                    yield ("%s@%d%s+%s@%d%s" % (op1, k1, ":" + a1 if a1 else "", op2, k2o, ":" + a2 if a2 else ""), t2)


# ---------------------------------------------------------------------------------------------------------------------
# raw byte strings wrapped into a kernel body (the C12 family seen through the whole front end)
BYTES_A = ["a", "1", "(", ")", "{", "}", "[", "@", ";", "\"", "#", "\n", "\\", "'", ",", "*", "<", "/"]
BYTES_B = ["a", "(", "{", "[", "@", ";", "\"", "#", "\n", "\\"]

WRAPS = [
    ("inner-body", "@kernel void k(int *a) {\n  for (int o = 0; o < 2; ++o; @outer) {\n    for (int i = 0; i < 2; ++i; @inner) {\n      %s\n    }\n  }\n}\n"),
    ("top-level", "%s\n@kernel void k(int *a) {\n  for (int o = 0; o < 2; ++o; @outer) {\n    for (int i = 0; i < 2; ++i; @inner) {\n      a[i] = o;\n    }\n  }\n}\n"),
    ("raw", "%s"),
]


def byte_strings(alphabet, maxlen, minlen=0):
    for n in range(minlen, maxlen + 1):
        for tup in itertools.product(alphabet, repeat=n):
            yield "".join(tup)
