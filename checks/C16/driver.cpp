// C16 driver: every item (one OKL program text) is parsed and transformed by the seven real translators in-process.
//
// Item line:  <flags> <hex of program text>
//   flags: 'R' reuse the per-process parsers (bulk), 'N' construct a new parser per (program, translator) (solo re-runs,
//          replay), optionally followed by a mode mask as decimal digits, e.g. "R0123456" (default all seven).
// Result lines per item:
//   M <mode> <status S|F|X|E|?> <errors> <outBytes> <outHash> <hex firstError>
//   U <hex>        text that a sanitizer wrote to stderr while the item ran (UBSan reports are recoverable)
// A crash / abort / hang of the worker is reported by engines/forkbatch.hpp as XCRASH / XSTDERR.
// argv: <items file> [wall-clock watchdog seconds per item (default 10)] [CPU seconds per item (default 5)]:
// an item that uses more CPU time than the limit is ended by SIGPROF (reported as XCRASH signal:27 = hang candidate).
#include <cstdio>
#include <cstdlib>
#include <cstring>
#include <string>

#include <sys/time.h>
#include <unistd.h>

#include "forkbatch.hpp"
#include "okl7.hpp"

static std::string readFrom(int fd, off_t from) {
  std::string s;
  char buf[4096];
  ssize_t k;
  off_t pos = from;
  while ((k = pread(fd, buf, sizeof(buf), pos)) > 0 && s.size() < 8192) {
    s.append(buf, (size_t) k);
    pos += k;
  }
  return s;
}

static double cpuLimit = 5.0;   // CPU seconds per item (user+system); the default action of SIGPROF ends the worker

static void armCpuTimer(double seconds) {
  struct itimerval it;
  memset(&it, 0, sizeof(it));
  it.it_value.tv_sec = (long) seconds;
  it.it_value.tv_usec = (long) ((seconds - (long) seconds) * 1e6);
  setitimer(ITIMER_PROF, &it, NULL);
}

static void item(long index, const std::string &line) {
  armCpuTimer(cpuLimit);
  size_t sp = line.find(' ');
  if (sp == std::string::npos) { printf("BADITEM\n"); return; }
  const std::string flags = line.substr(0, sp);
  const std::string text = okl7::unhex(line.substr(sp + 1));
  const bool fresh = flags[0] == 'N';
  bool mask[okl7::MODES];
  bool any = false;
  for (int m = 0; m < okl7::MODES; ++m) mask[m] = false;
  for (size_t i = 1; i < flags.size(); ++i) {
    if (flags[i] >= '0' && flags[i] < '0' + okl7::MODES) { mask[flags[i] - '0'] = true; any = true; }
  }
  const off_t before = lseek(2, 0, SEEK_END);
  for (int m = 0; m < okl7::MODES; ++m) {
    if (any && !mask[m]) continue;
    printf("m %d\n", m);      // progress marker: the translator in which a crash happens
    fflush(stdout);
    okl7::Result r = okl7::run(m, text, fresh);
    printf("M %d %c %d %zu %016llx %s\n", m, r.status, r.errors, r.outBytes, r.outHash,
           okl7::hexOf(r.firstError).c_str());
  }
  armCpuTimer(0);
  if (before >= 0) {
    std::string err = readFrom(2, before);
    if (err.find("runtime error:") != std::string::npos || err.find("Sanitizer") != std::string::npos) {
      printf("U %s\n", okl7::hexOf(err.substr(0, 3000)).c_str());
    }
  }
}

int main(int argc, char **argv) {
  if (argc < 2) return 2;
  double timeout = 10.0;
  if (argc > 2) timeout = atof(argv[2]);
  if (argc > 3) cpuLimit = atof(argv[3]);
  okl7::installCapture();
  return fb::run(argv[1], item, timeout);
}
