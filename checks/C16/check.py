#!/usr/bin/env python3
"""C16: the OKL front end reports malformed input instead of crashing (E2, deviation-bounded exhaustive generation).

Model-checking reading of "any input text": every program within token-edit distance 1 of 13 valid seed kernels
(delete / duplicate / swap-with-next / truncate-after / replace by each token of a 34-token alphabet), distance 2 inside
a sliding 6-token window (thorough), and every byte string up to a length over small alphabets wrapped into a kernel
body / put in front of a kernel / alone.  Every program is parsed and transformed by all seven translators in-process.

Oracle (exactly the property): each translator returns with success, with errors, or throws occa::exception; never a
signal, an abort, a sanitizer report, a foreign exception or a hang (more than CPU_LIMIT seconds of CPU time, confirmed
by running the program alone on fresh parsers).

Two passes, stated in the evidence:
  rel  : ALL programs (libocca -O1 without sanitizers; a parse costs ~5 ms) - catches signals, aborts, hangs, foreign
         exceptions; every crash candidate is re-run alone on freshly constructed parsers under ASan+UBSan to confirm it
         and to obtain the signature (sanitizer error kind + innermost occa:: frame).
  asan : a deterministic subset (ASan makes a parse ~50x slower): all seeds, the first K programs of every distinct
         outcome class observed in the rel pass (outcome class = verdict vector + first error message), every rel crash
         candidate, and every 1-deviation program of the first seed(s).
"""
import os, re, sys, time
sys.path.insert(0, os.path.dirname(os.path.dirname(os.path.dirname(os.path.abspath(__file__)))))
HERE = os.path.dirname(os.path.abspath(__file__))
sys.path.insert(0, HERE)
sys.path.insert(0, os.path.join(os.path.dirname(os.path.dirname(HERE)), "engines"))
from vlib.core import Check, san_env, load_replay
from vlib import batch
import forkbatch as fbp
import gen

MODES = ["serial", "openmp", "cuda", "hip", "opencl", "metal", "dpcpp"]
CPU_LIMIT_REL = 5.0        # the property's bound
CPU_LIMIT_ASAN = 120.0     # same bound scaled by the measured ASan slowdown of the parser (>= 24x)
CONFIRM_CAP = 120


def hx(s):
    b = s.encode("latin-1") if isinstance(s, str) else s
    return b.hex() if b else "-"


def unhx(h):
    return "" if h == "-" else bytes.fromhex(h).decode("utf-8", "replace")


class Runner:
    def __init__(self, c, exe, env, cpu_limit, wall):
        self.c, self.exe, self.env, self.cpu, self.wall = c, exe, env, cpu_limit, wall
        self.n = 0

    def run(self, texts, flags="R", chunk=400, deadline=None):
        """flags: str (same for all) or list of per-item flag strings"""
        self.n += 1
        if isinstance(flags, str):
            flags = [flags] * len(texts)
        items = [f + " " + hx(t) for f, t in zip(flags, texts)]
        wd = os.path.join(self.c.scratch, "run%d" % self.n)
        res, complete = batch.run_items([self.exe], items, wd, self.env, chunk=chunk, per_item_timeout=4 * self.wall,
                                        extra_args=[str(self.wall), str(self.cpu)], deadline=deadline)
        out = []
        for r in res:
            crash, err = fbp.crash_of(r)
            d = {"crash": crash, "stderr": err if crash else "", "modes": {}, "ubsan": None}
            for ln in r.lines:
                f = ln.split(" ")
                if f[0] == "M" and len(f) >= 7:
                    d["modes"][int(f[1])] = {"status": f[2], "errors": int(f[3]), "bytes": int(f[4]), "hash": f[5], "msg": unhx(f[6])}
                elif f[0] == "U":
                    d["ubsan"] = unhx(f[1])
            out.append(d)
        return out, (complete and len(out) == len(items))


def outcome_class(d):
    if d["crash"]:
        return ("crash", d["crash"])
    vec = "".join(d["modes"][m]["status"] if m in d["modes"] else "!" for m in range(7))
    first = next((d["modes"][m]["msg"] for m in range(7) if m in d["modes"] and d["modes"][m]["status"] != "S"), "")
    first = re.sub(r"\[[^\]]*\]", "[]", first)
    first = re.sub(r"[0-9]+", "#", first)
    return (vec, first[:80])


def crash_signature(crash, st):
    """crash:<sanitizer error kind | signal>:<innermost frame that is a function of namespace occa>"""
    kind = crash or "crash"
    m = re.search(r"ERROR: AddressSanitizer: ([A-Za-z0-9_-]+)", st or "")
    if m:
        kind = m.group(1)
    elif crash and crash.startswith("signal:"):
        kind = {"8": "SIGFPE", "11": "SIGSEGV", "6": "SIGABRT", "4": "SIGILL", "7": "SIGBUS"}.get(crash[7:], crash)
    fn = "?"
    for m in re.finditer(r"#\d+ (?:0x[0-9a-f]+ )?in ([^\n]*)", st or ""):
        f = m.group(1).strip()
        if f.startswith("occa::"):
            fn = re.sub(r"\(.*", "", f).strip()
            fn = re.sub(r"<.*", "", fn)
            break
    return "crash:%s:%s" % (kind, fn)


def ubsan_signature(text):
    """ubsan:<check kind>:<file>:<line> of the first report"""
    m = re.search(r"([A-Za-z0-9_./+-]+):(\d+):\d+: runtime error: ([^\n]*)", text)
    if not m:
        return "ubsan:unparsed"
    f = os.path.basename(m.group(1))
    msg = m.group(3)
    kind = "other"
    for k, pat in [("invalid-downcast", "downcast"), ("null-pointer", "null pointer"), ("signed-overflow", "signed integer overflow"),
                   ("shift", "shift"), ("misaligned", "misaligned"), ("bool-load", "not a valid value for type 'bool'"),
                   ("enum-load", "not a valid value for type"), ("index-out-of-bounds", "out of bounds"),
                   ("member-call-on-wrong-type", "member call on address"), ("member-access-wrong-type", "member access within"),
                   ("division-by-zero", "division by zero"), ("float-cast-overflow", "outside the range of representable"),
                   ("unreachable", "unreachable"), ("negation-overflow", "negation of")]:
        if pat in msg:
            kind = k
            break
    return "ubsan:%s:%s:%s" % (kind, f, m.group(2))


def dbg(msg):
    if os.environ.get("C16_DEBUG"):
        print("[C16] " + msg, file=sys.stderr)
        sys.stderr.flush()


def main():
    c = Check("C16", "exploration")
    quick = c.tier == "quick"
    c.build("rel")
    c.build("asan")
    from concurrent.futures import ThreadPoolExecutor
    with ThreadPoolExecutor(max_workers=2) as ex:       # the two harness compiles are independent
        f_rel = ex.submit(c.compile, os.path.join(HERE, "driver.cpp"), "driver-rel", variant="rel", extra=["-fsanitize=undefined"])
        f_asan = ex.submit(c.compile, os.path.join(HERE, "driver.cpp"), "driver-asan", variant="asan")
        exe_rel, exe_asan = f_rel.result(), f_asan.result()
    env = fbp.asan_env(san_env(c.scratch))
    R_rel = Runner(c, exe_rel, env, CPU_LIMIT_REL, 60.0)
    R_asan = Runner(c, exe_asan, env, CPU_LIMIT_ASAN, 600.0)

    def confirm_all(texts):
        """run every program alone, one translator per item, on freshly constructed parsers under ASan+UBSan (one batch,
        16-way parallel); returns for every text the list of (signature, detail) - empty when nothing reproduces"""
        if not texts:
            return []
        items, flags = [], []
        for t in texts:
            for m in range(7):
                items.append(t)
                flags.append("N%d" % m)
        res, complete = R_asan.run(items, flags, chunk=max(7, min(70, 7 * (len(texts) // 32 + 1))))
        if not complete:
            c.harness_error("confirmation run incomplete")
        out = []
        for ti, t in enumerate(texts):
            by_sig = {}
            for m in range(7):
                d = res[7 * ti + m]
                if d["crash"]:
                    st = fbp.symbolize(d["stderr"])
                    if d["crash"] in ("signal:27", "timeout"):
                        sig = "hang:cpu-limit"
                    else:
                        sig = crash_signature(d["crash"], st)
                    by_sig.setdefault(sig, []).append((m, d["crash"], st))
                elif m in d["modes"] and d["modes"][m]["status"] in "E?":
                    by_sig.setdefault("foreign-exception:" + re.sub(r"[^A-Za-z:_]+", "-", d["modes"][m]["msg"])[:50], []).append((m, "exception", d["modes"][m]["msg"]))
                elif d["ubsan"]:
                    by_sig.setdefault(ubsan_signature(fbp.symbolize(d["ubsan"])), []).append((m, "ubsan", fbp.symbolize(d["ubsan"])))
            found = []
            for sig, lst in by_sig.items():
                found.append((sig, "translators %s: %s\n%s" % ([MODES[m] for m, _, _ in lst], lst[0][1], lst[0][2][:1800])))
            out.append(found)
        return out

    def confirm(text):
        return confirm_all([text])[0]

    if c.args.replay:
        r = load_replay(c.args.replay)["replay"]
        text = r["text"]
        print(text)
        res, _ = R_rel.run([text] * 7, ["N%d" % m for m in range(7)], chunk=7)
        bad = False
        for m, d in enumerate(res):
            x = d["modes"].get(m)
            print("  rel  %-7s %s" % (MODES[m], ("crash " + d["crash"]) if d["crash"] else "%s %s" % (x["status"], x["msg"][:100])))
            if d["crash"] or (x and x["status"] in "E?"):
                bad = True
        for sig, detail in confirm(text):
            print("FAILS:", sig, "::", detail[:1500])
            bad = True
        sys.exit(1 if bad else 0)

    # ------------------------------------------------------------------------------------------------------------
    # generation
    seeds = [(name, gen.toks(src)) for name, src in gen.SEEDS]
    fam = []      # (family, description, text)
    for name, tk in seeds:
        fam.append(("seed", name, gen.render(tk)))
    d1_full = seeds[:3] if quick else seeds
    d1_struct = [] if not quick else seeds[3:]
    for name, tk in d1_full:
        for desc, t2 in gen.edits1(tk):
            fam.append(("edit1", "%s:%s" % (name, desc), gen.render(t2)))
    for name, tk in d1_struct:     # quick tier: the four alphabet-free edits on the other seeds
        for desc, t2 in gen.edits1(tk, ops=("del", "dup", "swap", "trunc")):
            fam.append(("edit1", "%s:%s" % (name, desc), gen.render(t2)))
    if not quick:
        for name, tk in seeds[:4]:
            for desc, t2 in gen.edits2_window(tk):
                fam.append(("edit2", "%s:%s" % (name, desc), gen.render(t2)))
    blen_a, blen_b = (2, 3) if quick else (3, 4)
    for wname, wrap in gen.WRAPS:
        for s in gen.byte_strings(gen.BYTES_A, blen_a):
            fam.append(("bytes", "%s:A:%s" % (wname, s.encode().hex() or "-"), wrap.replace("%s", s)))
        for s in gen.byte_strings(gen.BYTES_B, blen_b, minlen=blen_a + 1):
            fam.append(("bytes", "%s:B:%s" % (wname, s.encode().hex()), wrap.replace("%s", s)))
    # de-duplicate by text, keep the first (simplest) description
    seen, progs = set(), []
    for f in fam:
        if f[2] in seen:
            continue
        seen.add(f[2])
        progs.append(f)
    texts = [p[2] for p in progs]

    # ------------------------------------------------------------------------------------------------------------
    # pass 1: everything on the rel build
    t_start = time.time()      # budgets count from here: building libocca and the drivers is not exploration
    deadline = t_start + c.budget(400, 2400)
    t1 = time.time()
    res, complete = R_rel.run(texts, "R", chunk=max(50, min(400, len(texts) // 64)), deadline=deadline)
    rel_wall = time.time() - t1
    dbg("rel pass: %d of %d programs in %.0f s" % (len(res), len(texts), rel_wall))
    n_done = len(res)
    if not complete and n_done < len(seeds):
        c.harness_error("rel pass did not even cover the seeds")

    viol_texts = {}     # text -> list of (sig, detail)
    classes = {}
    candidates = []
    ubsan_hits = []     # (program, report): UBSan reports are recoverable and de-duplicated per source location and
    #                     process, so they are taken from the run in which they appear instead of being re-confirmed
    counts = {"S": 0, "F": 0, "X": 0}
    seed_ok = 0
    for p, d in zip(progs, res):
        oc = outcome_class(d)
        classes.setdefault(oc, []).append(p)
        if d["crash"] or any(x["status"] in "E?" for x in d["modes"].values()):
            candidates.append(p)
        elif d["ubsan"]:
            ubsan_hits.append((p, d["ubsan"]))
        for x in d["modes"].values():
            if x["status"] in counts:
                counts[x["status"]] += 1
        if p[0] == "seed" and not d["crash"] and all(d["modes"].get(m, {}).get("status") == "S" for m in (range(2) if p[1] in gen.HOST_ONLY_SEEDS else range(7))):
            seed_ok += 1

    # ------------------------------------------------------------------------------------------------------------
    # pass 2: ASan+UBSan subset
    K = 1 if quick else 4
    subset, sub_seen = [], set()

    def add(p):
        if p[2] not in sub_seen:
            sub_seen.add(p[2])
            subset.append(p)
    for p in progs:
        if p[0] == "seed":
            add(p)
    for oc in sorted(classes, key=lambda k: classes[k][0][1]):
        for p in classes[oc][:K]:
            add(p)
    n_class_reps = len(subset)
    if not quick:
        first = seeds[0][0] + ":"
        for p in progs:
            if p[0] == "edit1" and p[1].startswith(first):
                add(p)
    cand_set = set(p[2] for p in candidates)
    subset = [p for p in subset if p[2] not in cand_set]     # candidates are confirmed one by one below
    asan_deadline = time.time() + c.budget(400, 2400)
    t2 = time.time()
    ares, acomplete = R_asan.run([p[2] for p in subset], "R", chunk=max(4, min(40, len(subset) // 48)), deadline=asan_deadline)
    asan_wall = time.time() - t2
    dbg("asan pass: %d of %d programs in %.0f s; %d candidates" % (len(ares), len(subset), asan_wall, len(candidates)))
    for p, d in zip(subset, ares):
        if d["crash"] or any(x["status"] in "E?" for x in d["modes"].values()):
            if p[2] not in cand_set:
                cand_set.add(p[2])
                candidates.append(p)
        elif d["ubsan"]:
            ubsan_hits.append((p, d["ubsan"]))

    # ------------------------------------------------------------------------------------------------------------
    # confirmation of every candidate alone on fresh parsers (ASan+UBSan): signature = sanitizer kind + innermost frame
    confirmed, unconfirmed = 0, 0
    sig_first = {}
    # confirmation costs 7 ASan parser constructions per candidate: the simplest CONFIRM_CAP candidates are confirmed;
    # if there are more (hundreds of crashing programs = one gross defect) the rest is reported under one signature of
    # its own, so a run with unconfirmed candidates can never pass
    beyond_cap = candidates[CONFIRM_CAP:]
    candidates = candidates[:CONFIRM_CAP]
    if beyond_cap:
        p = beyond_cap[0]
        for q in beyond_cap:
            c.violation("crash:not-classified-beyond-confirmation-cap",
                        "%d crash candidates, only the first %d were classified under ASan; first unclassified: %s %s\n---\n%s" % (
                            len(candidates) + len(beyond_cap), CONFIRM_CAP, p[0], p[1], p[2][:600]),
                        {"family": q[0], "edit": q[1], "text": q[2]})
    for p, found in zip(candidates, confirm_all([p[2] for p in candidates])):
        if not found:
            unconfirmed += 1
            continue
        confirmed += 1
        for sig, detail in found:
            c.violation(sig, "%s %s: %s\n---\n%s" % (p[0], p[1], detail, p[2][:600]),
                        {"family": p[0], "edit": p[1], "text": p[2]})
            sig_first.setdefault(sig, p[1])

    for p, report in ubsan_hits:
        rep = fbp.symbolize(report)
        for m in re.finditer(r"[^\n]*runtime error:[^\n]*", rep):
            sig = ubsan_signature(m.group(0))
            c.violation(sig, "%s %s: UBSan report while translating\n%s\n---\n%s" % (p[0], p[1], rep[:1500], p[2][:600]),
                        {"family": p[0], "edit": p[1], "text": p[2]})

    # ------------------------------------------------------------------------------------------------------------
    # vacuity + evidence
    c.vacuity(seed_ok == len(seeds), "only %d of %d seed kernels are accepted by all seven translators (host translators for the @atomic block seed)" % (seed_ok, len(seeds)))
    c.vacuity(counts["S"] > 100 and counts["F"] > 1000, "accept/reject both must occur: %s" % counts)
    c.vacuity(len(classes) >= 25, "fewer than 25 distinct outcome classes (%d)" % len(classes))
    fams = {}
    for p in progs[:n_done]:
        fams[p[0]] = fams.get(p[0], 0) + 1
    samples = []
    for i in (0, n_done // 2, n_done - 1):
        p, d = progs[i], res[i]
        samples.append({"program": "%s %s" % (p[0], p[1]), "outcome": list(outcome_class(d))})
    c.set_exploration(
        evaluations=7 * n_done + 7 * len(ares), distinct_nontrivial=len(classes),
        rule="every translator returns success, errors or occa::exception; no signal/abort/sanitizer report/foreign exception/hang",
        samples=samples, exhaustive=bool(complete and acomplete),
        programs_generated=len(progs), programs_rel_pass=n_done, programs_per_family=fams,
        rel_pass="all %d programs x 7 translators on the rel build (harness with -fsanitize=undefined), parsers reused inside a worker, CPU limit %.0f s per program" % (n_done, CPU_LIMIT_REL),
        asan_pass="%d of %d selected programs x 7 translators under ASan+UBSan: all seeds, the first %d program(s) of each of the %d outcome classes of the rel pass%s" % (
            len(ares), len(subset), K, len(classes), "" if quick else ", every 1-deviation program of seed '%s'" % seeds[0][0]),
        crash_candidates=len(candidates) + len(beyond_cap), candidates_beyond_confirmation_cap=len(beyond_cap), programs_with_ubsan_report=len(ubsan_hits), candidates_confirmed_alone_on_fresh_parsers=confirmed, candidates_not_reproduced_alone=unconfirmed,
        translator_results={"accepted": counts["S"], "rejected_with_errors": counts["F"], "occa_exception": counts["X"]},
        rel_wall_s=round(rel_wall, 1), asan_wall_s=round(asan_wall, 1),
        bound=("quick: distance 1 with the full %d-token alphabet for seeds 1-3, delete/duplicate/swap/truncate for seeds 4-13; byte strings <= %%d over %%d symbols and <= %%d over %%d symbols in 3 wrappers" % len(gen.ALPHABET) % (blen_a, len(gen.BYTES_A), blen_b, len(gen.BYTES_B))) if quick else
              ("thorough: distance 1 (all 5 operators, %d-token alphabet) for all 13 seeds; distance 2 (delete/duplicate/swap/replace over a %d-token alphabet, both edits inside a 6-token window) for seeds 1-4; byte strings <= %%d over %%d symbols and <= %%d over %%d symbols in 3 wrappers" % (len(gen.ALPHABET), len(gen.ALPHA2)) % (blen_a, len(gen.BYTES_A), blen_b, len(gen.BYTES_B))))
    c.assumptions += [
        "not coverage-guided fuzzing: the claim is exactly 'every program within the stated edit distance of the 13 seeds, and every short byte string in 3 wrappers'",
        "memory errors that do not end in a signal are only visible in the ASan pass (subset stated in coverage.asan_pass)",
        "a candidate counts only if it reproduces alone on freshly constructed parsers",
    ]
    c.finish()


from vlib.core import run_main
run_main(main)
