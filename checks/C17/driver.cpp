// Generic run-and-compare driver for translated loop programs (C17, C18).
//
// Linked with   ref TU   : ref_table[] - for every program the plain sequential C++ reading
//               impl TU  : impl_table[] - the translated program (Serial/OpenMP source, or translated
//                          launcher + emulated device source)
// For every program and every admissible operand tuple the multiset of recorded visits must be equal.
//
// Output (stdout):
//   K <name> tuples=<n> judged=<n> div=<n> pre=<n> nonempty=<n> empty=<n> mism=<n> maxlen=<n>
//   M <name> <class> S N K c T | ref=<list> | got=<list> | <message>
//       (first mismatch of every class per program; class in: extra missing dup differ runaway
//        launch-error exception)
// Replay: driver <name> S N K c T   prints the R (reference) and G (got) lists for one tuple.
#include <algorithm>
#include <cstdio>
#include <cstdlib>
#include <cstring>
#include <set>
#include <stdexcept>
#include <string>
#include <vector>

#include "driver.hpp"

struct Visit {
  int a, b, c;
  bool operator < (const Visit &o) const {
    if (a != o.a) return a < o.a;
    if (b != o.b) return b < o.b;
    return c < o.c;
  }
  bool operator == (const Visit &o) const { return a == o.a && b == o.b && c == o.c; }
};

struct Runaway {};

static std::vector<Visit> refVisits, gotVisits;
static const size_t VISIT_CAP = 1 << 16;

// called by the translated code
void vrec(int a, int b, int c) {
  if (gotVisits.size() >= VISIT_CAP) throw Runaway();
  Visit v = {a, b, c};
  gotVisits.push_back(v);
}

// called by the reference
void vref(int a, int b, int c) {
  Visit v = {a, b, c};
  refVisits.push_back(v);
}

static std::string listStr(const std::vector<Visit> &v) {
  std::string s = "[";
  for (size_t i = 0; i < v.size() && i < 24; ++i) {
    char buf[64];
    std::snprintf(buf, sizeof(buf), "%s(%d,%d,%d)", i ? " " : "", v[i].a, v[i].b, v[i].c);
    s += buf;
  }
  if (v.size() > 24) s += " ...";
  char buf[32];
  std::snprintf(buf, sizeof(buf), "]#%zu", v.size());
  return s + buf;
}

// multiset relation of got to ref (both sorted)
static const char* relation(const std::vector<Visit> &ref, const std::vector<Visit> &got) {
  if (ref == got) return NULL;
  const bool gotInRef = std::includes(ref.begin(), ref.end(), got.begin(), got.end());
  const bool refInGot = std::includes(got.begin(), got.end(), ref.begin(), ref.end());
  if (refInGot) {
    // got has everything plus more: new values or repeated ones?
    std::set<Visit> rs(ref.begin(), ref.end()), gs(got.begin(), got.end());
    return (rs == gs) ? "dup" : "extra";
  }
  if (gotInRef) return "missing";
  return "differ";
}

struct Operands { int v[5]; };   // S N K c T

static const int LO[5] = {-2, -2, 1, 0, 1};
static const int HI[5] = { 6,  6, 6, 1, 4};
static const int DEF[5] = {0, 0, 1, 0, 1};

// returns class or NULL; fills message
static const char* runOne(const RefEntry &r, const ImplEntry &im, const Operands &o, int &refCode, std::string &message) {
  refVisits.clear();
  gotVisits.clear();
  message.clear();
  refCode = r.ref(o.v[0], o.v[1], o.v[2], o.v[3], o.v[4]);
  if (refCode) return NULL;
  const char *cls = NULL;
  try {
    im.impl(o.v[0], o.v[1], o.v[2], o.v[3], o.v[4]);
  } catch (Runaway&) {
    cls = "runaway";
  } catch (std::exception &e) {
    message = e.what();
    for (size_t i = 0; i < message.size(); ++i) if (message[i] == '\n' || message[i] == '|') message[i] = ' ';
    cls = (message.find("gpuemu launch error") != std::string::npos) ? "launch-error" : "exception";
  }
  std::sort(refVisits.begin(), refVisits.end());
  std::sort(gotVisits.begin(), gotVisits.end());
  if (!cls) cls = relation(refVisits, gotVisits);
  return cls;
}

int main(int argc, char **argv) {
  if (ref_count != impl_count) {
    std::printf("E table size mismatch %d %d\n", ref_count, impl_count);
    return 2;
  }
  impl_init();
  if (argc == 7) {
    for (int k = 0; k < ref_count; ++k) {
      if (std::strcmp(ref_table[k].name, argv[1])) continue;
      Operands o;
      for (int i = 0; i < 5; ++i) o.v[i] = std::atoi(argv[2 + i]);
      int refCode;
      std::string message;
      const char *cls = runOne(ref_table[k], impl_table[k], o, refCode, message);
      std::printf("R %s code=%d %s\nG %s %s\nC %s\n", argv[1], refCode, listStr(refVisits).c_str(),
                  argv[1], listStr(gotVisits).c_str(), cls ? cls : (refCode ? "not-judged" : "equal"));
      return cls ? 1 : 0;
    }
    std::printf("E no such program %s\n", argv[1]);
    return 2;
  }
  for (int k = 0; k < ref_count; ++k) {
    const RefEntry &r = ref_table[k];
    const ImplEntry &im = impl_table[k];
    if (std::strcmp(r.name, im.name)) {
      std::printf("E table name mismatch %s %s\n", r.name, im.name);
      return 2;
    }
    long tuples = 0, judged = 0, div = 0, pre = 0, nonempty = 0, empty = 0, mism = 0;
    size_t maxlen = 0;
    std::set<std::string> reported;
    Operands o;
    int idx[5];
    for (int i = 0; i < 5; ++i) idx[i] = (r.uses & (1u << i)) ? LO[i] : DEF[i];
    while (true) {
      for (int i = 0; i < 5; ++i) o.v[i] = idx[i];
      if (r.admissible(o.v[0], o.v[1], o.v[2], o.v[3], o.v[4])) {
        ++tuples;
        int refCode;
        std::string message;
        const char *cls = runOne(r, im, o, refCode, message);
        if (refCode == 1) ++div;
        else if (refCode == 2) ++pre;
        else {
          ++judged;
          if (refVisits.empty()) ++empty; else ++nonempty;
          maxlen = std::max(maxlen, refVisits.size());
          if (cls) {
            ++mism;
            std::string key = std::string(cls) + (refVisits.empty() ? ":refempty" : "");
            if (reported.insert(key).second) {
              std::printf("M %s %s %d %d %d %d %d | ref=%s | got=%s | %s\n", r.name, key.c_str(),
                          o.v[0], o.v[1], o.v[2], o.v[3], o.v[4],
                          listStr(refVisits).c_str(), listStr(gotVisits).c_str(), message.c_str());
            }
          }
        }
      }
      // next tuple (odometer over the used operands only)
      int d = 4;
      while (d >= 0) {
        if (!(r.uses & (1u << d))) { --d; continue; }
        if (idx[d] < HI[d]) { ++idx[d]; break; }
        idx[d] = LO[d];
        --d;
      }
      if (d < 0) break;
    }
    std::printf("K %s tuples=%ld judged=%ld div=%ld pre=%ld nonempty=%ld empty=%ld mism=%ld maxlen=%zu\n",
                r.name, tuples, judged, div, pre, nonempty, empty, mism, maxlen);
    std::fflush(stdout);
  }
  std::printf("DONE %d\n", ref_count);
  return 0;
}
