// Minimal deterministic stand-in for libgomp, enough for what `g++ -fopenmp` emits for the
// `#pragma omp parallel for` (default static schedule) of OCCA's OpenMP translation:
// GOMP_parallel runs the outlined region once per *virtual* thread, one after another; the region
// itself computes its static chunk from omp_get_num_threads()/omp_get_thread_num().
// The thread count comes from VERIF_OMP_THREADS (default 3).  No real threads, no nondeterminism.
#include <cstdlib>

static int vthreads = 1, vtid = 0;
static bool inParallel = false;

extern "C" int omp_get_num_threads() { return inParallel ? vthreads : 1; }
extern "C" int omp_get_thread_num() { return inParallel ? vtid : 0; }
extern "C" int omp_get_max_threads() { return vthreads; }

extern "C" void GOMP_parallel(void (*fn)(void*), void *data, unsigned num_threads, unsigned flags) {
  (void) flags;
  const char *e = std::getenv("VERIF_OMP_THREADS");
  int n = e ? std::atoi(e) : 3;
  if (num_threads) n = (int) num_threads;
  if (n < 1) n = 1;
  if (inParallel) { fn(data); return; }   // nested region: serialised, as libgomp does by default
  vthreads = n;
  struct Region {
    Region() { inParallel = true; }
    ~Region() { inParallel = false; vtid = 0; }   // also when the region is left by an exception
  } region;
  // highest thread id first: a translation that relied on thread 0 running first would show
  for (int t = n - 1; t >= 0; --t) {
    vtid = t;
    fn(data);
  }
}
