#!/usr/bin/env python3
"""C17: every backend visits exactly the iterations of each OKL loop (E2 enumeration + E6 gpuemu).

All loop headers of a bounded grammar are translated by the real translators; the translated code is
compiled and run (Serial/OpenMP directly; CUDA/HIP/OpenCL/Metal/DPC++: the translated launcher runs on
the real occa::kernel/occa::dim runtime and feeds the emulated device source) for all operand values
S,N in [-2,6], K in [1,6], c in {0,1}; the multiset of visited iterator values must equal that of the
plain sequential C++ loop whenever that loop terminates without overflow.
"""
import os, sys, time
sys.path.insert(0, os.path.dirname(os.path.dirname(os.path.dirname(os.path.abspath(__file__)))))
sys.path.insert(0, os.path.dirname(os.path.abspath(__file__)))
from vlib.core import Check, san_env, load_replay
import loopfam as lf
import gpuemu

HERE = os.path.dirname(os.path.abspath(__file__))


def headers(tier):
    """simplest first: iterate the update/bound/init alphabets in their listed order"""
    if tier == "quick":
        inits = ["0", "S", "S<<1"]
        bounds = ["5", "N", "N<<1", "N-S", "(N&6)"]
        updates = ["++@", "@--", "@+=K", "@-=3"]
    else:
        inits, bounds, updates = lf.INITS, lf.BOUNDS, lf.UPDATES
    out = []
    for upd in updates:
        for bound in bounds:
            for init in inits:
                for cmp_ in lf.CMPS:
                    for order in lf.ORDERS:
                        out.append(lf.Header(init, cmp_, order, bound, upd))
    return out


NEST6 = [
    lf.Header("S", "<", "L", "N", "++@"),
    lf.Header("0", ">=", "R", "N", "@+=K"),
    lf.Header("N", ">", "L", "S", "@--"),
    lf.Header("S<<1", "<=", "L", "N+2", "@+=2"),
    lf.Header("5", "<", "R", "(N&6)", "@-=K"),
    lf.Header("c?S:1", "<", "L", "N<<1", "@++"),
]


def programs(tier):
    progs = []
    hs = headers(tier)
    for pos in ("outer", "inner"):
        for h in hs:
            progs.append(lf.loop_program("k%d" % len(progs), pos, h))
    nest = NEST6[:3] if tier == "quick" else NEST6
    for pos in ("outer", "inner"):
        for ha in nest:
            for hb in nest:
                progs.append(lf.nest_program("k%d" % len(progs), pos, ha, hb))
    return progs


def main():
    c = Check("C17", "exploration")
    c.build(lf.VARIANT)
    env = san_env(c.scratch)
    xlate = lf.compile_xlate(c)
    if c.args.replay:
        r = load_replay(c.args.replay)
        sys.exit(lf.replay_one(c, xlate, r["replay"], os.path.join(c.scratch, "replay"), env))

    modes = ("serial", "openmp", "cuda", "opencl") if c.tier == "quick" else lf.ALL_MODES
    prelude = lf.Prelude(c.scratch, env, need_host=True)
    progs = programs(c.tier)
    deadline = c.t0 + c.budget(900, 2400)

    def log(msg):
        print("[C17 %.0fs] %s" % (c.elapsed(), msg), flush=True)

    res = lf.run_family(c, progs, modes, os.path.join(c.scratch, "fam"), env, xlate, deadline, log=log, prelude=prelude)
    ok, text = prelude.selftest_result()
    if not ok:
        c.harness_error("gpuemu self-test failed (trusted base broken):\n" + text)
    if res.get("build_errors"):
        c.harness_error("translated code did not build/run:\n" + "\n---\n".join(res["build_errors"][:3]))
    for desc, mode, v in res["translator_crashes"]:
        c.violation("translator-crash:" + mode, "%s: translator died (%s)" % (desc, v), {"desc": desc, "mode": mode})
    for sig, detail, replay in res["violations"]:
        c.violation(sig, detail, replay)

    # vacuity guards
    nprog = len(progs)
    c.vacuity(res["accepted"]["serial"] >= nprog // 8, "fewer than 1/8 of the headers accepted by the validator")
    c.vacuity(res["nonempty_ref"] > 0 and res["empty_ref"] > 0, "both empty and non-empty sequential loops must be judged")
    for m in modes:
        c.vacuity(res["programs_judged"].get(m, 0) >= res["accepted"]["serial"] // 2,
                  "mode %s judged fewer than half of the accepted programs" % m)
    c.vacuity(res["maxlen"] >= 8, "no loop with at least 4 iterations (x2 fixed loop) was run")

    c.set_exploration(
        evaluations=res["evaluations"],
        distinct_nontrivial=sum(res["programs_judged"].values()),
        rule="all loop headers init x {<,<=,>,>=} x {it?B, B?it} x bound x update of the alphabet, each as @outer and as "
             "@inner loop, plus all ordered pairs of a %d-header sub-alphabet as 2-deep @outer and @inner nests; every header "
             "accepted by OCCA's validator is translated by %s and run for all S,N in [-2,6], K in [1,6], c in {0,1} "
             "(operands that occur); multiset of visited (outer,inner) values == plain sequential C++ loop"
             % (3 if c.tier == "quick" else 6, ",".join(modes)),
        samples=[progs[0].desc, progs[len(progs) // 2].desc, progs[-1].desc],
        exhaustive=res["complete"],
        programs_generated=nprog,
        accepted_by_mode=res["accepted"], rejected_by_mode=res["rejected"],
        programs_judged_by_mode=res["programs_judged"],
        judged_operand_tuples=res["judged_tuples"],
        tuples_skipped_sequential_loop_overflows=res["skipped_divergent"],
        empty_sequential_loops_judged=res["empty_ref"], nonempty_sequential_loops_judged=res["nonempty_ref"],
        executables_run=res["executables"], mode_disagreement_chunks=res["mode_disagreements"],
        distinct_launcher_sources=res.get("distinct_launcher_sources", 0),
        longest_reference_visit_list=res["maxlen"],
        modes=list(modes),
    )
    c.assumptions += [
        "GPU-style backends are judged under gpuemu (engines/gpuemu): sequential emulation of the documented launch "
        "model; the translated launcher runs on the real occa::kernel/occa::dim runtime; real drivers/compilers are not covered",
        "OpenMP: g++ -fopenmp lowering with a deterministic stand-in for libgomp (3 virtual threads run one after another)",
        "iterator type int; operand tuples with a negative left-shift base are outside the domain (UB before C++20)",
        "headers rejected by OCCA's validator are counted, not judged (C22)",
    ]
    c.finish()


if __name__ == "__main__":      # (C18 is also imported by tooling for its generators)
    from vlib.core import run_main; run_main(main)
