// Translation driver (E2): runs the REAL OKL translators in-process on generated programs.
// Protocol of vlib.batch: argv[1] = file with one item per line; for item i print BEGIN i ... END i.
//
// Items (tab separated):
//   V <mode> <okl source on one line>                      validate/translate, print "OK" or "REJECT"
//   T <mode> <okl file> <device out> <launcher out|->      translate a file; writes the outputs,
//                                                          prints "OK" or "REJECT"
// modes: serial openmp cuda hip opencl metal dpcpp
// An occa::exception thrown by a translator is reported as "REJECT exception" (counted, not judged).
#include <cstdio>
#include <cstring>
#include <fstream>
#include <iostream>
#include <map>
#include <sstream>
#include <string>
#include <vector>

#include <occa/internal/lang/modes/serial.hpp>
#include <occa/internal/lang/modes/openmp.hpp>
#include <occa/internal/lang/modes/cuda.hpp>
#include <occa/internal/lang/modes/hip.hpp>
#include <occa/internal/lang/modes/opencl.hpp>
#include <occa/internal/lang/modes/metal.hpp>
#include <occa/internal/lang/modes/dpcpp.hpp>
#include <occa/utils/exception.hpp>

using namespace occa;

static lang::parser_t* makeParser(const std::string &mode) {
  json props;
  props["mode"] = mode;
  if (mode == "serial") return new lang::okl::serialParser(props);
  if (mode == "openmp") return new lang::okl::openmpParser(props);
  if (mode == "cuda")   return new lang::okl::cudaParser(props);
  if (mode == "hip")    return new lang::okl::hipParser(props);
  if (mode == "opencl") return new lang::okl::openclParser(props);
  if (mode == "metal")  return new lang::okl::metalParser(props);
  if (mode == "dpcpp")  return new lang::okl::dpcppParser(props);
  return NULL;
}

static bool isLaunched(const std::string &mode) {
  return !(mode == "serial" || mode == "openmp");
}

static std::vector<std::string> splitTabs(const std::string &s, char sep) {
  std::vector<std::string> out;
  size_t start = 0;
  while (true) {
    size_t p = s.find(sep, start);
    if (p == std::string::npos) { out.push_back(s.substr(start)); break; }
    out.push_back(s.substr(start, p - start));
    start = p + 1;
  }
  return out;
}

static void writeFile(const std::string &path, const std::string &text) {
  std::ofstream f(path.c_str());
  f << text;
}

int main(int argc, char **argv) {
  if (argc < 2) return 2;
  std::ifstream in(argv[1]);
  std::string line;
  int index = 0;
  while (std::getline(in, line)) {
    std::printf("BEGIN %d\n", index);
    std::fflush(stdout);
    std::vector<std::string> f = splitTabs(line, '\t');
    std::string verdict = "REJECT";
    if (f.size() >= 3) {
      const std::string &mode = f[1];
      // a fresh parser per item: no state can leak from one program to the next
      lang::parser_t *parser = makeParser(mode);
      if (!parser) {
        verdict = "BADMODE";
      } else {
        try {
          if (f[0] == "V") {
            parser->parseSource(f[2]);
          } else {
            parser->parseFile(f[2]);
          }
          if (parser->succeeded()) {
            verdict = "OK";
            if (f[0] == "T" && f.size() >= 5) {
              writeFile(f[3], parser->toString());
              if (isLaunched(mode) && f[4] != "-") {
                writeFile(f[4], ((lang::okl::withLauncher*) parser)->launcherParser.toString());
              }
            }
          }
        } catch (occa::exception &e) {
          verdict = "REJECT exception";
        }
        delete parser;
      }
    }
    std::printf("%s\nEND %d\n", verdict.c_str(), index);
    std::fflush(stdout);
    ++index;
  }
  return 0;
}
