"""Bounded-exhaustive OKL loop programs: generation, translation by the real translators, compilation
against the reference and the gpuemu launch model, execution, classification.  Used by C17 and C18.

Everything is deterministic: programs are generated in a fixed order (simplest first), results are
merged in generation order, nothing depends on time or randomness.
"""
import hashlib, os, re, subprocess, sys, time
from concurrent.futures import ThreadPoolExecutor

HERE = os.path.dirname(os.path.abspath(__file__))
ROOT = os.path.dirname(os.path.dirname(HERE))
sys.path.insert(0, ROOT)
sys.path.insert(0, os.path.join(ROOT, "engines", "gpuemu"))
import gpuemu                                    # noqa: E402
from vlib import batch                           # noqa: E402
from vlib.core import NCPU, sh                   # noqa: E402

KEPT = ("serial", "openmp")
LAUNCHED = ("cuda", "hip", "opencl", "metal", "dpcpp")
ALL_MODES = KEPT + LAUNCHED
OPERANDS = "SNKcT"
PARAMS_OKL = "const int S, const int N, const int K, const int c, const int T"
ARGS = "S, N, K, c, T"

# ---------------------------------------------------------------------------------------------
# loop headers

INITS = ["0", "2", "S", "S+1", "S<<1", "c?S:1"]
CMPS = ["<", "<=", ">", ">="]
ORDERS = ["L", "R"]                      # iterator on the left / on the right of the comparison
BOUNDS = ["5", "N", "N+2", "N<<1", "N-S", "(N&6)", "(c?N:2)", "N&6", "c?N:2"]
UPDATES = ["++@", "@++", "--@", "@--", "@+=2", "@+=K", "@-=3", "@-=K"]


def expr_class(e):
    """operator class of an operand expression (what has to survive splicing into a larger one)"""
    if re.fullmatch(r"\d+", e):
        return "lit"
    if re.fullmatch(r"[A-Za-z_]\w*", e):
        return "var"
    if e.startswith("("):
        return "paren"
    if "?" in e:
        return "cond"
    if "<<" in e:
        return "shift"
    if "&" in e:
        return "bitand"
    if "|" in e:
        return "bitor"
    if "+" in e or "-" in e:
        return "add"
    return "other"


class Header:
    def __init__(self, init, cmp_, order, bound, upd):
        self.init, self.cmp, self.order, self.bound, self.upd = init, cmp_, order, bound, upd

    def text(self, it):
        check = "%s %s %s" % ((it, self.cmp, self.bound) if self.order == "L" else (self.bound, self.cmp, it))
        return "int %s = %s; %s; %s" % (it, self.init, check, self.upd.replace("@", it))

    def key(self):
        return (self.init, self.cmp, self.order, self.bound, self.upd)

    def positive_update(self):
        return "++" in self.upd or "+=" in self.upd

    def upward_check(self):
        """does the comparison keep the iterator *below* the bound?"""
        lt = self.cmp in ("<", "<=")
        return lt if self.order == "L" else not lt

    def feature(self):
        """the syntactic feature a violation is attributed to (first match in a fixed priority list)"""
        if self.positive_update() != self.upward_check():
            return "dirmis"
        bc = expr_class(self.bound)
        if bc not in ("lit", "var"):
            return "bound=" + bc
        ic = expr_class(self.init)
        if ic not in ("lit", "var"):
            return "init=" + ic
        u = self.upd
        kind = ("inc1" if u in ("++@", "@++") else "dec1" if u in ("--@", "@--") else
                ("add" if "+=" in u else "sub") + ("var" if re.search(r"[A-Za-z]", u.split("=")[1]) else "lit"))
        if kind not in ("inc1",):
            return "step=" + kind
        if "=" in self.cmp:
            return "incl"
        return "plain"

    def all_text(self):
        return " ".join([self.init, self.bound, self.upd])


def uses_of(text):
    return set(ch for ch in OPERANDS if re.search(r"(?<![A-Za-z_0-9])%s(?![A-Za-z_0-9])" % ch, text))


def admissible_of(text):
    """C++ condition under which evaluating the operand expressions is free of UB in C++17:
    a left shift needs a non-negative base."""
    conds = []
    for m in re.finditer(r"([A-Za-z])<<", text):
        conds.append("%s >= 0" % m.group(1))
    return " && ".join(sorted(set(conds))) or "1"


class Program:
    """one OKL kernel + its plain sequential C++ reading"""

    def __init__(self, name, okl, ref, uses, admissible, feature, desc, info):
        self.name, self.okl, self.ref, self.uses, self.admissible = name, okl, ref, uses, admissible
        self.feature, self.desc, self.info = feature, desc, info

    def uses_mask(self):
        return sum(1 << i for i, ch in enumerate(OPERANDS) if ch in self.uses)

    def replay_obj(self):
        return {"name": self.name, "okl": self.okl, "ref": self.ref, "uses": sorted(self.uses),
                "admissible": self.admissible, "feature": self.feature, "desc": self.desc}

    @staticmethod
    def from_replay(o):
        return Program(o["name"], o["okl"], o["ref"], set(o["uses"]), o["admissible"], o["feature"], o["desc"], {})


GUARD = "if (++steps > VREF_STEP_CAP) return 1;"


def loop_program(name, pos, h):
    """header h used as the @outer loop (pos='outer') or the @inner loop (pos='inner'); the other OKL loop
    is a fixed 2-iteration loop; every (outer, inner) pair is recorded."""
    fixed_o, fixed_i = "int o = 0; o < 2; ++o", "int i = 0; i < 2; ++i"
    ho = h.text("o") if pos == "outer" else fixed_o
    hi = h.text("i") if pos == "inner" else fixed_i
    okl = ("@kernel void %s(%s) { for (%s; @outer) { for (%s; @inner) { vrec(o, i, 0); } } }"
           % (name, PARAMS_OKL, ho, hi))
    ref = ("int steps = 0; for (%s) { %s for (%s) { %s vref(o, i, 0); } } return 0;" % (ho, GUARD, hi, GUARD))
    txt = h.all_text()
    return Program(name, okl, ref, uses_of(txt), admissible_of(txt), h.feature(),
                   "%s: for (%s)" % (pos, h.text("o" if pos == "outer" else "i")),
                   {"family": "loop", "pos": pos, "header": h.key()})


def nest_program(name, pos, ha, hb):
    """2-deep @outer nest (pos='outer') or 2-deep @inner nest (pos='inner'): exercises the x/y mapping"""
    if pos == "outer":
        l1, l0, l2 = ha.text("o1"), hb.text("o0"), "int i = 0; i < 2; ++i"
        okl = ("@kernel void %s(%s) { for (%s; @outer) { for (%s; @outer) { for (%s; @inner) { vrec(o1, o0, i); } } } }"
               % (name, PARAMS_OKL, l1, l0, l2))
        ref = ("int steps = 0; for (%s) { %s for (%s) { %s for (%s) { %s vref(o1, o0, i); } } } return 0;"
               % (l1, GUARD, l0, GUARD, l2, GUARD))
    else:
        l2, l1, l0 = "int o = 0; o < 2; ++o", ha.text("i1"), hb.text("i0")
        okl = ("@kernel void %s(%s) { for (%s; @outer) { for (%s; @inner) { for (%s; @inner) { vrec(o, i1, i0); } } } }"
               % (name, PARAMS_OKL, l2, l1, l0))
        ref = ("int steps = 0; for (%s) { %s for (%s) { %s for (%s) { %s vref(o, i1, i0); } } } return 0;"
               % (l2, GUARD, l1, GUARD, l0, GUARD))
    txt = ha.all_text() + " " + hb.all_text()
    fa, fb = ha.feature(), hb.feature()
    feat = fa if fa != "plain" else fb
    return Program(name, okl, ref, uses_of(txt), admissible_of(txt), "nest:" + feat,
                   "%s nest: for (%s) for (%s)" % (pos, ha.text("a"), hb.text("b")),
                   {"family": "nest", "pos": pos, "headers": (ha.key(), hb.key())})


# ---------------------------------------------------------------------------------------------
# translation

def compile_xlate(c):
    return c.compile(os.path.join(HERE, "xlate.cpp"), "xlate", variant=VARIANT, opt="-O0")


def validate(xlate, programs, mode, workdir, env):
    """which programs does the translator of `mode` accept (one program per parse)?"""
    items = ["V\t%s\t%s" % (mode, p.okl.replace("\n", " ")) for p in programs]
    res, complete = batch.run_items([xlate], items, os.path.join(workdir, "val-" + mode), env,
                                    chunk=max(10, -(-len(items) // NCPU)), per_item_timeout=2.0)
    verdicts = []
    for r in res:
        if r.crash:
            verdicts.append("CRASH " + r.crash)
        else:
            verdicts.append(r.lines[0] if r.lines else "REJECT")
    return verdicts


def translate_files(xlate, jobs, workdir, env):
    """jobs: list of (mode, okl_file, dev_out, launcher_out or '-') -> list of verdict strings"""
    items = ["T\t%s\t%s\t%s\t%s" % j for j in jobs]
    res, complete = batch.run_items([xlate], items, os.path.join(workdir, "xl"), env,
                                    chunk=max(1, -(-len(items) // NCPU)), per_item_timeout=20.0)
    out = []
    for r in res:
        out.append(("CRASH " + r.crash) if r.crash else (r.lines[0] if r.lines else "REJECT"))
    return out


# ---------------------------------------------------------------------------------------------
# harness generation

def ref_tu(programs):
    s = ['#include "driver.hpp"']
    for p in programs:
        s.append("static int ref_%s(int S, int N, int K, int c, int T) { %s }" % (p.name, p.ref))
        s.append("static int adm_%s(int S, int N, int K, int c, int T) { return (%s); }" % (p.name, p.admissible))
    s.append("RefEntry ref_table[] = {")
    for p in programs:
        s.append('  {"%s", %du, ref_%s, adm_%s},' % (p.name, p.uses_mask(), p.name, p.name))
    s.append("};")
    s.append("int ref_count = %d;" % len(programs))
    return "\n".join(s) + "\n"


def kept_tu(programs, translated_path):
    s = ['#include "driver.hpp"', '#include "%s"' % translated_path]
    for p in programs:
        s.append("static void impl_%s(int S, int N, int K, int c, int T) { %s(%s); }" % (p.name, p.name, ARGS))
    s.append("ImplEntry impl_table[] = {")
    for p in programs:
        s.append('  {"%s", impl_%s},' % (p.name, p.name))
    s.append("};")
    s.append("int impl_count = %d;" % len(programs))
    s.append("void impl_init() {}")
    return "\n".join(s) + "\n"


def device_tu(programs, mode, translated_path):
    """device source + one uniform Entry per device kernel (each program has exactly one outermost @outer
    loop, hence one device kernel _occa_<name>_0)"""
    s = ["void vrec(int a, int b, int c);", '#include "%s"' % translated_path]
    deref = ", ".join("*(int*) args[%d]" % i for i in range(5))
    for p in programs:
        fn = "_occa_%s_0" % p.name
        if mode == "dpcpp":
            s.append("GPUEMU_SYCL_ENTRY(gpuemu_entry_%s_0, %s(queue_, range_, %s))" % (p.name, fn, deref))
        elif mode == "metal":
            s.append("GPUEMU_GRID_ENTRY(gpuemu_entry_%s_0, %s(%s, gpuemu::metalGroupPosition(), gpuemu::metalThreadPosition()))"
                     % (p.name, fn, deref))
        else:
            s.append("GPUEMU_GRID_ENTRY(gpuemu_entry_%s_0, %s(%s))" % (p.name, fn, deref))
    return "\n".join(s) + "\n"


def launcher_tu(programs, launcher_path):
    s = ['#include "occa_launch.hpp"', '#include "driver.hpp"', '#include "%s"' % launcher_path,
         "static gpuemu::Host *host = 0;"]
    for p in programs:
        s.append('extern "C" void gpuemu_entry_%s_0(void **args, const size_t outer[3], const size_t inner[3]);' % p.name)
        s.append("static occa::modeKernel_t *dk_%s[1];" % p.name)
        s.append("static void impl_%s(int S, int N, int K, int c, int T) { %s(dk_%s, %s); }" % (p.name, p.name, p.name, ARGS))
    s.append("ImplEntry impl_table[] = {")
    for p in programs:
        s.append('  {"%s", impl_%s},' % (p.name, p.name))
    s.append("};")
    s.append("int impl_count = %d;" % len(programs))
    s.append("void impl_init() {")
    s.append("  host = new gpuemu::Host();")
    for p in programs:
        s.append('  dk_%s[0] = host->kernel("%s_0", gpuemu_entry_%s_0);' % (p.name, p.name, p.name))
    s.append("}")
    return "\n".join(s) + "\n"


def write(path, text):
    with open(path, "w") as f:
        f.write(text)
    return path


class BuildError(Exception):
    pass


def run_cmd(cmd, what):
    p = sh(cmd)
    if p.returncode != 0:
        raise BuildError("%s failed:\n%s\n%s" % (what, " ".join(cmd), p.stdout[-3000:]))


def kept_compile_cmd(variant, src, obj, openmp=False):
    return (gpuemu.base_flags(variant) + ["-I" + HERE] + (["-fopenmp"] if openmp else []) + ["-c", src, "-o", obj])


VARIANT = os.environ.get("VERIF_LOOPFAM_VARIANT", "rel")   # libocca variant for translation and the launcher runtime (see gpuemu.py)


class Runner:
    """compiles the shared objects once, then builds and runs (chunk, mode) executables"""

    def __init__(self, c, workdir, env, variant=VARIANT, need_host=True, host_extra=None):
        self.c, self.wd, self.env, self.variant = c, workdir, dict(env), variant
        os.makedirs(workdir, exist_ok=True)
        self.driver_o = os.path.join(workdir, "driver.o")
        self.miniomp_o = os.path.join(workdir, "miniomp.o")
        run_cmd(kept_compile_cmd(variant, os.path.join(HERE, "driver.cpp"), self.driver_o), "driver compile")
        run_cmd(kept_compile_cmd(variant, os.path.join(HERE, "miniomp.cpp"), self.miniomp_o), "miniomp compile")
        self.env.setdefault("VERIF_OMP_THREADS", "3")
        if host_extra is not None:
            self.host_extra = list(host_extra)
        else:
            self.host_extra = ["-I" + HERE]
            if need_host:
                self.host_extra += gpuemu.host_pch(variant, os.path.join(workdir, "pch"), extra=self.host_extra,
                                                   also_include=["driver.hpp"])

    # -- phase 1 per chunk: reference object
    def build_ref(self, tag, programs):
        src = write(os.path.join(self.wd, tag + "_ref.cpp"), ref_tu(programs))
        obj = os.path.join(self.wd, tag + "_ref.o")
        run_cmd(kept_compile_cmd(self.variant, src, obj), "reference compile " + tag)
        return obj

    def build_launcher(self, tag, programs, launcher_path):
        src = write(os.path.join(self.wd, tag + "_launcher.cpp"), launcher_tu(programs, launcher_path))
        obj = os.path.join(self.wd, tag + "_launcher.o")
        run_cmd(gpuemu.host_cmd(self.variant, src, obj, extra=self.host_extra), "launcher compile " + tag)
        return obj

    # -- phase 2 per (chunk, mode)
    def build_and_run(self, tag, programs, mode, translated, ref_o, launcher_o=None, run_args=None):
        exe = os.path.join(self.wd, "%s_%s.exe" % (tag, mode))
        if mode in KEPT:
            src = write(os.path.join(self.wd, "%s_%s_impl.cpp" % (tag, mode)), kept_tu(programs, translated))
            obj = os.path.join(self.wd, "%s_%s_impl.o" % (tag, mode))
            run_cmd(kept_compile_cmd(self.variant, src, obj, openmp=(mode == "openmp")), "impl compile %s %s" % (tag, mode))
            objs = [self.driver_o, ref_o, obj] + ([self.miniomp_o] if mode == "openmp" else [])
            run_cmd(gpuemu.link_cmd(self.variant, objs, exe, with_occa=False), "link %s %s" % (tag, mode))
        else:
            src = write(os.path.join(self.wd, "%s_%s_dev.cpp" % (tag, mode)), device_tu(programs, mode, translated))
            obj = os.path.join(self.wd, "%s_%s_dev.o" % (tag, mode))
            run_cmd(gpuemu.device_cmd(mode, src, obj, self.variant), "device compile %s %s" % (tag, mode))
            run_cmd(gpuemu.link_cmd(self.variant, [self.driver_o, ref_o, launcher_o, obj], exe), "link %s %s" % (tag, mode))
        env = dict(self.env)
        env["OCCA_CACHE_DIR"] = os.path.join(self.wd, "cache-%s-%s" % (tag, mode))
        p = subprocess.run([exe] + (run_args or []), stdout=subprocess.PIPE, stderr=subprocess.PIPE, text=True,
                           env=env, cwd=self.wd, timeout=600)
        return p.returncode, p.stdout, p.stderr


def parse_driver_output(out):
    """-> (stats by program name, mismatches list of dict, done flag)"""
    stats, mism, done = {}, [], False
    for ln in out.split("\n"):
        if ln.startswith("K "):
            f = ln.split()
            stats[f[1]] = dict((kv.split("=")[0], int(kv.split("=")[1])) for kv in f[2:])
        elif ln.startswith("M "):
            head, ref, got, msg = [x.strip() for x in ln.split("|", 3)]
            f = head.split()
            mism.append({"name": f[1], "cls": f[2], "operands": [int(x) for x in f[3:8]],
                         "ref": ref, "got": got, "msg": msg})
        elif ln.startswith("DONE "):
            done = True
    return stats, mism, done


def ub_reports(stderr_text):
    """UBSan 'runtime error' lines -> list of (file, line, message kind)"""
    out = []
    for m in re.finditer(r"^(\S+?):(\d+):\d+: runtime error: (.*)$", stderr_text, re.M):
        kind = re.sub(r"-?\d+", "#", m.group(3))
        out.append((m.group(1), int(m.group(2)), kind[:80]))
    return out


def line_owner(path, names):
    """map line number -> program name for a translated file (function definitions in file order)"""
    owners, cur = {}, None
    pat = re.compile(r"\b(?:_occa_)?(%s)(?:_0)?\s*\(" % "|".join(re.escape(n) for n in names))
    try:
        with open(path) as f:
            for i, ln in enumerate(f, 1):
                m = pat.search(ln)
                if m and ("void" in ln):
                    cur = m.group(1)
                owners[i] = cur
    except OSError:
        pass
    return owners


def chunks_of(lst, n):
    return [lst[i:i + n] for i in range(0, len(lst), n)]


def family_of(mode):
    return "kept" if mode in KEPT else "launched"


class Prelude:
    """work that does not depend on the programs, started in the background while they are validated and
    translated: the gpuemu self-test (trusted base) and the precompiled launcher header"""

    def __init__(self, workdir, env, need_host, variant=VARIANT):
        self.ex = ThreadPoolExecutor(max_workers=2)
        self.need_host = need_host
        self.f_self = self.ex.submit(gpuemu.selftest, variant, os.path.join(workdir, "gpuemu-selftest"), env) if need_host else None
        base = ["-I" + HERE]
        self.f_pch = self.ex.submit(gpuemu.host_pch, variant, os.path.join(workdir, "pch"), base, ["driver.hpp"]) if need_host else None
        self.base = base

    def selftest_result(self):
        return self.f_self.result() if self.f_self else (True, "not needed")

    def host_extra(self):
        return self.base + (self.f_pch.result() if self.f_pch else [])


def run_family(c, programs, modes, workdir, env, xlate, deadline, chunk_size=None, sig_prefix="", log=None, prelude=None):
    """The whole pipeline for a list of programs.  Returns a dict with counters, the list of violations
    (sig, detail, replay) in generation order, and samples."""
    os.makedirs(workdir, exist_ok=True)
    res = {"programs": len(programs), "accepted": {}, "rejected": {}, "mode_disagreements": 0,
           "judged_tuples": 0, "skipped_divergent": 0, "skipped_precondition": 0, "empty_ref": 0, "nonempty_ref": 0,
           "executables": 0, "violations": [], "complete": True, "evaluations": 0, "maxlen": 0,
           "translator_crashes": [], "programs_judged": {}}
    # 1. validity according to OCCA's own validator: one program per parse, Serial translator;
    #    the other translators then get whole chunks and fall back to single parses when they disagree
    verdict0 = validate(xlate, programs, "serial", workdir, env)
    accepted = [p for p, v in zip(programs, verdict0) if v == "OK"]
    for p, v in zip(programs, verdict0):
        if v.startswith("CRASH"):
            res["translator_crashes"].append((p.desc, "serial", v))
    res["accepted"]["serial"] = len(accepted)
    res["rejected"]["serial"] = len(programs) - len(accepted)
    if log:
        log("validated %d programs: %d accepted by the Serial translator" % (len(programs), len(accepted)))
    if chunk_size is None:
        # one chunk per core, but not so small that the fixed cost per translation unit dominates
        chunk_size = min(120, max(30, -(-len(accepted) // NCPU)))
    chunks = chunks_of(accepted, chunk_size)
    # 2. translate every chunk with every mode
    jobs, meta = [], []
    for ci, ch in enumerate(chunks):
        okl = write(os.path.join(workdir, "c%d.okl" % ci), "\n".join(p.okl for p in ch) + "\n")
        for m in modes:
            dev = os.path.join(workdir, "c%d_%s.xl" % (ci, m))
            lau = os.path.join(workdir, "c%d_%s.launcher" % (ci, m)) if m in LAUNCHED else "-"
            jobs.append((m, okl, dev, lau))
            meta.append((ci, m, dev, lau))
    verdicts = translate_files(xlate, jobs, workdir, env)
    plan = []          # (tag, programs, mode, dev, lau)
    for (ci, m, dev, lau), v in zip(meta, verdicts):
        if v == "OK":
            plan.append(("c%d" % ci, chunks[ci], m, dev, lau))
            continue
        # some program of the chunk is not accepted by this translator: find out which (C22 judges that)
        res["mode_disagreements"] += 1
        vs = validate(xlate, chunks[ci], m, os.path.join(workdir, "fb-%d-%s" % (ci, m)), env)
        sub = [p for p, vv in zip(chunks[ci], vs) if vv == "OK"]
        for p, vv in zip(chunks[ci], vs):
            if vv.startswith("CRASH"):
                res["translator_crashes"].append((p.desc, m, vv))
        if not sub:
            continue
        okl = write(os.path.join(workdir, "c%d_%s_sub.okl" % (ci, m)), "\n".join(p.okl for p in sub) + "\n")
        v2 = translate_files(xlate, [(m, okl, dev, lau)], os.path.join(workdir, "fb2-%d-%s" % (ci, m)), env)
        if v2 and v2[0] == "OK":
            plan.append(("c%ds%s" % (ci, m), sub, m, dev, lau))
    for m in modes:
        res["accepted"][m] = sum(len(pl[1]) for pl in plan if pl[2] == m)
        res["rejected"][m] = len(programs) - res["accepted"][m]
    if log:
        log("translated %d chunk(s) x %d mode(s)" % (len(chunks), len(modes)))

    need_host = any(m in LAUNCHED for m in modes)
    runner = Runner(c, workdir, env, need_host=need_host, host_extra=(prelude.host_extra() if prelude else None))
    # 3. phase 1: reference objects (per distinct program list) and launcher objects (per distinct text)
    ref_jobs, launcher_jobs = {}, {}
    for tag, progs, m, dev, lau in plan:
        rkey = tuple(p.name for p in progs)
        if rkey not in ref_jobs:
            ref_jobs[rkey] = ("r%d" % len(ref_jobs), progs)
        if m in LAUNCHED:
            with open(lau) as f:
                text = f.read()
            lkey = (rkey, hashlib.sha1(text.encode()).hexdigest())
            if lkey not in launcher_jobs:
                launcher_jobs[lkey] = ("l%d" % len(launcher_jobs), progs, lau)
    res["distinct_launcher_sources"] = len(launcher_jobs)
    ref_objs, launcher_objs = {}, {}
    errors = []

    def do_ref(k):
        tag, progs = ref_jobs[k]
        return ("ref", k, runner.build_ref(tag, progs))

    def do_launcher(k):
        tag, progs, lau = launcher_jobs[k]
        return ("lau", k, runner.build_launcher(tag, progs, lau))

    with ThreadPoolExecutor(max_workers=NCPU) as ex:
        futs = [ex.submit(do_ref, k) for k in ref_jobs] + [ex.submit(do_launcher, k) for k in launcher_jobs]
        for f in futs:
            try:
                kind, k, obj = f.result()
                (ref_objs if kind == "ref" else launcher_objs)[k] = obj
            except BuildError as e:
                errors.append(str(e))
    if errors:
        # a translated launcher that does not compile is an observation about the translation, but it can not
        # be attributed without more work: surface it as harness error text for the caller
        res["build_errors"] = errors
        return res
    if log:
        log("compiled %d reference and %d launcher objects" % (len(ref_objs), len(launcher_objs)))

    # 4. phase 2
    def do_run(pl):
        tag, progs, m, dev, lau = pl
        if time.time() > deadline:
            return None
        rkey = tuple(p.name for p in progs)
        lobj = None
        if m in LAUNCHED:
            with open(lau) as f:
                text = f.read()
            lobj = launcher_objs[(rkey, hashlib.sha1(text.encode()).hexdigest())]
        try:
            rc, out, err = runner.build_and_run(tag, progs, m, dev, ref_objs[rkey], lobj)
        except BuildError as e:
            return ("builderror", str(e))
        except subprocess.TimeoutExpired:
            return ("timeout", "")
        return ("ran", rc, out, err)

    with ThreadPoolExecutor(max_workers=NCPU) as ex:
        results = list(ex.map(do_run, plan))

    for pl, r in zip(plan, results):
        tag, progs, m, dev, lau = pl
        if r is None:
            res["complete"] = False
            continue
        if r[0] == "builderror":
            res.setdefault("build_errors", []).append(r[1])
            continue
        if r[0] == "timeout":
            res.setdefault("build_errors", []).append("timeout running %s %s" % (tag, m))
            continue
        _, rc, out, err = r
        stats, mism, done = parse_driver_output(out)
        if not done or rc != 0:
            res.setdefault("build_errors", []).append("driver %s %s ended abnormally rc=%s:\n%s\n%s" % (tag, m, rc, out[-1500:], err[-1500:]))
            continue
        res["executables"] += 1
        byname = dict((p.name, p) for p in progs)
        for name, st in stats.items():
            res["judged_tuples"] += st["judged"]
            res["evaluations"] += st["judged"]
            res["skipped_divergent"] += st["div"]
            res["skipped_precondition"] += st["pre"]
            res["empty_ref"] += st["empty"]
            res["nonempty_ref"] += st["nonempty"]
            res["maxlen"] = max(res["maxlen"], st["maxlen"])
            if st["judged"]:
                res["programs_judged"][m] = res["programs_judged"].get(m, 0) + 1
        for mm in mism:
            p = byname[mm["name"]]
            sig = "%s%s:%s:%s" % (sig_prefix, mm["cls"], family_of(m), p.feature)
            if mm["cls"].startswith("launch-error") and "refempty" in mm["cls"]:
                sig = "%s%s:%s" % (sig_prefix, mm["cls"], family_of(m))
            detail = "%s [%s] operands S,N,K,c,T=%s: sequential %s but translation %s %s" % (
                p.desc, m, mm["operands"], mm["ref"], mm["got"], mm["msg"])
            res["violations"].append((sig, detail, {"program": p.replay_obj(), "mode": m, "operands": mm["operands"]}))
        ubs = ub_reports(err)
        if ubs:
            owners = {}
            seen = set()
            for path, line, kind in ubs:
                if path not in owners:
                    owners[path] = line_owner(path, [p.name for p in progs])
                name = owners[path].get(line)
                if name is None or (name, kind) in seen:
                    continue
                seen.add((name, kind))
                p = byname[name]
                sig = "%sub-in-translation:%s:%s" % (sig_prefix, family_of(m), p.feature)
                res["violations"].append((sig, "%s [%s]: undefined behaviour in the translated code for operands where the "
                                          "sequential loop has none: %s" % (p.desc, m, kind),
                                          {"program": p.replay_obj(), "mode": m, "operands": None}))
    return res


def replay_one(c, xlate, replay, workdir, env):
    """rebuild one program for one mode and run one operand tuple (or the whole domain); prints the observation"""
    p = Program.from_replay(replay["program"])
    m = replay["mode"]
    os.makedirs(workdir, exist_ok=True)
    okl = write(os.path.join(workdir, "r.okl"), p.okl + "\n")
    dev = os.path.join(workdir, "r_%s.xl" % m)
    lau = os.path.join(workdir, "r_%s.launcher" % m) if m in LAUNCHED else "-"
    v = translate_files(xlate, [(m, okl, dev, lau)], workdir, env)
    print("translate[%s]: %s" % (m, v[0]))
    if v[0] != "OK":
        return 0
    print(open(dev).read())
    if lau != "-":
        print(open(lau).read())
    runner = Runner(c, workdir, env, need_host=(m in LAUNCHED))
    ref_o = runner.build_ref("r", [p])
    lobj = runner.build_launcher("r", [p], lau) if m in LAUNCHED else None
    args = [p.name] + [str(x) for x in replay["operands"]] if replay.get("operands") else None
    rc, out, err = runner.build_and_run("r", [p], m, dev, ref_o, lobj, run_args=args)
    print(out)
    ub = ub_reports(err)
    if ub:
        print("UBSan:", ub[:5])
    if args is None:
        stats, mism, done = parse_driver_output(out)
        return 1 if (mism or ub) else 0
    return 1 if (rc != 0 or ub) else 0
