// shared declarations of driver.cpp, the generated reference TU and the generated implementation TUs
#ifndef VERIF_C17_DRIVER_HPP
#define VERIF_C17_DRIVER_HPP

// operands: S N K c T  (bit i of `uses` set = operand i occurs in the program and is enumerated)
struct RefEntry {
  const char *name;
  unsigned uses;
  // plain sequential reading; records with vref(); returns 0 = judged, 1 = the sequential loop does
  // not terminate within the step cap (runs into overflow), 2 = precondition of the property not met
  int (*ref)(int S, int N, int K, int c, int T);
  // operand tuples outside the domain (e.g. a negative left-shift base, UB before C++20) are skipped
  int (*admissible)(int S, int N, int K, int c, int T);
};

struct ImplEntry {
  const char *name;
  void (*impl)(int S, int N, int K, int c, int T);
};

extern RefEntry ref_table[];
extern int ref_count;
extern ImplEntry impl_table[];
extern int impl_count;
void impl_init();

void vrec(int a, int b, int c);   // recorder called by translated code
void vref(int a, int b, int c);   // recorder called by the reference

#define VREF_STEP_CAP 5000   // far above the longest terminating loop nest of the alphabets (~200 steps)
#endif
