#!/usr/bin/env python3
"""C18: @tile covers the original loop's iterations exactly once (E2 enumeration, + E6 gpuemu).

Reuses the C17 machinery (checks/C17/loopfam.py): every tiled loop of a bounded grammar is translated by
the real translators, compiled, run for all operand values and compared with the untiled plain C++ loop.
"""
import os, sys
ROOT = os.path.dirname(os.path.dirname(os.path.dirname(os.path.abspath(__file__))))
sys.path.insert(0, ROOT)
sys.path.insert(0, os.path.join(ROOT, "checks", "C17"))
from vlib.core import Check, san_env, load_replay
import loopfam as lf
import gpuemu

UPDATES = ["++@", "@--", "@+=2", "@+=K", "@-=3", "@-=K"]
PAIRS = [("S", "N"), ("S+1", "(N&6)")]
TILES = ["1", "2", "3", "4", "T", "T<<1"]
CHECKS = ["default", "true", "false"]


def tile_headers(tier):
    """direction-consistent headers for every update x {strict, inclusive} x {it?B, B?it} x (init, bound) pairs,
    plus a few direction-mismatched ones (counted; valid or not is the validator's call)"""
    hs = []
    updates = UPDATES if tier != "quick" else ["++@", "@--", "@+=2", "@-=K"]
    pairs = PAIRS if tier != "quick" else PAIRS[:1]
    for upd in updates:
        up = "+" in upd
        for init, bound in pairs:
            for incl in (False, True):
                for order in lf.ORDERS:
                    below = up if order == "L" else not up        # iterator must be kept below the bound?
                    cmp_ = ("<" if below else ">") + ("=" if incl else "")
                    hs.append(lf.Header(init, cmp_, order, bound, upd))
    hs.append(lf.Header("S", ">", "L", "N", "++@"))
    hs.append(lf.Header("S", "<", "L", "N", "@-=K"))
    return hs


def tile_feature(h, check):
    f = h.feature()
    if f.startswith("step="):
        f = "step=" + ("dec1" if f == "step=dec1" else "n")
    return f + (":nocheck" if check == "false" else "")


def tile_attr(ts, check, oi):
    a = "@tile(" + ts + (", @outer, @inner" if oi else "")
    if check != "default":
        a += ", check=" + check
    return a + ")"


def tile_program(name, h, ts, check, oi):
    hx = h.text("x")
    attr = tile_attr(ts, check, oi)
    if oi:
        okl = "@kernel void %s(%s) { for (%s; %s) { vrec(x, 0, 0); } }" % (name, lf.PARAMS_OKL, hx, attr)
    else:
        okl = ("@kernel void %s(%s) { for (int o = 0; o < 1; ++o; @outer) { for (int i = 0; i < 1; ++i; @inner) { "
               "for (%s; %s) { vrec(x, 0, 0); } } } }" % (name, lf.PARAMS_OKL, hx, attr))
    post = ""
    if check == "false":
        # the property speaks about check=false only when the iteration count is a multiple of the tile size
        post = " if (n %% (%s) != 0) return 2;" % ts
    ref = "int steps = 0; int n = 0; for (%s) { %s vref(x, 0, 0); ++n; }%s return 0;" % (hx, lf.GUARD, post)
    txt = h.all_text() + " " + ts
    return lf.Program(name, okl, ref, lf.uses_of(txt), lf.admissible_of(txt), tile_feature(h, check),
                      "for (%s; %s)%s" % (hx, attr, "" if oi else " [inside @outer/@inner]"),
                      {"family": "tile", "oi": oi, "ts": ts, "check": check, "header": h.key()})


NEST4 = [
    lf.Header("S", "<", "L", "N", "++@"),
    lf.Header("N", ">=", "L", "S", "@-=2"),
    lf.Header("0", ">", "R", "N", "@+=K"),
    lf.Header("S", "<=", "L", "5", "@++"),
]


def nested_tile_program(name, ha, hb, ta, tb, check):
    """two nested @tile(.., @outer, @inner) loops: the block loop of the second is floated up (floatOuterLoopUp)"""
    hy, hx = ha.text("y"), hb.text("x")
    okl = ("@kernel void %s(%s) { for (%s; %s) { for (%s; %s) { vrec(y, x, 0); } } }"
           % (name, lf.PARAMS_OKL, hy, tile_attr(ta, check, True), hx, tile_attr(tb, check, True)))
    post = ""
    if check == "false":
        post = " if (ny %% (%s) != 0 || (ny && (nx / ny) %% (%s) != 0)) return 2;" % (ta, tb)
    ref = ("int steps = 0; int ny = 0, nx = 0; for (%s) { %s ++ny; for (%s) { %s vref(y, x, 0); ++nx; } }%s return 0;"
           % (hy, lf.GUARD, hx, lf.GUARD, post))
    txt = ha.all_text() + " " + hb.all_text() + " " + ta + " " + tb
    fa, fb = tile_feature(ha, check), tile_feature(hb, check)
    return lf.Program(name, okl, ref, lf.uses_of(txt), lf.admissible_of(txt), "nested:" + (fa if not fa.startswith("plain") else fb),
                      "for (%s; %s) for (%s; %s)" % (hy, tile_attr(ta, check, True), hx, tile_attr(tb, check, True)),
                      {"family": "nested-tile"})


def programs(tier):
    progs = []
    hs = tile_headers(tier)
    tiles = TILES if tier != "quick" else ["1", "3", "T"]
    checks = CHECKS if tier != "quick" else ["default", "false"]
    for oi in (False, True):
        for check in checks:
            for ts in tiles:
                for h in hs:
                    progs.append(tile_program("k%d" % len(progs), h, ts, check, oi))
    nest = NEST4 if tier != "quick" else NEST4[:2]
    for check in (["default"] if tier == "quick" else ["default", "false"]):
        for (ta, tb) in ([("2", "3")] if tier == "quick" else [("2", "3"), ("T", "2")]):
            for ha in nest:
                for hb in nest:
                    progs.append(nested_tile_program("k%d" % len(progs), ha, hb, ta, tb, check))
    return progs


def main():
    c = Check("C18", "exploration")
    c.build(lf.VARIANT)
    env = san_env(c.scratch)
    xlate = lf.compile_xlate(c)
    if c.args.replay:
        r = load_replay(c.args.replay)
        sys.exit(lf.replay_one(c, xlate, r["replay"], os.path.join(c.scratch, "replay"), env))

    modes = ("serial", "cuda") if c.tier == "quick" else lf.ALL_MODES
    prelude = lf.Prelude(c.scratch, env, need_host=any(m in lf.LAUNCHED for m in modes))
    progs = programs(c.tier)
    deadline = c.t0 + c.budget(900, 2400)

    def log(msg):
        print("[C18 %.0fs] %s" % (c.elapsed(), msg), flush=True)

    res = lf.run_family(c, progs, modes, os.path.join(c.scratch, "fam"), env, xlate, deadline, sig_prefix="tile:", log=log, prelude=prelude)
    ok, text = prelude.selftest_result()
    if not ok:
        c.harness_error("gpuemu self-test failed (trusted base broken):\n" + text)
    if res.get("build_errors"):
        c.harness_error("translated code did not build/run:\n" + "\n---\n".join(res["build_errors"][:3]))
    for desc, mode, v in res["translator_crashes"]:
        c.violation("translator-crash:" + mode, "%s: translator died (%s)" % (desc, v), {"desc": desc, "mode": mode})
    for sig, detail, replay in res["violations"]:
        c.violation(sig, detail, replay)

    nprog = len(progs)
    c.vacuity(res["accepted"]["serial"] >= nprog // 4, "fewer than 1/4 of the tiled loops accepted")
    c.vacuity(res["nonempty_ref"] > 0 and res["empty_ref"] > 0, "both empty and non-empty loops must be judged")
    c.vacuity(res["skipped_precondition"] > 0, "check=false programs with a count that is not a multiple of T must occur (and be skipped)")
    c.vacuity(res["maxlen"] >= 8, "no loop with at least 8 iterations (more than one tile of every size) was run")
    for m in modes:
        c.vacuity(res["programs_judged"].get(m, 0) >= res["accepted"]["serial"] // 2,
                  "mode %s judged fewer than half of the accepted programs" % m)

    c.set_exploration(
        evaluations=res["evaluations"],
        distinct_nontrivial=sum(res["programs_judged"].values()),
        rule="all tiled loops: header (update x strict/inclusive x operand order x (init,bound) pairs) x tile size {1,2,3,4, run-time T, T<<1} (quick: {1,3,T}) "
             "x check {default,true,false} x {@tile(T) inside @outer/@inner, @tile(T,@outer,@inner)} plus nested "
             "@tile(..,@outer,@inner) pairs; translated by %s, run for all S,N in [-2,6], K in [1,6], T in [1,4]; multiset of "
             "visited iterator values == untiled sequential loop (check=false: only when the count is a multiple of T)"
             % ",".join(modes),
        samples=[progs[0].desc, progs[len(progs) // 2].desc, progs[-1].desc],
        exhaustive=res["complete"],
        programs_generated=nprog,
        accepted_by_mode=res["accepted"], rejected_by_mode=res["rejected"],
        programs_judged_by_mode=res["programs_judged"],
        judged_operand_tuples=res["judged_tuples"],
        tuples_skipped_sequential_loop_overflows=res["skipped_divergent"],
        tuples_skipped_count_not_multiple_of_tile=res["skipped_precondition"],
        empty_sequential_loops_judged=res["empty_ref"], nonempty_sequential_loops_judged=res["nonempty_ref"],
        executables_run=res["executables"], longest_reference_visit_list=res["maxlen"], modes=list(modes),
    )
    c.assumptions += [
        "GPU-style backends are judged under gpuemu (sequential emulation of the documented launch model, trusted base)",
        "iterator type int; tile sizes 1..4 (literal) and a run-time T in [1,4]",
        "tiled loops rejected by the translators are counted, not judged",
    ]
    c.finish()


if __name__ == "__main__":      # (C18 is also imported by tooling for its generators)
    from vlib.core import run_main; run_main(main)
