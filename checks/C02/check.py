#!/usr/bin/env python3
"""C02: device memory behaves like an aliased byte array; misuse raises errors (E1 histbfs).

Two explorations per host mode (Serial, OpenMP):
  core  BFS over histories of a representative alphabet (3 memory variables) to depth d
  full  the single-step layer: every state reachable within k core operations is expanded with the full
        argument domains (every count / offset / operand combination)
Oracle: byte-array reference model, complete read-back of every live memory after every operation, invalid
requests (out of range, negative, uninitialised operand) must throw occa::exception and change nothing."""
import glob, os, sys, time
sys.path.insert(0, os.path.dirname(os.path.dirname(os.path.dirname(os.path.abspath(__file__)))))
from vlib.core import Check, san_env, load_replay, sh
from vlib import histbfs

HERE = os.path.dirname(os.path.abspath(__file__))
OPS = ["?", "malloc", "wrapMemory", "slice", "offset", "cast", "clone", "copyFrom-host", "copyTo-host",
       "copyFrom-mem", "copyTo-mem", "free"]

# (run name, mode, FULL_AT (-1 = core BFS), depth quick, depth thorough, budget share)
RUNS = [
    ("core-Serial", "Serial", -1, 3, 4, 0.40),
    ("full-Serial", "Serial", 1, 2, 3, 0.25),
    ("core-OpenMP", "OpenMP", -1, 3, 4, 0.20),
    ("full-OpenMP", "OpenMP", 1, 2, 3, 0.15),
]
GUARDS = {
    "core": ["write-visible-through-alias", "slice-of-slice", "clone", "device-to-device-copy", "copy-inside-one-buffer",
             "cast-size-not-multiple-of-dtype", "wrapped", "partial-read", "invalid:out-of-range", "invalid:negative-offset",
             "invalid:uninit-receiver", "invalid:uninit-operand"],
    "full": ["invalid:out-of-range", "invalid:negative-offset", "invalid:negative-count", "invalid:uninit-receiver",
             "invalid:uninit-operand", "invalid:uninit-both", "device-to-device-copy", "zero-size-initialised-memory"],
}


def confirm_timeouts(exe, env, cwd, violations):
    """A worker that ran out of time on an overloaded machine is not an observation: every timeout / watchdog kill
    is re-run alone with a generous limit.  If the single run passes, the timeout is dropped (and counted); if it
    shows a verdict of its own, that verdict replaces the timeout.  Returns (violations, number not reproduced)."""
    import re, subprocess
    keep, spurious = [], 0
    for sig, detail, hist in violations:
        if ":timeout" in sig or ":hang" in sig or "signal:14" in sig:
            try:
                p = subprocess.run([exe, "replay", hist or ";"], env=env, cwd=cwd, stdout=subprocess.PIPE,
                                   stderr=subprocess.PIPE, text=True, timeout=300)
                if p.returncode == 0:
                    spurious += 1
                    continue
                m = re.search(r"^  FAIL (\S+) :: (.*)$", p.stdout, re.M)
                if m:
                    sig, detail = m.group(1), m.group(2)
                elif p.returncode != -14:
                    cls = histbfs._crash_class("exit:%d" % p.returncode, p.stderr)
                    sig = re.sub(r":(timeout|hang)", ":" + cls, sig) if re.search(r":(timeout|hang)", sig) else "crash:" + cls
                    detail = histbfs._first_report(p.stderr)
            except subprocess.TimeoutExpired:
                pass
        keep.append((sig, detail, hist))
    return keep, spurious


def main():
    c = Check("C02", "model_checking")
    c.build("asan")
    exe = c.compile(os.path.join(HERE, "harness.cpp"), "harness")
    env0 = san_env(c.scratch)
    # registering the globals of the 120 MB instrumented library costs seconds per process start; the objects under
    # test live on the heap, so global-variable redzones are switched off for the workers
    env0["ASAN_OPTIONS"] += ":report_globals=0:quarantine_size_mb=32:malloc_context_size=6"   # 32 MB quarantine >> what one history frees

    if c.args.replay:
        r = load_replay(c.args.replay)["replay"]
        env = dict(env0, C02_MODE=r["mode"], C02_FULL_AT=str(r["full_at"]))
        p = sh([exe, "replay", r["history"] or ";"], env=env, cwd=c.scratch)
        print(p.stdout[-6000:])
        sys.exit(1 if p.returncode else 0)

    p = sh([exe, "modes"], env=env0, cwd=c.scratch)
    have_openmp = "OpenMP 1" in p.stdout
    runs = [r for r in RUNS if r[1] != "OpenMP" or have_openmp]

    total = c.budget(300, 1200)   # wall clock; an idle 16-core machine needs about a quarter of it
    t_start = time.time()
    states = transitions = 0
    per_run = {}
    samples = []
    all_done = True
    sigs = set()
    spurious_total = 0
    for name, mode, full_at, dq, dt, share in runs:
        depth = dq if c.tier == "quick" else dt
        if full_at >= 0:
            full_at = depth - 1
        # workers do not symbolize reports (an addr2line run per crash costs seconds); --replay does
        env = dict(env0, ASAN_OPTIONS=env0["ASAN_OPTIONS"] + ":symbolize=0", C02_MODE=mode, C02_FULL_AT=str(full_at))
        wd = os.path.join(c.scratch, "run-" + name)
        os.makedirs(wd, exist_ok=True)
        histbfs.check_keys.clear()
        left_share = sum(r[5] for r in runs if r[0] not in per_run)
        deadline = time.time() + max(30.0, (total - (time.time() - t_start)) * share / left_share)
        t1 = time.time()

        def crash_sig(op, crash, stderr):
            k = int(op.split(",")[0])
            cls = "hang" if crash == "signal:14" else histbfs._crash_class(crash, stderr)   # signal 14 = the harness watchdog
            return "crash:%s:%s" % (cls, OPS[k] if 0 < k < len(OPS) else "?")

        # hangs are caught by the watchdog inside the harness, so the runner's own limit only has to cover a
        # stalled machine; a run in which the very first workers were lost is repeated, not reported
        for attempt in range(3):
            histbfs.check_keys.clear()
            res = histbfs.bfs(c, exe, depth, deadline, env, wd, crash_sig=crash_sig, per_item_timeout=120.0)
            res.violations, spurious = confirm_timeouts(exe, env, wd, res.violations)
            if not (spurious and res.depth_completed < 2 and not res.violations):
                break
            deadline = max(deadline, time.time() + 120.0)
        spurious_total += spurious
        for sig, detail, hist in res.violations:
            # readable form only for the first occurrence of a signature (describe() starts a process)
            readable = histbfs.describe(exe, hist, env) if sig not in sigs else hist
            sigs.add(sig)
            c.violation(sig, "[%s] %s :: %s" % (mode, readable, detail),
                        {"mode": mode, "full_at": full_at, "history": hist})
        need = 2
        if res.depth_completed < need and not res.violations and not c.violations and not res.budget_hit:   # out of budget = exit 0 with exhaustive:false (HOWTO rule 1)   # observations made so far are still reported
            c.harness_error("run %s: BFS did not complete depth %d (completed %d)" % (name, need, res.depth_completed))
        events = set()
        for f in glob.glob(os.path.join(wd, "events.*")):
            events.update(l.strip() for l in open(f) if l.strip())
        reached = res.depth_completed >= depth or res.exhaustive
        # guards describe the target depth of a run without (unlisted) violations: violating transitions are not expanded
        if reached and not [v for v in c.violations if not c.known.match(v["sig"])]:
            for g in GUARDS[name.split("-")[0]]:
                c.vacuity(g in events, "run %s never reached situation %r" % (name, g))
        states += res.states
        transitions += res.transitions
        done = (res.depth_completed >= depth or res.exhaustive) and spurious == 0   # a lost worker = a transition not followed
        all_done = all_done and done
        per_run[name] = {"timeouts_not_reproduced": spurious, "mode": mode, "alphabet": "full single-step layer after %d core operations" % full_at if full_at >= 0 else "core",
                         "states": res.states, "transitions": res.transitions, "depth_completed": res.depth_completed,
                         "depth_target": depth, "exhaustive_within_bound": done, "budget_hit": res.budget_hit,
                         "violating_transitions": sum(res.sig_counts.values()), "situations_reached": sorted(events),
                         "per_depth": res.per_depth, "wall_s": round(time.time() - t1, 1)}
        samples += ["[%s] %s" % (name, s) for s in res.samples[-2:]]

    known_hit = sum(1 for v in c.violations if c.known.match(v["sig"]))
    c.set_model_checking(states, transitions, transitions, samples, exhaustive=all_done,
        per_run=per_run, openmp_available=have_openmp,
        depth_completed=min(v["depth_completed"] for v in per_run.values()),
        distinct_violation_signatures=len(sigs), masked_by_known_finding=known_hit,
        alphabet="3 memory variables; malloc(entries x dtype in {byte,int32,3-byte custom}, with/without initial data, 0 and -1 entries), "
                 "wrapMemory, slice(off in {-1,0,1,2,N}, count in {-2,-1,0,1,2,N+1}), + offset, cast, clone, copyFrom/copyTo host "
                 "(count, offset), copyFrom/copyTo memory (count, destOffset, srcOffset; also onto itself), free; every operand may be an "
                 "uninitialised or freed handle; every write uses a fresh byte pattern",
        oracle="byte-array model (views alias, clones do not); complete read-back through copyTo and ptr() of every live memory "
               "and of wrapped host blocks after every operation; invalid request => occa::exception, nothing modified, no crash "
               "(host blocks are exact-size heap blocks, ASan+UBSan)",
        explanation="every transition is executed on real occa::memory handles of a Serial/OpenMP device; state key = implementation "
                    "view structure (memory object, buffer, offset, size, dtype per variable) + which bytes have known content")
    c.assumptions += [
        "byte values are not part of the state key: the copy code's control flow does not depend on the bytes copied (data independence)",
        "count == -1 is the documented 'everything' default and therefore valid; any other negative count or offset is invalid",
        "whether a zero-byte result (malloc(0), clone of an empty slice) is an initialised handle is taken from isInitialized()",
        "free() itself is not judged (not in the property's operation list); it only produces freed handles",
    ]
    c.finish()


from vlib.core import run_main
run_main(main)
